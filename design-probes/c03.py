import sys, re, collections
from pi import *
fns = load(['/tmp/probe/x/out/Token.cpp.json','/tmp/probe/x/out/SessionManager.cpp.json','softhsm.json','/tmp/probe/x/out/SecureDataManager.cpp.json'])
WATCH = {'SecureDataManager::loginSO','SecureDataManager::loginUser','SecureDataManager::setUserPIN','SecureDataManager::setSOPIN','ObjectStoreToken::setUserPIN','ObjectStoreToken::setSOPIN','ObjectStoreToken::resetToken','Token::loginSO','Token::initUserPIN','Token::setUserPIN','Token::setSOPIN','Slot::initToken','Token::logout','ObjectStore::newToken'}
rows = collections.defaultdict(list)
class C03(Interp):
    TRACK = {'rv','bOK','result'}
    def track(self, name, val, rhs): return True
    def on_call(self, e, st):
        c = e.get('callee') or ''
        if c in WATCH:
            rows[(self.fn['qname'], c, e['l'])].append(frozenset(st.facts))
        if c == 'Session::Session':
            rows[(self.fn['qname'], 'new Session', e['l'])].append(frozenset(st.facts))
    def effects(self, e, st):
        if isinstance(e, dict) and e.get('k') == 'New' and 'Session' in e.get('type',''):
            rows[(self.fn['qname'], 'new Session', e['l'])].append(frozenset(st.facts))
        Interp.effects(self, e, st)
for f in fns:
    if f.get('body') is None: continue
    if not re.search(r'(Token|SessionManager|SoftHSM|SecureDataManager)::', f['qname']): continue
    if not f['file'].endswith(('Token.cpp','SessionManager.cpp','SoftHSM.cpp','SecureDataManager.cpp')) or '/object_store/' in f['file']: continue
    C03(f).go()
for (q, c, l), lst in sorted(rows.items(), key=lambda x: (x[0][0], x[0][2])):
    common = set.intersection(*[set(x) for x in lst])
    show = sorted((a[:90], t) for a, t in common if not a.startswith('EQ(isInitialised') and a != 'isInitialised' and 'session' != a)
    print('%-28s %-34s @%-5d paths=%-3d must-facts=%s' % (q.replace('SoftHSM::',''), c, l, len(lst), show))
