import sys, re, collections
from pi import *
fns = [f for f in load(['softhsm.json','/tmp/probe/x/out/P11Attributes.cpp.json']) if f['file'].endswith(('SoftHSM.cpp','P11Attributes.cpp'))]
reports = []; stats = collections.Counter()
PRIV = re.compile(r'^(is\w*Private|isPrivate|isKeyPrivate)$')
class C06(Interp):
    TRACK = {'rv','bOK'}
    def types(self):
        t = {p['var']['name']: p['type'] for p in self.fn['params']}
        def w(s):
            if isinstance(s, dict):
                if s.get('k') == 'Decl':
                    for d in s['decls']: t[d['var']['name']] = d['type']
                for v in s.values(): w(v)
            elif isinstance(s, list):
                for v in s: w(v)
        w(self.fn['body']); return t
    def on_call(self, e, st):
        c = (e.get('callee') or '').split('::'); name = c[-1]; cls = c[-2] if len(c) > 1 else ''
        if name == 'encrypt' and cls == 'Token':
            out = e['args'][1]
            if out.get('k') == 'Var': st.aut['bs:' + out['name']] = 'enc'
        if name == 'setAttribute' and cls == 'OSObject':
            v = e['args'][1]
            while v.get('k') == 'Ctor' and len(v.get('args', [])) == 1: v = v['args'][0]
            if v.get('k') == 'Var' and 'ByteString' not in self.T.get(v['name'], ''): return
            if v.get('k') in ('Lit', 'Un', 'Call') and 'ByteString' not in (v.get('callee') or ''): return
            if v.get('k') == 'Var' and 'ByteString' in self.T.get(v['name'], ''):
                stats['ByteString stores'] += 1
                how = st.aut.get('bs:' + v['name'], 'unset')
                privT = [a for a, t in st.facts if t and PRIV.match(a)]
                privF = [a for a, t in st.facts if (not t) and PRIV.match(a)]
                ok = (how == 'enc' and privT) or (how == 'plain' and privF) or how == 'unset'
                if how == 'unset': stats['stores of never-assigned (empty) value'] += 1
                if not ok: reports.append((self.fn['qname'].split('SoftHSM::')[-1], e['l'], canon(e['args'][0]), v['name'], how, 'priv+' + str(privT) + ' priv-' + str(privF)))
            elif v.get('k') in ('Ctor',) or (v.get('k') == 'Call' and 'ByteString' in (v.get('callee') or '')):
                stats['inline ByteString stores'] += 1
                reports.append((self.fn['qname'].split('SoftHSM::')[-1], e['l'], canon(e['args'][0]), canon(v)[:40], 'inline', ''))
    def on_assign(self, lhs, rhs, st):
        if lhs.get('k') == 'Var' and 'ByteString' in self.T.get(lhs['name'], '') and rhs is not None:
            st.aut['bs:' + lhs['name']] = 'plain'
for f in fns:
    if f.get('body') is None: continue
    it = C06(f); it.T = it.types(); it.go(); stats['functions'] += 1
print(dict(stats))
agg = collections.OrderedDict()
for r in reports: agg.setdefault(r, 0); agg[r] += 1
for r, n in agg.items(): print(r, 'x%d' % n)
