// Throwaway prototype of the fact extractor (not framework code): normalised JSON AST per function.
#include "clang/AST/ASTConsumer.h"
#include "clang/AST/RecursiveASTVisitor.h"
#include "clang/AST/ExprCXX.h"
#include "clang/AST/StmtCXX.h"
#include "clang/Frontend/CompilerInstance.h"
#include "clang/Frontend/FrontendAction.h"
#include "clang/Tooling/CommonOptionsParser.h"
#include "clang/Tooling/Tooling.h"
#include "clang/Lex/Lexer.h"
#include "llvm/Support/JSON.h"
using namespace clang; using namespace clang::tooling; using llvm::json::Object; using llvm::json::Array; using llvm::json::Value;
static llvm::cl::OptionCategory Cat("facts");
struct Ex {
  ASTContext &C; SourceManager &SM;
  Ex(ASTContext&c):C(c),SM(c.getSourceManager()){}
  int line(SourceLocation L){ return SM.getExpansionLineNumber(L); }
  std::string macroName(SourceLocation L){ if(!L.isMacroID()) return ""; 
     // outermost macro whose expansion is exactly this token
     SourceLocation cur=L; std::string name;
     while(cur.isMacroID()){ name=Lexer::getImmediateMacroName(cur,SM,C.getLangOpts()).str(); if(SM.isMacroArgExpansion(cur)) cur=SM.getImmediateSpellingLoc(cur); else cur=SM.getImmediateExpansionRange(cur).getBegin(); }
     return name; }
  const Expr* strip(const Expr*E){ while(true){ E=E->IgnoreParenImpCasts(); if(auto*X=dyn_cast<ExprWithCleanups>(E)){E=X->getSubExpr();continue;} if(auto*X=dyn_cast<MaterializeTemporaryExpr>(E)){E=X->getSubExpr();continue;} if(auto*X=dyn_cast<CXXBindTemporaryExpr>(E)){E=X->getSubExpr();continue;} if(auto*X=dyn_cast<ConstantExpr>(E)){E=X->getSubExpr();continue;} if(auto*X=dyn_cast<CXXDefaultArgExpr>(E)){E=X->getExpr();continue;} return E; } }
  Value var(const ValueDecl*D){ Object o; const char*k="global"; if(isa<ParmVarDecl>(D))k="param"; else if(auto*V=dyn_cast<VarDecl>(D)){ if(V->isLocalVarDecl())k="local";} else if(isa<FieldDecl>(D))k="field"; else if(isa<EnumConstantDecl>(D))k="enum"; else if(isa<FunctionDecl>(D))k="func";
    o["k"]="Var"; o["kind"]=k; o["name"]=D->getNameAsString(); o["id"]=(int64_t)(uintptr_t)D->getCanonicalDecl()%1000000007; if(auto*EC=dyn_cast<EnumConstantDecl>(D)) {o["value"]=(int64_t)EC->getInitVal().getExtValue(); o["qname"]=EC->getQualifiedNameAsString();} return o; }
  Value expr(const Expr*E0){ if(!E0) return nullptr; const Expr*E=strip(E0); Object o; o["l"]=line(E->getBeginLoc());
    if(auto*X=dyn_cast<IntegerLiteral>(E)){ o["k"]="Lit"; o["v"]=(int64_t)X->getValue().getLimitedValue(); auto m=macroName(X->getBeginLoc()); if(!m.empty()) o["m"]=m; return o; }
    if(auto*X=dyn_cast<CXXBoolLiteralExpr>(E)){ o["k"]="Lit"; o["v"]=X->getValue()?1:0; o["b"]=true; return o; }
    if(isa<GNUNullExpr>(E)||isa<CXXNullPtrLiteralExpr>(E)){ o["k"]="Null"; return o; }
    if(isa<StringLiteral>(E)||isa<PredefinedExpr>(E)){ o["k"]="Str"; return o; }
    if(isa<CharacterLiteral>(E)){ o["k"]="Lit"; o["v"]=(int64_t)cast<CharacterLiteral>(E)->getValue(); return o; }
    if(isa<CXXThisExpr>(E)){ o["k"]="This"; return o; }
    if(auto*X=dyn_cast<DeclRefExpr>(E)){ return var(X->getDecl()); }
    if(auto*X=dyn_cast<MemberExpr>(E)){ if(isa<CXXMethodDecl>(X->getMemberDecl())){ o["k"]="MethodRef"; o["name"]=X->getMemberDecl()->getQualifiedNameAsString(); o["base"]=expr(X->getBase()); return o;} o["k"]="Member"; o["field"]=X->getMemberDecl()->getNameAsString(); o["base"]=expr(X->getBase()); return o; }
    if(auto*X=dyn_cast<CXXMemberCallExpr>(E)){ o["k"]="Call"; auto*MD=X->getMethodDecl(); o["callee"]=MD?MD->getQualifiedNameAsString():""; o["virtual"]=MD&&MD->isVirtual(); o["recv"]=expr(X->getImplicitObjectArgument()); Array a; for(auto*A:X->arguments()) a.push_back(expr(A)); o["args"]=std::move(a); return o; }
    if(auto*X=dyn_cast<CXXOperatorCallExpr>(E)){ o["k"]="Call"; auto*FD=X->getDirectCallee(); o["callee"]=FD?FD->getQualifiedNameAsString():"op"; Array a; for(auto*A:X->arguments()) a.push_back(expr(A)); o["args"]=std::move(a); return o; }
    if(auto*X=dyn_cast<CallExpr>(E)){ o["k"]="Call"; auto*FD=X->getDirectCallee(); o["callee"]=FD?FD->getQualifiedNameAsString():""; if(!FD) o["fn"]=expr(X->getCallee()); Array a; for(auto*A:X->arguments()) a.push_back(expr(A)); o["args"]=std::move(a); return o; }
    if(auto*X=dyn_cast<CXXConstructExpr>(E)){ if(X->getNumArgs()==1 && X->getConstructor()->isCopyOrMoveConstructor()) return expr(X->getArg(0)); o["k"]="Ctor"; o["type"]=X->getType().getAsString(); Array a; for(auto*A:X->arguments()) a.push_back(expr(A)); o["args"]=std::move(a); return o; }
    if(auto*X=dyn_cast<CXXNewExpr>(E)){ o["k"]="New"; o["type"]=X->getAllocatedType().getAsString(); if(auto*CE=X->getConstructExpr()){ Array a; for(auto*A:CE->arguments()) a.push_back(expr(A)); o["args"]=std::move(a);} return o; }
    if(auto*X=dyn_cast<CXXDeleteExpr>(E)){ o["k"]="Delete"; o["e"]=expr(X->getArgument()); return o; }
    if(auto*X=dyn_cast<UnaryOperator>(E)){ o["k"]="Un"; o["op"]=UnaryOperator::getOpcodeStr(X->getOpcode()).str(); o["e"]=expr(X->getSubExpr()); return o; }
    if(auto*X=dyn_cast<BinaryOperator>(E)){ o["k"]=X->isAssignmentOp()?"Assign":"Bin"; o["op"]=X->getOpcodeStr().str(); o["a"]=expr(X->getLHS()); o["b"]=expr(X->getRHS()); return o; }
    if(auto*X=dyn_cast<ConditionalOperator>(E)){ o["k"]="Cond"; o["c"]=expr(X->getCond()); o["t"]=expr(X->getTrueExpr()); o["f"]=expr(X->getFalseExpr()); return o; }
    if(auto*X=dyn_cast<ArraySubscriptExpr>(E)){ o["k"]="Index"; o["base"]=expr(X->getBase()); o["idx"]=expr(X->getIdx()); return o; }
    if(auto*X=dyn_cast<ExplicitCastExpr>(E)){ return expr(X->getSubExpr()); }
    if(auto*X=dyn_cast<UnaryExprOrTypeTraitExpr>(E)){ o["k"]="Sizeof"; Expr::EvalResult R; if(X->EvaluateAsInt(R,C)) o["v"]=(int64_t)R.Val.getInt().getExtValue(); return o; }
    if(auto*X=dyn_cast<InitListExpr>(E)){ o["k"]="Init"; Array a; for(auto*A:X->inits()) a.push_back(expr(A)); o["args"]=std::move(a); return o; }
    if(auto*X=dyn_cast<CXXTemporaryObjectExpr>(E)){ o["k"]="Ctor"; o["type"]=X->getType().getAsString(); return o; }
    o["k"]="Other"; o["cls"]=E->getStmtClassName(); return o; }
  Value stmt(const Stmt*S){ if(!S) return nullptr; Object o; o["l"]=line(S->getBeginLoc());
    if(auto*X=dyn_cast<CompoundStmt>(S)){ o["k"]="Block"; Array a; for(auto*c:X->body()) if(!isa<NullStmt>(c)) a.push_back(stmt(c)); o["body"]=std::move(a); return o; }
    if(auto*X=dyn_cast<IfStmt>(S)){ o["k"]="If"; o["c"]=expr(X->getCond()); o["t"]=stmt(X->getThen()); if(X->getElse()) o["e"]=stmt(X->getElse()); return o; }
    if(auto*X=dyn_cast<ReturnStmt>(S)){ o["k"]="Return"; if(X->getRetValue()) o["e"]=expr(X->getRetValue()); return o; }
    if(auto*X=dyn_cast<DeclStmt>(S)){ o["k"]="Decl"; Array a; for(auto*D:X->decls()) if(auto*V=dyn_cast<VarDecl>(D)){ Object d; d["var"]=var(V); d["type"]=V->getType().getAsString(); if(V->hasInit()) d["init"]=expr(V->getInit()); a.push_back(std::move(d)); } o["decls"]=std::move(a); return o; }
    if(auto*X=dyn_cast<ForStmt>(S)){ o["k"]="For"; o["init"]=stmt(X->getInit()); o["c"]=expr(X->getCond()); o["inc"]=expr(X->getInc()); o["body"]=stmt(X->getBody()); return o; }
    if(auto*X=dyn_cast<WhileStmt>(S)){ o["k"]="While"; o["c"]=expr(X->getCond()); o["body"]=stmt(X->getBody()); return o; }
    if(auto*X=dyn_cast<DoStmt>(S)){ o["k"]="Do"; o["c"]=expr(X->getCond()); o["body"]=stmt(X->getBody()); return o; }
    if(auto*X=dyn_cast<SwitchStmt>(S)){ o["k"]="Switch"; o["c"]=expr(X->getCond()); o["body"]=stmt(X->getBody()); return o; }
    if(auto*X=dyn_cast<CaseStmt>(S)){ o["k"]="Case"; o["v"]=expr(X->getLHS()); o["sub"]=stmt(X->getSubStmt()); return o; }
    if(auto*X=dyn_cast<DefaultStmt>(S)){ o["k"]="Default"; o["sub"]=stmt(X->getSubStmt()); return o; }
    if(isa<BreakStmt>(S)){ o["k"]="Break"; return o; } if(isa<ContinueStmt>(S)){ o["k"]="Continue"; return o; }
    if(auto*X=dyn_cast<CXXTryStmt>(S)){ o["k"]="Try"; o["body"]=stmt(X->getTryBlock()); Array a; for(unsigned i=0;i<X->getNumHandlers();i++) a.push_back(stmt(X->getHandler(i)->getHandlerBlock())); o["handlers"]=std::move(a); return o; }
    if(auto*X=dyn_cast<Expr>(S)){ o["k"]="Expr"; o["e"]=expr(X); return o; }
    o["k"]="OtherStmt"; o["cls"]=S->getStmtClassName(); return o; }
};
struct V : RecursiveASTVisitor<V> { ASTContext&C; Array fns; V(ASTContext&c):C(c){}
  bool VisitFunctionDecl(FunctionDecl*FD){ if(!FD->doesThisDeclarationHaveABody()) return true; auto&SM=C.getSourceManager(); auto fn=SM.getFilename(SM.getExpansionLoc(FD->getLocation())); if(!fn.startswith("/repo/src/")) return true; if(FD->isTemplated()) return true;
    Ex ex(C); Object o; o["qname"]=FD->getQualifiedNameAsString(); o["file"]=fn.str(); o["line"]=ex.line(FD->getLocation()); Array ps; for(auto*P:FD->parameters()){ Object p; p["var"]=ex.var(P); p["type"]=P->getType().getAsString(); ps.push_back(std::move(p)); } o["params"]=std::move(ps); o["body"]=ex.stmt(FD->getBody());
    if(auto*CD=dyn_cast<CXXConstructorDecl>(FD)){ Array is; for(auto*I:CD->inits()) if(I->isWritten()){ Object i; if(I->getMember()) i["field"]=I->getMember()->getNameAsString(); i["init"]=ex.expr(I->getInit()); is.push_back(std::move(i)); } o["inits"]=std::move(is);} 
    fns.push_back(std::move(o)); return true; } };
struct Cons: ASTConsumer { void HandleTranslationUnit(ASTContext&C) override { V v(C); v.TraverseDecl(C.getTranslationUnitDecl()); Object top; top["functions"]=std::move(v.fns); llvm::outs()<<Value(std::move(top))<<"\n"; } };
struct Act: ASTFrontendAction { std::unique_ptr<ASTConsumer> CreateASTConsumer(CompilerInstance&,StringRef) override { return std::make_unique<Cons>(); } };
int main(int argc,const char**argv){ auto P=CommonOptionsParser::create(argc,argv,Cat); if(!P){llvm::errs()<<P.takeError(); return 1;} ClangTool T(P->getCompilations(),P->getSourcePathList()); return T.run(newFrontendActionFactory<Act>().get()); }
