import sys, re, collections
from pi import *
fns = [f for f in load(['/tmp/probe/x/out/P11Attributes.cpp.json']) if f['qname'] in ('P11Attribute::retrieve','P11Attribute::update')]
rows = collections.defaultdict(list)
class R(Interp):
    TRACK = {'rv'}
    def track(self, name, val, rhs): return True
    def effects(self, e, st):
        if isinstance(e, dict):
            # writes through pValue: memcpy(pValue..), *(T*)pValue = .., retrieveAttributeMap(pValue..)
            if e.get('k') == 'Assign' and 'pValue' in canon(e['a']) and e['a'].get('k') in ('Un','Index'):
                rows[(self.fn['qname'], 'store *pValue', e['l'])].append(frozenset(st.facts))
            if e.get('k') == 'Call' and any(a is not None and a.get('k') == 'Var' and a['name'] in ('pValue','pTemplate') for a in e.get('args', [])) and (e.get('callee') or '').split('::')[-1] in ('memcpy','retrieveAttributeMap'):
                rows[(self.fn['qname'], 'call ' + e['callee'], e['l'])].append(frozenset(st.facts))
            if e.get('k') == 'Call' and (e.get('callee') or '').endswith('updateAttr'):
                rows[(self.fn['qname'], 'call updateAttr', e['l'])].append(frozenset(st.facts))
        Interp.effects(self, e, st)
for f in fns: R(f).go()
for (q, c, l), lst in sorted(rows.items(), key=lambda x: x[0][2]):
    common = set.intersection(*[set(x) for x in lst])
    guard = [(a[:80], t) for a, t in common if 'ck' in a or 'isSensitive' in a or 'isExtractable' in a or 'op' in a.lower()]
    # per path: does each path have the reveal guard false?
    ok = all(any(('ck7' in a and not t) or (a.startswith('isSensitive') and not t) for a, t in x) for x in lst) if 'retrieve' in q else None
    print('%-22s %-30s @%-4d paths=%-3d reveal-guard-false-on-all-paths=%s common=%s' % (q, c, l, len(lst), ok, guard))
