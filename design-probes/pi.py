#!/usr/bin/env python3
"""Throwaway prototype interpreter (design validation only). Path-sensitive walk of the normalised AST.
State = (env: var->symbolic string|None, facts: set[(atom,bool)], aut: tuple(sorted items))"""
import json, re, collections
FALSEY = {'0', 'CK_FALSE', 'NULL', 'NULL_PTR', 'CK_INVALID_HANDLE', 'false'}
def ids(s): return set(re.findall(r'[A-Za-z_][A-Za-z_0-9]*', s))
def canon(e, env=None):
    env = env or {}
    if e is None: return '?'
    k = e.get('k')
    if k == 'Var':
        n = e['name']
        if e['kind'] in ('local', 'param') and env.get(n) is not None: return env[n]
        return n
    if k == 'Lit':
        if e.get('b'): return 'true' if e['v'] else 'false'
        return e.get('m') or str(e['v'])
    if k == 'Null': return 'NULL'
    if k == 'This': return 'this'
    if k == 'Str': return '"s"'
    if k == 'Member':
        b = canon(e['base'], env)
        return e['field'] if b == 'this' else b + '.' + e['field']
    if k == 'Call':
        c = (e.get('callee') or 'indirect').split('::')[-1]
        parts = []
        if e.get('recv') is not None: parts.append(canon(e['recv'], env))
        parts += [canon(a, env) for a in e.get('args', [])]
        return c + '(' + ','.join(parts) + ')'
    if k == 'Un': return e['op'] + canon(e['e'], env)
    if k in ('Bin', 'Assign'): return '(' + canon(e['a'], env) + e['op'] + canon(e['b'], env) + ')'
    if k == 'Index': return canon(e['base'], env) + '[' + canon(e['idx'], env) + ']'
    if k == 'Cond': return '(' + canon(e['c'], env) + '?' + canon(e['t'], env) + ':' + canon(e['f'], env) + ')'
    if k == 'Sizeof': return 'sizeof:%s' % e.get('v')
    if k == 'Ctor': return 'Ctor(' + ','.join(canon(a, env) for a in e.get('args', [])) + ')'
    if k == 'New': return 'new ' + e.get('type', '')
    return k or '?'
class St:
    __slots__ = ('env', 'facts', 'aut')
    def __init__(s, env=None, facts=None, aut=None):
        s.env = dict(env or {}); s.facts = set(facts or ()); s.aut = dict(aut or {})
    def copy(s): return St(s.env, s.facts, s.aut)
    def akey(s): return tuple(sorted((k, str(v)) for k, v in s.aut.items()))
    def key(s): return (s.akey(), tuple(sorted((k, v) for k, v in s.env.items() if v is not None)), tuple(sorted(s.facts)))
def kill(st, name):
    st.env[name] = None
    st.facts = {f for f in st.facts if name not in ids(f[0])}
    for k, v in list(st.env.items()):
        if v is not None and k != name and name in ids(v): st.env[k] = None
class Interp:
    """subclass and override hooks: on_call(e, st), on_return(s, st), track(varname, valcanon)->bool, on_assign"""
    CAP = 48
    def __init__(self, fn): self.fn = fn
    def track(self, name, val, rhs): return '(' not in val or val.split('(')[0] in ('getBooleanValue', 'haveRead', 'haveWrite', 'getState', 'getUnsignedLongValue')
    def on_call(self, e, st): pass
    def on_return(self, s, st): pass
    def on_assign(self, lhs, rhs, st): pass
    def on_exit(self, st): pass
    # ---- expression effects
    def effects(self, e, st):
        if not isinstance(e, dict): return
        k = e.get('k')
        if k == 'Assign':
            self.effects(e['b'], st)
            if e['a'].get('k') not in ('Var',): self.effects(e['a'], st)
            self.assign(e['a'], e['b'], st, e['op']); return
        if k == 'Bin' and e['op'] in ('&&', '||'):
            # short circuit inside expression statement: effects of rhs only on matching path -> caller handles via evalc when assigned
            self.effects(e['a'], st); self.effects(e['b'], st); return
        for key, v in e.items():
            if isinstance(v, dict): self.effects(v, st)
            elif isinstance(v, list):
                for x in v: self.effects(x, st)
        if k == 'Call':
            for a in e.get('args', []):
                if a is not None and a.get('k') == 'Un' and a['op'] == '&' and a['e'].get('k') == 'Var': kill(st, a['e']['name'])
            self.on_call(e, st)
        if k == 'Un' and e['op'] in ('++', '--') and e['e'].get('k') == 'Var': kill(st, e['e']['name'])
    def assign(self, lhs, rhs, st, op='='):
        if lhs.get('k') == 'Var' and lhs['kind'] in ('local', 'param'):
            n = lhs['name']
            val = canon(rhs, st.env) if (op == '=' and rhs is not None) else None
            kill(st, n)
            if val is not None and n not in ids(val) and self.track(n, val, rhs): st.env[n] = val
        self.on_assign(lhs, rhs, st)
    # ---- conditions
    def evalc(self, e, st):
        k = e.get('k')
        if k == 'Un' and e['op'] == '!':
            for s, t in self.evalc(e['e'], st): yield s, (not t)
            return
        if k == 'Bin' and e['op'] == '&&':
            for s, t in self.evalc(e['a'], st):
                if not t: yield s, False
                else: yield from self.evalc(e['b'], s)
            return
        if k == 'Bin' and e['op'] == '||':
            for s, t in self.evalc(e['a'], st):
                if t: yield s, True
                else: yield from self.evalc(e['b'], s)
            return
        if k == 'Assign':   # (x = f()) used as condition
            s2 = st.copy(); self.effects(e, s2)
            yield from self.atom(canon(e['a'], s2.env), s2); return
        if k == 'Bin' and e['op'] in ('==', '!='):
            s2 = st.copy(); self.effects(e['a'], s2); self.effects(e['b'], s2)
            a, b = canon(e['a'], s2.env), canon(e['b'], s2.env)
            neg = e['op'] == '!='
            if b in FALSEY and e['b'].get('k') in ('Lit', 'Null'): atom, flip = a, True
            elif b in ('CK_TRUE', 'true') : atom, flip = a, False
            elif a in ('true', 'false') or b in ('true','false'): atom, flip = a, (b=='false')
            else: atom, flip = 'EQ(' + a + ',' + b + ')', False
            CONST = r'^(CK[A-Z]_[A-Z_0-9]+|SESSION_OP_[A-Z]+|OBJECT_OP_[A-Z]+|\d+)$'
            if not flip and re.match(CONST, a) and re.match(CONST, b):
                r = (a == b); yield s2, ((not r) if neg else r); return
            if atom in ('true', 'false'):
                r = (atom == 'true'); r = (not r) if flip else r
                yield s2, ((not r) if neg else r); return
            for s, t in self.atom(atom, s2):
                r = (not t) if flip else t
                yield s, ((not r) if neg else r)
            return
        if k == 'Lit': yield st, bool(e['v']); return
        s2 = st.copy(); self.effects(e, s2)
        c = canon(e, s2.env)
        if c in ('true', 'false'): yield s2, c == 'true'; return
        yield from self.atom(c, s2)
    def atom(self, atom, st):
        m = re.match(r'^EQ\((.*),(CK[A-Z]_[A-Z_0-9]+|\d+)\)$', atom)
        if (atom, True) in st.facts: yield st, True; return
        if (atom, False) in st.facts: yield st, False; return
        if m:  # different constant already known equal?
            for a, t in st.facts:
                m2 = re.match(r'^EQ\((.*),(CK[A-Z]_[A-Z_0-9]+|\d+)\)$', a)
                if t and m2 and m2.group(1) == m.group(1) and m2.group(2) != m.group(2): yield st, False; return
        forced = self.on_atom(atom, st)
        if forced is not None: yield st, forced; return
        a = st.copy(); a.facts.add((atom, True)); self.on_fact(atom, True, a); yield a, True
        b = st.copy(); b.facts.add((atom, False)); self.on_fact(atom, False, b); yield b, False
    def on_atom(self, atom, st): return None
    def on_fact(self, atom, truth, st): pass
    # ---- statements
    def dedup(self, states):
        groups = collections.OrderedDict()
        for st in states: groups.setdefault(st.key(), st)
        out = list(groups.values())
        if len(out) <= self.CAP: return out
        # ESP merge: group by automaton state + tracked env; intersect facts
        g2 = collections.OrderedDict()
        for st in out:
            k = (st.akey(), tuple(sorted((k, v) for k, v in st.env.items() if v is not None and k in self.TRACK)))
            if k in g2:
                m = g2[k]; m.facts &= st.facts
                for kk in list(m.env):
                    if st.env.get(kk) != m.env[kk]: m.env[kk] = None
            else: g2[k] = st.copy()
        return list(g2.values())
    TRACK = {'rv', 'bOK'}
    def run(self, s, states):
        if s is None or not states: return states, [], []
        k = s['k']
        if k == 'Block':
            brk, cont = [], []
            for c in s['body']:
                states, b, c2 = self.run(c, states); brk += b; cont += c2
                states = self.dedup(states)
            return states, brk, cont
        if k == 'Decl':
            out = []
            for st in states:
                st = st.copy()
                for dcl in s['decls']:
                    if dcl.get('init') is not None:
                        init = dcl['init']
                        if init.get('k') == 'Bin' and init['op'] in ('&&', '||'):
                            for ns, t in self.evalc(init, st):
                                ns = ns.copy(); kill(ns, dcl['var']['name']); ns.env[dcl['var']['name']] = 'true' if t else 'false'; out.append(ns)
                            st = None; break
                        self.effects(init, st); self.assign(dcl['var'], init, st)
                    else:
                        kill(st, dcl['var']['name'])
                if st is not None: out.append(st)
            return out, [], []
        if k == 'Expr':
            e = s['e']; out = []
            # bOK = bOK && f()   /  x = a || b
            if e.get('k') == 'Assign' and e['op'] == '=' and e['b'].get('k') == 'Bin' and e['b']['op'] in ('&&', '||') and e['a'].get('k') == 'Var':
                for st in states:
                    for ns, t in self.evalc(e['b'], st):
                        ns = ns.copy(); kill(ns, e['a']['name']); ns.env[e['a']['name']] = 'true' if t else 'false'; out.append(ns)
                return out, [], []
            if e.get('k') == 'Assign' and e['op'] == '=' and e['a'].get('k') == 'Var' and e['b'].get('k') == 'Call' and e['a']['name'] in self.TRACK and e['a']['name'] == 'bOK':
                for st in states:
                    st = st.copy(); self.effects(e['b'], st)
                    for ns, t in self.atom(canon(e['b'], st.env), st):
                        ns = ns.copy(); kill(ns, 'bOK'); ns.env['bOK'] = 'true' if t else 'false'; out.append(ns)
                return out, [], []
            for st in states:
                st = st.copy(); self.effects(e, st); out.append(st)
            return out, [], []
        if k == 'Return':
            for st in states:
                st = st.copy()
                if s.get('e') is not None: self.effects(s['e'], st)
                self.on_return(s, st)
            return [], [], []
        if k == 'If':
            T, F = [], []
            for st in states:
                for ns, t in self.evalc(s['c'], st): (T if t else F).append(ns)
            t_out, b1, c1 = self.run(s['t'], self.dedup(T))
            if s.get('e'): f_out, b2, c2 = self.run(s['e'], self.dedup(F))
            else: f_out, b2, c2 = F, [], []
            return self.dedup(t_out + f_out), b1 + b2, c1 + c2
        if k in ('For', 'While', 'Do'):
            if k == 'For' and s.get('init'): states, _, _ = self.run(s['init'], states)
            exits, cur = [], states
            for it in range(3):
                T, F = [], []
                if s.get('c') is not None and not (k == 'Do' and it == 0):
                    for st in cur:
                        for ns, t in self.evalc(s['c'], st): (T if t else F).append(ns)
                else: T = cur
                exits += F
                body_out, brk, cont = self.run(s['body'], self.dedup(T))
                exits += brk; nxt = body_out + cont
                if k == 'For' and s.get('inc') is not None:
                    for st in nxt: self.effects(s['inc'], st)
                cur = self.dedup(nxt)
                if not cur: break
            for st in cur:
                if s.get('c') is not None:
                    for ns, t in self.evalc(s['c'], st):
                        if not t: exits.append(ns)
                else: exits.append(st)
            return self.dedup(exits), [], []
        if k == 'Switch':
            body = s['body']['body'] if s['body'] and s['body']['k'] == 'Block' else [s['body']]
            segs = []
            for c in body:
                labels = []
                while c is not None and c['k'] in ('Case', 'Default'):
                    labels.append(canon(c['v']) if c['k'] == 'Case' else 'default'); c = c['sub']
                if labels: segs.append([labels, [c] if c else []])
                elif segs: segs[-1][1].append(c)
            out, carry, cont_all = [], [], []
            has_default = any('default' in l for l, _ in segs)
            alllabels = [l for ls, _ in segs for l in ls if l != 'default']
            pre = []
            for st in states:
                st = st.copy(); self.effects(s['c'], st); pre.append(st)
            for labels, stmts in segs:
                entry = list(carry)
                for st in pre:
                    cc = canon(s['c'], st.env)
                    for lab in labels:
                        ns = st.copy()
                        if lab != 'default': 
                            if any(t and a.startswith('EQ(%s,' % cc) and a != 'EQ(%s,%s)' % (cc, lab) for a, t in ns.facts): continue
                            ns.facts.add(('EQ(%s,%s)' % (cc, lab), True))
                        else:
                            if any(t and a.startswith('EQ(%s,' % cc) and a[len('EQ(%s,' % cc):-1] in alllabels for a, t in ns.facts): continue
                        entry.append(ns)
                ft, brk, cont = self.run({'k': 'Block', 'body': stmts}, self.dedup(entry))
                out += brk; cont_all += cont; carry = ft
            out += carry
            if not has_default: out += pre
            return self.dedup(out), [], cont_all
        if k == 'Break': return [], states, []
        if k == 'Continue': return [], [], states
        if k == 'Try': return self.run(s['body'], states)
        return states, [], []
    def go(self):
        out, _, _ = self.run(self.fn['body'], [St()])
        for st in out: self.on_exit(st)
def load(paths):
    fns = {}
    for p in paths:
        d = json.load(open(p))
        for f in d['functions']: fns.setdefault((f['qname'], f['file'], f['line']), f)
    return list(fns.values())
