import sys, re, collections
from pi import *
fns = [f for f in load(['softhsm.json']) if f['file'].endswith('SoftHSM.cpp')]
HIST = ['CKA_LOCAL','CKA_KEY_GEN_MECHANISM','CKA_ALWAYS_SENSITIVE','CKA_NEVER_EXTRACTABLE']
reports = []; stats = collections.Counter(); summary = collections.defaultdict(collections.Counter)
class C08(Interp):
    TRACK = {'rv','bOK'}
    def track(self, name, val, rhs): return name in self.TRACK or Interp.track(self, name, val, rhs)
    def on_call(self, e, st):
        c = (e.get('callee') or '').split('::'); name = c[-1]; cls = c[-2] if len(c) > 1 else ''
        if name == 'startTransaction' and cls == 'OSObject':
            st.aut = {k: v for k, v in st.aut.items() if not k.startswith('w:')}; st.aut['tx'] = e['l']
        if name == 'setAttribute' and cls == 'OSObject' and st.aut.get('tx'):
            t = canon(e['args'][0])
            if t in HIST:
                v = e['args'][1]
                while v.get('k') == 'Ctor' and len(v.get('args', [])) == 1: v = v['args'][0]
                st.aut['w:' + t] = st.aut.get('w:' + t, ()) + (canon(v),)
        if name == 'commitTransaction' and cls == 'OSObject' and st.aut.get('tx'):
            q = self.fn['qname'].split('::')[-1]
            row = tuple((h, st.aut.get('w:' + h, ())) for h in HIST)
            summary[(q, st.aut['tx'])][row] += 1
            st.aut.pop('tx', None)
for f in fns:
    if f.get('body') is None: continue
    C08(f).go()
for (q, l), rows in sorted(summary.items(), key=lambda x: x[0][1]):
    for row, n in rows.items():
        bad = [h for h, w in row if len(w) > 1] 
        print('%-22s tx@%-6d %s %s' % (q, l, ' '.join('%s=%s' % (h.replace('CKA_', ''), '|'.join(w) if w else '-') for h, w in row), ' <== DOUBLE WRITE ' + str(bad) if bad else ''))
