import sys, re, collections
from pi import *
fns = [f for f in load(['softhsm.json']) if f['file'].endswith('SoftHSM.cpp')]
reports = []; stats = collections.Counter()
def H(s): return s.lstrip('*')
class C09(Interp):
    TRACK = {'rv','bOK'}
    def track(self, name, val, rhs): return name in self.TRACK or Interp.track(self, name, val, rhs)
    def on_call(self, e, st):
        c = (e.get('callee') or '').split('::'); name = c[-1]; cls = c[-2] if len(c) > 1 else ''
        if name == 'CreateObject' and cls == 'SoftHSM':
            st.aut['c:' + H(canon(e['args'][3]))] = canon(e, st.env); stats['CreateObject calls'] += 1
        elif name == 'destroyObject' and cls == 'HandleManager':
            st.aut['hd:' + H(canon(e['args'][0]))] = True
        elif name == 'destroyObject' and cls == 'OSObject' and e.get('recv', {}).get('k') == 'Var':
            v = e['recv']['name']
            if 'objof:' + v in st.aut: st.aut['od:' + st.aut['objof:' + v]] = True
            if st.aut.get('o:' + v) == 'created': st.aut['o:' + v] = 'destroyed'
        elif name in ('addTokenObject', 'addSessionObject') and cls == 'HandleManager':
            a = e['args'][-1]
            if a.get('k') == 'Var' and st.aut.get('o:' + a['name']) == 'created': st.aut['o:' + a['name']] = 'registered'
    def on_fact(self, atom, truth, st):
        for k, v in list(st.aut.items()):
            if k.startswith('c:') and atom == 'EQ(%s,CKR_OK)' % v: st.aut['s:' + k[2:]] = 'created' if truth else 'notcreated'
    def on_atom(self, atom, st):
        # handle out-parameter as creation witness:  *ph != CK_INVALID_HANDLE
        h = H(atom)
        if atom.startswith('*') and 's:' + h in st.aut: return st.aut['s:' + h] == 'created'
        if atom.startswith('*') and ('c:' + h) not in st.aut: return False   # *ph = CK_INVALID_HANDLE at entry, CreateObject not reached
        if 'objof:' + atom in st.aut and st.aut.get('s:' + st.aut['objof:' + atom]) == 'created': return True   # if (obj) obj->destroyObject()
        return None
    def on_assign(self, lhs, rhs, st):
        if lhs.get('k') != 'Var' or rhs is None: return
        if rhs.get('k') == 'Call':
            c = (rhs.get('callee') or '')
            if c == 'HandleManager::getObject': st.aut['objof:' + lhs['name']] = H(canon(rhs['args'][0]))
            if c in ('Token::createObject', 'SessionObjectStore::createObject'):
                st.aut['o:' + lhs['name']] = 'created'; stats['direct creations'] += 1
    def on_return(self, s, st):
        rv = canon(s.get('e'), st.env) if s.get('e') else 'void'
        q = self.fn['qname'].split('::')[-1]; stats['returns'] += 1
        for k, v in list(st.aut.items()):
            if k.startswith('c:'):
                h = k[2:]; callc = v
                created = st.aut.get('s:' + h) == 'created'
                maybe = st.aut.get('s:' + h) is None
                ok = rv == 'CKR_OK' or (rv == callc and created)
                if created: stats['paths with created handle-object'] += 1
                if (created or (maybe and rv != callc)) and not ok and not (st.aut.get('hd:' + h) and st.aut.get('od:' + h)):
                    reports.append(('R1 handle-object leaked on error exit', q, s['l'], rv, h, 'created' if created else 'maybe-created'))
            if k.startswith('o:') and v == 'created':
                var = k[2:]
                if (var, False) in st.facts: continue   # NULL on this path
                if rv != 'CKR_OK':
                    reports.append(('R1 object leaked on error exit', q, s['l'], rv, var, ''))
for f in fns:
    if f.get('body') is None: continue
    C09(f).go(); stats['functions'] += 1
print(dict(stats))
agg = collections.OrderedDict()
for r in reports: agg.setdefault(r, 0); agg[r] += 1
for r, n in agg.items(): print(r, 'x%d' % n)
