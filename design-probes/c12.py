import sys, re, collections
from pi import *
fns = [f for f in load(['softhsm.json']) if f['file'].endswith('SoftHSM.cpp')]
ADV = {'encryptUpdate','decryptUpdate','signUpdate','verifyUpdate','hashUpdate'}
FIN = {'encryptFinal','decryptFinal','signFinal','verifyFinal','hashFinal','sign','verify','encrypt','decrypt'}
OUTPTR = {'pEncryptedData','pData','pDigest','pSignature','pDecryptedData','pEncryptedPart','pPart'}
reports = []; stats = collections.Counter()
class C12(Interp):
    TRACK = {'rv','bOK'}
    def on_call(self, e, st):
        c = (e.get('callee') or '').split('::')
        name = c[-1]; cls = c[-2] if len(c) > 1 else ''
        if name == 'setOpType' and cls == 'Session':
            if canon(e['args'][0]) != 'SESSION_OP_NONE': st.aut['op'] = 'set'; st.aut['setline'] = e['l']
        elif name == 'resetOp' and cls == 'Session': st.aut['reset'] = True
        elif cls in ('SymmetricAlgorithm','AsymmetricAlgorithm','MacAlgorithm','HashAlgorithm') and self.inop:
            if name in ADV: st.aut['adv'] = e['l']
            if name in FIN: st.aut['fin'] = e['l']
    def on_return(self, s, st):
        rv = canon(s.get('e'), st.env) if s.get('e') else 'void'
        a = st.aut; q = self.fn['qname'].split('::')[-1]
        stats['returns'] += 1
        if a.get('op') == 'set' and rv != 'CKR_OK' and not a.get('reset'):
            reports.append(('R1a set-then-fail-without-reset', q, s['l'], rv, 'setOpType@%s' % a.get('setline')))
        if a.get('fin') and not a.get('reset'):
            reports.append(('R1c finalised-but-still-active', q, s['l'], rv, 'final@%s' % a['fin']))
        if a.get('adv') and not a.get('fin') and not a.get('reset'):
            # failed advancing call? look for fact (call,False) of an ADV callee
            if any((not t) and re.match(r'(%s)\(' % '|'.join(ADV), at) for at, t in st.facts):
                reports.append(('R1c failed-update-still-active', q, s['l'], rv, 'adv@%s' % a['adv']))
        soft = rv == 'CKR_BUFFER_TOO_SMALL' or (rv == 'CKR_OK' and any((at in OUTPTR or at.split('.')[-1] in OUTPTR) and not t for at, t in st.facts))
        if soft:
            stats['soft returns'] += 1
            if a.get('reset') or a.get('adv') or a.get('fin'):
                reports.append(('R1d soft-return-disturbs-op', q, s['l'], rv, str({k: v for k, v in a.items()})))
for f in fns:
    q = f['qname'].split('::')[-1]
    if f.get('body') is None: continue
    it = C12(f); it.inop = True
    it.go(); stats['functions'] += 1
print(dict(stats))
agg = collections.OrderedDict()
for r in reports: agg.setdefault(r, 0); agg[r] += 1
for r, n in agg.items(): print(r, 'x%d' % n)
