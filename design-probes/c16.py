import sys, re, collections
from pi import *
fns = [f for f in load(['/tmp/probe/x/out/ObjectFile.cpp.json','/tmp/probe/x/out/Generation.cpp.json']) if f['qname'] in ('ObjectFile::refresh','ObjectFile::store','ObjectFile::writeAttributes','Generation::wasUpdated','Generation::commit','Generation::sync')]
reports=[]; stats=collections.Counter()
IO=re.compile(r'^(read\w+|write\w+|truncate|seek|isEmpty)$')
class R(Interp):
    TRACK={'rv','bOK'}
    def track(self,n,v,r): return True
    def on_call(self,e,st):
        c=(e.get('callee') or '').split('::'); name=c[-1]; cls=c[-2] if len(c)>1 else ''
        if cls=='File' and e.get('recv',{}).get('k')=='Var':
            v=e['recv']['name']
            if name=='lock': st.aut['lk:'+v]='locked'
            elif name=='unlock': st.aut['lk:'+v]='unlocked'
            elif IO.match(name):
                stats['file I/O calls']+=1
                if st.aut.get('lk:'+v)!='locked': reports.append(('C15.R3 I/O outside lock',self.fn['qname'],e['l'],name,v,st.aut.get('lk:'+v)))
    def on_assign(self,lhs,rhs,st):
        if canon(lhs)=='valid': st.aut['valid']=canon(rhs)
    def on_return(self,s,st):
        if self.fn['qname']!='ObjectFile::refresh': return
        stats['refresh returns']+=1
        failed=[a for a,t in st.facts if (not t) and re.match(r'read\w+\(objectFile',a)]
        eof=[a for a,t in st.facts if t and a.startswith('isEOF(objectFile')]
        if failed and st.aut.get('valid')!='false':
            reports.append(('C16.R1 failed read but not invalidated',self.fn['qname'],s['l'],failed[0][:50],'eof-idiom' if eof else 'NO eof', st.aut.get('valid')))
    def on_exit(self,st):
        if self.fn['qname']=='ObjectFile::refresh':
            stats['refresh fallthrough exits']+=1
            failed=[a for a,t in st.facts if (not t) and re.match(r'read\w+\(objectFile',a)]
            eof=[a for a,t in st.facts if t and a.startswith('isEOF(objectFile')]
            if failed: reports.append(('C16.R1 accepted after failed read',self.fn['qname'],'end',failed[0][:50],'eof-idiom' if eof else 'NO eof', st.aut.get('valid')))
for f in fns: R(f).go()
print(dict(stats))
agg=collections.OrderedDict()
for r in reports: agg.setdefault(r,0); agg[r]+=1
for r,n in agg.items(): print(r,'x%d'%n)
