#!/bin/bash
# usage: tools/import_seed.sh <worktree prefix, e.g. /tmp/wtb> <property id> <offset> [count]  — copy <prefix>-<id>/_seed/{1..count} to seeded/<id>-(N+offset), list which checks report them
set -u
pre=$1; id=$2; off=${3:-2}; cnt=${4:-2}
for n in $(seq 1 $cnt); do
  src=$pre-$id/_seed/$n
  [ -f $src/patch.diff ] || { echo "$id/$n: no patch.diff"; continue; }
  dst=/verif/seeded/$id-$((n+off))
  rm -rf $dst; mkdir -p $dst
  cp $src/patch.diff $src/meta.json $src/run.sh $dst/ 2>/dev/null
  cp $src/demo.* $src/*.c $src/*.cpp $src/*.h $src/*.sh $src/*.py $dst/ 2>/dev/null
  [ -d $pre-$id/_seed/common ] && cp -r $pre-$id/_seed/common $dst/common 2>/dev/null
  sed -i "s|$pre-$id|\${SOFTHSM_SRC:-/repo}|g" $dst/run.sh
  echo "== $id-$((n+off)): $(python3 -c "import json;print(json.load(open('$dst/meta.json'))['summary'][:300])" 2>/dev/null)"
  (cd /verif && ./verif seed seeded/$id-$((n+off)) $id 2>&1 | tail -1)
done
