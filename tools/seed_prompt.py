#!/usr/bin/env python3
"""Print the prompt given to an independent sub-agent that seeds a property-breaking change (nothing from /verif is revealed)."""
import json, sys
pid = sys.argv[1]
wt = '/tmp/' + (sys.argv[2] if len(sys.argv) > 2 else 'wt') + '-' + pid
for l in open('/verif/properties.jsonl'):
    p = json.loads(l)
    if p['id'] == pid:
        break
print(f"""You are working in a scratch git worktree of the open-source project opendnssec/SoftHSMv2 (a software PKCS#11 token) at {wt} (already created). Work ONLY inside {wt} (you may also create files under {wt}/_seed/). Never touch /repo or /verif, and do not read anything under /verif. There is no network.

GOAL: produce TWO different, realistic code changes to SoftHSMv2's library sources (under {wt}/src/lib) each of which BREAKS the semantic property below, while the code still compiles and the project's ENTIRE existing test-suite still passes. For each change also write a demonstration (a small C or C++ program driving the PKCS#11 API of the built library via dlopen/C_GetFunctionList, or a small unit-test-like program linked against the built objects) that FAILS (non-zero exit, printing what went wrong) with the change applied and PASSES (exit 0) on the unmodified tree.

THE PROPERTY ({p['id']}: {p['title']})
{p['statement']}
Scope of the quantifier: {p['quantifier']['text']}

WHAT KIND OF CHANGE: the kind of bug a developer could plausibly introduce in a refactor, a "small optimisation", a copy-paste, a merge gone wrong, or an off-by-one — NOT a change that ordinary use or the existing tests would expose at once. Each change should need something specific to manifest: a particular multi-step sequence of operations, an unusual input or attribute combination, one particular mechanism / key class / object kind out of many, a fault at a particular point, a particular interleaving, or two cooperating sites that each look fine alone. Keep each change small (1-15 changed lines). The two changes must break the property through DIFFERENT mechanisms in the code (different functions / different clauses of the property). Do not change tests, build files or public headers' API. Do not add debug output.

HOW TO BUILD AND TEST (offline; 16 cores but shared with others, so use -j8):
  cmake -G Ninja -S {wt} -B {wt}/_build -DBUILD_TESTS=ON -DENABLE_ECC=ON -DENABLE_EDDSA=ON -DCMAKE_BUILD_TYPE=RelWithDebInfo > /dev/null
  cmake --build {wt}/_build -j8
  ctest --test-dir {wt}/_build -j8 --timeout 900        # full suite: takes ~5 minutes; ALL tests must pass with each change applied
NOTE: in this environment the suite takes only ~15 s, and on the UNMODIFIED tree 7 single-DES CppUnit cases (DESTests::testCBC/ECB/OFB/CFB, SymmetricAlgorithmTests::testDesEncryptDecrypt, DeriveTests::testSymDerive, ObjectTests::testCreateSecretKey) fail because OpenSSL's legacy provider is not active; "passes" therefore means: exactly the same result as the unmodified tree (no additional failing case). Compare the per-case output of the test binaries, not only ctest's summary.
The built library is {wt}/_build/src/lib/libsofthsm2.so. A demo program needs a config file: create a temp dir, write a softhsm2.conf with "directories.tokendir = <tempdir>/tokens", "objectstore.backend = file", "log.level = ERROR", "slots.removable = false" and export SOFTHSM2_CONF=<that file> before the library is loaded (C_Initialize). PKCS#11 headers are in {wt}/src/lib/pkcs11 (include cryptoki.h or pkcs11.h; define the CK_* platform macros as src/lib/pkcs11/cryptoki.h does). Build the baseline first, verify the demo passes on the baseline, then apply change 1, rebuild, run demo (must fail) and the full ctest (must pass); then revert (git checkout -- src), and repeat for change 2.

DELIVERABLES, for N in 1,2, under {wt}/_seed/N/ :
  patch.diff   — output of `git -C {wt} diff -- src` with only that change applied (must apply cleanly to the worktree's commit with `git apply`)
  demo.c or demo.cpp, and run.sh — run.sh takes the path of the built library directory (e.g. {wt}/_build) as $1, compiles the demo into a temp dir, sets up a fresh token directory + SOFTHSM2_CONF, runs the demo and exits with the demo's status (0 = property held, non-zero = property broken); run.sh must take the source tree (for include paths) from the environment variable SOFTHSM_SRC, defaulting to {wt}, and must not depend on its own location
  meta.json    — {{"property": "{p['id']}", "summary": "<one sentence: what the change does>", "needs_to_manifest": "<what specific sequence/input/state exposes it>", "files_changed": [...], "ctest_result_with_change": "<e.g. 100% tests passed, N tests>", "demo_on_baseline": "exit 0", "demo_with_change": "exit <n>: <message>"}}
Leave the worktree's src/ reverted to the committed state at the end (git checkout -- src) but keep _seed/. You may delete {wt}/_build at the very end to save disk.

Your final answer: for each change, the summary, what it needs to manifest, and the exact results you observed (ctest pass count with the change; demo exit codes with and without). Be honest: if a change did not survive the test-suite or the demo could not be made to discriminate, say so and do not deliver it.""")
