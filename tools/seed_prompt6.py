#!/usr/bin/env python3
"""Round-6 prompt: as tools/seed_prompt.py, but THREE changes and a list of the functions earlier rounds already used (taken from the hunk headers
of the stored patches - information the earlier agents produced themselves, nothing about the checks)."""
import glob, json, re, subprocess, sys
pid, pre = sys.argv[1], (sys.argv[2] if len(sys.argv) > 2 else 'wtf')
base = subprocess.check_output([sys.executable, '/verif/tools/seed_prompt.py', pid, pre], text=True)
used = set()
for p in glob.glob('/verif/seeded/%s-*/patch.diff' % pid):
    for m in re.finditer(r'^@@[^@]*@@ ?(.*)$', open(p).read(), re.M):
        h = m.group(1).strip()
        m2 = re.search(r'([A-Za-z_0-9:~]+)\s*\(', h)
        if m2:
            used.add(m2.group(1))
base = base.replace('produce TWO different', 'produce THREE different').replace('for N in 1,2,', 'for N in 1,2,3,').replace('The two changes must break', 'The three changes must break').replace('and repeat for change 2.', 'and repeat for changes 2 and 3.')
hint = ("\nVARIETY: earlier contributors already delivered changes in these functions - choose OTHER places and other mechanisms: " + ', '.join(sorted(used)) +
        ".\nPrefer slips of the kinds: a wrong value / wrong object / wrong branch on ONE path out of several siblings; state that survives from an earlier call; a boundary case of a length, index or counter; "
        "an error path that half-completes; a rarely used mechanism, key type, attribute type or object class; the interplay of two API calls (e.g. copy then modify, login in one session then use in another, "
        "create, finalize, re-initialise and read back). Changes in the crypto back end (src/lib/crypto/OSSL*.cpp), the object store (src/lib/object_store), the session/slot/handle managers and P11Attributes/P11Objects are as welcome as changes in SoftHSM.cpp.\n")
print(base.replace('\nHOW TO BUILD AND TEST', hint + '\nHOW TO BUILD AND TEST'))
