#!/usr/bin/env python3
"""Regenerate /verif/MANIFEST.json from the rule modules present under rules/ (one check per module)."""
import json, os, sys, importlib
VERIF = os.path.dirname(os.path.dirname(os.path.abspath(__file__)))
sys.path.insert(0, VERIF)

NOT_APPLICABLE = {
    # property id -> reason; only used for properties without a rules module
}
PENDING = 'no static check has been built for this property yet; it is not claimed'

props = [json.loads(l)['id'] for l in open(os.path.join(VERIF, 'properties.jsonl'))]
checks, na = [], []
for pid in props:
    path = os.path.join(VERIF, 'rules', pid.lower() + '.py')
    if not os.path.exists(path):
        na.append(dict(property_id=pid, reason=NOT_APPLICABLE.get(pid, PENDING)))
        continue
    m = importlib.import_module('rules.' + pid.lower())
    checks.append(dict(
        property_id=pid,
        quick_cmd='./verif check %s --tier quick' % pid,
        thorough_cmd='./verif check %s --tier thorough' % pid,
        evidence_file='evidence/%s.json' % pid,
        replay_cmd_template='./verif replay {path}',
        engine='shsm-static',
        level_claimed=dict(category='other', text=m.LEVEL_TEXT, design_ref='DESIGN.md Part I §I.2 row %s (what is claimed) and Part II §3 %s (reasoning)' % (pid, pid)),
        level_note=m.LEVEL_NOTE,
        technique=m.TECHNIQUE,
    ))
man = dict(
    version=1,
    setup_cmd='./verif setup',
    hooks=dict(guard='SOFTHSM_VERIF', enable='none: the checks read /repo\'s sources as they are; no hook is compiled in',
               baseline_off_cmd='cmake -G Ninja -S /repo -B /repo/_build -DBUILD_TESTS=ON -DENABLE_ECC=ON -DENABLE_EDDSA=ON && cmake --build /repo/_build -j16 && ctest --test-dir /repo/_build -j8 --timeout 900',
               source_commits=[], add_only=True),
    engines=[dict(name='shsm-static', path='verif', serves_properties=[c['property_id'] for c in checks],
                  kind_free_text='custom static analysis: libTooling fact extractor (tools/shsm-facts.cc) over the cmake compilation database + '
                                 'Python engines (engine/): table extraction and finite-domain evaluation, path-sensitive guarded-effect and '
                                 'typestate analysis, lock/ownership/call-graph rules; rule instances per property in rules/')],
    checks=checks,
    notes='Static analysis only: every verdict is computed from /repo\'s current working tree (cmake configure + clang parse, no SoftHSM code is executed). '
          'Exit 2 + ANALYSIS-BROKEN means the analysis could not run or an anchor vanished; it is never a verdict. Known findings: known_findings.json.',
    not_applicable=na,
)
json.dump(man, open(os.path.join(VERIF, 'MANIFEST.json'), 'w'), indent=1)
print('checks:', [c['property_id'] for c in checks], 'not claimed:', [n['property_id'] for n in na])
