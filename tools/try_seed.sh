#!/bin/bash
# usage: tools/try_seed.sh <seed dir> <property id>...   — apply a seeded change to /repo, run the checks, undo it
set -u
seed=$1; shift
cd /verif
git -C /repo diff --quiet || { echo "/repo has uncommitted changes"; exit 3; }
git -C /repo apply "$(realpath $seed/patch.diff)" 2>/dev/null || git -C /repo apply -C1 "$(realpath $seed/patch.diff)" || { echo "patch does not apply"; exit 3; }
for id in "$@"; do
  ./verif check "$id" 2>&1 | grep -E "VIOLATION|^  at|^  [a-z]|BROKEN|exit [0-9]" | head -${LINES_MAX:-12}
done
git -C /repo checkout -- .
git -C /repo status --short | grep -v _build
