// shsm-facts: libTooling fact extractor for the SoftHSMv2 static checks (DESIGN.md §2.1/§2.7).
// For every function body defined in a file under the source root (default /repo/src) it emits a
// normalised, type-resolved statement/expression tree as JSON, plus class, enum and global tables.
// One JSON document per translation unit is written to the file given with -o.
//
// build: clang++ $(llvm-config-14 --cxxflags) -fno-rtti shsm-facts.cc -o shsm-facts \
//          /usr/lib/llvm-14/lib/libclang-cpp.so.14 /usr/lib/llvm-14/lib/libLLVM-14.so
#include "clang/AST/ASTConsumer.h"
#include "clang/AST/RecursiveASTVisitor.h"
#include "clang/AST/ExprCXX.h"
#include "clang/AST/StmtCXX.h"
#include "clang/Frontend/CompilerInstance.h"
#include "clang/Frontend/FrontendAction.h"
#include "clang/Tooling/CommonOptionsParser.h"
#include "clang/Tooling/Tooling.h"
#include "clang/Lex/Lexer.h"
#include "llvm/Support/JSON.h"
#include "llvm/Support/raw_ostream.h"
#include <set>
using namespace clang;
using namespace clang::tooling;
using llvm::json::Array;
using llvm::json::Object;
using llvm::json::Value;

static llvm::cl::OptionCategory Cat("shsm-facts");
static llvm::cl::opt<std::string> OutFile("o", llvm::cl::desc("output file"), llvm::cl::cat(Cat), llvm::cl::init("-"));
static llvm::cl::opt<std::string> Root("root", llvm::cl::desc("source root prefix"), llvm::cl::cat(Cat), llvm::cl::init("/repo/src/"));
static llvm::cl::opt<std::string> Root2("root2", llvm::cl::desc("second source root prefix (scratch copies)"), llvm::cl::cat(Cat), llvm::cl::init(""));
static bool underRoot(llvm::StringRef f) { return f.startswith(Root) || (!Root2.empty() && f.startswith(Root2)); }

struct Ex {
  ASTContext &C;
  SourceManager &SM;
  PrintingPolicy PP;
  Ex(ASTContext &c) : C(c), SM(c.getSourceManager()), PP(c.getLangOpts()) { PP.SuppressTagKeyword = true; PP.Bool = true; }
  int line(SourceLocation L) { return SM.getExpansionLineNumber(L); }
  std::string fileOf(SourceLocation L) { return SM.getFilename(SM.getExpansionLoc(L)).str(); }
  std::string ty(QualType T) { return T.getAsString(PP); }

  // If the whole expression comes out of one object-like macro expansion, return that macro's name
  // (outermost macro, so CKA_PRIVATE, CK_INVALID_HANDLE, NULL_PTR, BOOLEAN_ATTR ... are recovered).
  std::string wholeMacro(const Expr *E) {
    SourceLocation B = E->getBeginLoc(), En = E->getEndLoc();
    if (!B.isMacroID() || !En.isMacroID()) return "";
    std::string name;
    SourceLocation b = B, e = En;
    // climb while both ends are at the start / end of a macro expansion
    while (b.isMacroID() && e.isMacroID()) {
      SourceLocation nb, ne;
      if (SM.isMacroArgExpansion(b) || SM.isMacroArgExpansion(e)) break;
      if (!Lexer::isAtStartOfMacroExpansion(b, SM, C.getLangOpts(), &nb)) break;
      if (!Lexer::isAtEndOfMacroExpansion(e, SM, C.getLangOpts(), &ne)) break;
      // both ends must belong to the same expansion
      if (SM.getImmediateExpansionRange(b).getBegin() != SM.getImmediateExpansionRange(e).getBegin()) break;
      name = Lexer::getImmediateMacroName(b, SM, C.getLangOpts()).str();
      b = nb; e = ne;
    }
    return name;
  }
  std::string tokenMacro(SourceLocation L) {
    if (!L.isMacroID()) return "";
    SourceLocation cur = L; std::string name;
    while (cur.isMacroID()) {
      if (SM.isMacroArgExpansion(cur)) { cur = SM.getImmediateSpellingLoc(cur); continue; }
      name = Lexer::getImmediateMacroName(cur, SM, C.getLangOpts()).str();
      cur = SM.getImmediateExpansionRange(cur).getBegin();
    }
    return name;
  }

  const Expr *strip(const Expr *E) {
    while (true) {
      E = E->IgnoreParenImpCasts();
      if (auto *X = dyn_cast<ExprWithCleanups>(E)) { E = X->getSubExpr(); continue; }
      if (auto *X = dyn_cast<MaterializeTemporaryExpr>(E)) { E = X->getSubExpr(); continue; }
      if (auto *X = dyn_cast<CXXBindTemporaryExpr>(E)) { E = X->getSubExpr(); continue; }
      if (auto *X = dyn_cast<ConstantExpr>(E)) { E = X->getSubExpr(); continue; }
      if (auto *X = dyn_cast<CXXDefaultArgExpr>(E)) { E = X->getExpr(); continue; }
      if (auto *X = dyn_cast<CXXDefaultInitExpr>(E)) { E = X->getExpr(); continue; }
      if (auto *X = dyn_cast<SubstNonTypeTemplateParmExpr>(E)) { E = X->getReplacement(); continue; }
      return E;
    }
  }
  std::string varId(const ValueDecl *D) {
    if (isa<ParmVarDecl>(D)) return D->getNameAsString() + "@p" + std::to_string(line(D->getLocation()));
    if (auto *V = dyn_cast<VarDecl>(D)) {
      if (V->isLocalVarDecl()) return D->getNameAsString() + "@" + std::to_string(line(D->getLocation()));
    }
    return D->getQualifiedNameAsString();
  }
  Value var(const ValueDecl *D) {
    Object o;
    const char *k = "global";
    if (isa<ParmVarDecl>(D)) k = "param";
    else if (auto *V = dyn_cast<VarDecl>(D)) { if (V->isLocalVarDecl()) k = "local"; }
    else if (isa<FieldDecl>(D)) k = "field";
    else if (isa<EnumConstantDecl>(D)) k = "enum";
    else if (isa<FunctionDecl>(D)) k = "func";
    o["k"] = "Var"; o["kind"] = k; o["name"] = D->getNameAsString(); o["id"] = varId(D);
    if (auto *EC = dyn_cast<EnumConstantDecl>(D)) { o["v"] = (int64_t)EC->getInitVal().getExtValue(); o["qname"] = EC->getQualifiedNameAsString(); }
    if (isa<FunctionDecl>(D)) o["qname"] = D->getQualifiedNameAsString();
    return o;
  }
  std::string sigOf(const FunctionDecl *FD) {
    std::string s;
    for (unsigned i = 0; i < FD->getNumParams(); i++) { if (i) s += ","; s += ty(FD->getParamDecl(i)->getType()); }
    return s;
  }
  std::string modesOf(const FunctionDecl *FD, unsigned nargs, unsigned skip = 0) {
    std::string s;
    for (unsigned i = 0; i < nargs; i++) {
      unsigned pi = i - skip;
      if (i < skip || pi >= FD->getNumParams()) { s += 'v'; continue; }
      QualType T = FD->getParamDecl(pi)->getType();
      if (T->isRValueReferenceType()) s += 'v';
      else if (T->isReferenceType()) s += T.getNonReferenceType().isConstQualified() ? 'c' : 'm';
      else if (T->isPointerType()) s += T->getPointeeType().isConstQualified() ? 'q' : 'p';
      else s += 'v';
    }
    return s;
  }
  void callCommon(Object &o, const FunctionDecl *FD, const CallExpr *X, unsigned skip = 0) {
    Array a;
    for (unsigned i = skip; i < X->getNumArgs(); i++) a.push_back(expr(X->getArg(i)));
    o["args"] = std::move(a);
    if (FD) {
      o["callee"] = FD->getQualifiedNameAsString();
      o["sig"] = sigOf(FD);
      o["pm"] = modesOf(FD, X->getNumArgs() - skip);
      o["rt"] = ty(FD->getReturnType());
      std::string f = fileOf(FD->getLocation());
      if (underRoot(f)) o["own"] = true;
    } else o["callee"] = "";
  }
  Value expr(const Expr *E0) {
    if (!E0) return nullptr;
    const Expr *E = strip(E0);
    Object o;
    o["l"] = line(E->getBeginLoc());
    // whole-macro constants first (try every parenthesised layer: CKO_VENDOR_DEFINED is "(1UL << 31)")
    if (E0->getBeginLoc().isMacroID() && !isa<CallExpr>(E) && !isa<CXXConstructExpr>(E)) {
      std::string m;
      for (const Expr *L = E0; L && m.empty();) {
        m = wholeMacro(L);
        if (L == E) break;
        const Expr *N = L->IgnoreImpCasts();
        if (N == L) { if (auto *PE = dyn_cast<ParenExpr>(L)) N = PE->getSubExpr(); else N = strip(L); }
        L = N;
      }
      if (!m.empty()) {
        Expr::EvalResult R;
        if (!E->isValueDependent() && E->EvaluateAsInt(R, C)) {
          o["k"] = "Lit"; o["v"] = (int64_t)R.Val.getInt().getExtValue(); o["m"] = m; return o;
        }
        if (isa<StringLiteral>(E)) { o["k"] = "Str"; o["m"] = m; o["s"] = cast<StringLiteral>(E)->getBytes().str(); return o; }
      }
    }
    if (auto *X = dyn_cast<IntegerLiteral>(E)) {
      o["k"] = "Lit"; o["v"] = (int64_t)X->getValue().getLimitedValue();
      auto m = tokenMacro(X->getBeginLoc()); if (!m.empty()) o["m"] = m; return o;
    }
    if (auto *X = dyn_cast<CXXBoolLiteralExpr>(E)) { o["k"] = "Lit"; o["v"] = X->getValue() ? 1 : 0; o["b"] = true; return o; }
    if (isa<GNUNullExpr>(E) || isa<CXXNullPtrLiteralExpr>(E)) { o["k"] = "Null"; return o; }
    if (auto *X = dyn_cast<StringLiteral>(E)) { o["k"] = "Str"; if (X->getCharByteWidth() == 1) o["s"] = X->getBytes().str(); return o; }
    if (isa<PredefinedExpr>(E)) { o["k"] = "Str"; return o; }
    if (auto *X = dyn_cast<CharacterLiteral>(E)) { o["k"] = "Lit"; o["v"] = (int64_t)X->getValue(); return o; }
    if (auto *X = dyn_cast<FloatingLiteral>(E)) { o["k"] = "Lit"; o["v"] = (int64_t)X->getValueAsApproximateDouble(); o["f"] = true; return o; }
    if (isa<CXXThisExpr>(E)) { o["k"] = "This"; return o; }
    if (isa<CXXScalarValueInitExpr>(E) || isa<ImplicitValueInitExpr>(E)) { o["k"] = "Lit"; o["v"] = 0; return o; }
    if (auto *X = dyn_cast<DeclRefExpr>(E)) { Value v = var(X->getDecl()); v.getAsObject()->insert({"l", line(E->getBeginLoc())}); return v; }
    if (auto *X = dyn_cast<MemberExpr>(E)) {
      if (isa<CXXMethodDecl>(X->getMemberDecl())) { o["k"] = "MethodRef"; o["name"] = X->getMemberDecl()->getQualifiedNameAsString(); o["base"] = expr(X->getBase()); return o; }
      o["k"] = "Member"; o["field"] = X->getMemberDecl()->getNameAsString();
      o["fq"] = X->getMemberDecl()->getQualifiedNameAsString();
      o["arrow"] = X->isArrow();
      o["base"] = expr(X->getBase()); return o;
    }
    if (auto *X = dyn_cast<CXXMemberCallExpr>(E)) {
      o["k"] = "Call"; auto *MD = X->getMethodDecl();
      callCommon(o, MD, X);
      o["virtual"] = MD && MD->isVirtual();
      o["recv"] = expr(X->getImplicitObjectArgument());
      if (MD && MD->isConst()) o["const"] = true;
      return o;
    }
    if (auto *X = dyn_cast<CXXOperatorCallExpr>(E)) {
      auto *FD = X->getDirectCallee();
      // trivial implicit copy assignment of a struct: normalise to Assign
      if (auto *MD = dyn_cast_or_null<CXXMethodDecl>(FD)) {
        if (MD->isCopyAssignmentOperator() && MD->isImplicit() && X->getNumArgs() == 2) {
          o["k"] = "Assign"; o["op"] = "="; o["a"] = expr(X->getArg(0)); o["b"] = expr(X->getArg(1)); return o;
        }
      }
      o["k"] = "Call"; o["opcall"] = true;
      if (auto *MD = dyn_cast_or_null<CXXMethodDecl>(FD)) {
        // member operator: arg0 is the receiver
        o["recv"] = expr(X->getArg(0));
        callCommon(o, FD, X, 1);
        if (MD->isConst()) o["const"] = true;
      } else callCommon(o, FD, X);
      return o;
    }
    if (auto *X = dyn_cast<CallExpr>(E)) {
      o["k"] = "Call"; auto *FD = X->getDirectCallee();
      callCommon(o, FD, X);
      if (!FD) o["fn"] = expr(X->getCallee());
      return o;
    }
    if (auto *X = dyn_cast<CXXConstructExpr>(E)) {
      if (X->getNumArgs() == 1 && X->getConstructor()->isCopyOrMoveConstructor()) return expr(X->getArg(0));
      o["k"] = "Ctor"; o["type"] = ty(X->getType()); o["sig"] = sigOf(X->getConstructor());
      o["pm"] = modesOf(X->getConstructor(), X->getNumArgs());
      Array a; for (auto *A : X->arguments()) a.push_back(expr(A)); o["args"] = std::move(a); return o;
    }
    if (auto *X = dyn_cast<CXXNewExpr>(E)) {
      o["k"] = "New"; o["type"] = ty(X->getAllocatedType());
      if (X->isArray()) { o["array"] = true; if (auto sz = X->getArraySize()) if (*sz) o["size"] = expr(*sz); }
      if (auto *CE = X->getConstructExpr()) { o["sig"] = sigOf(CE->getConstructor()); Array a; for (auto *A : CE->arguments()) a.push_back(expr(A)); o["args"] = std::move(a); }
      return o;
    }
    if (auto *X = dyn_cast<CXXDeleteExpr>(E)) { o["k"] = "Delete"; o["e"] = expr(X->getArgument()); return o; }
    if (auto *X = dyn_cast<UnaryOperator>(E)) {
      o["k"] = "Un"; o["op"] = UnaryOperator::getOpcodeStr(X->getOpcode()).str();
      if (X->isPostfix()) o["post"] = true;
      o["e"] = expr(X->getSubExpr()); return o;
    }
    if (auto *X = dyn_cast<BinaryOperator>(E)) {
      o["k"] = X->isAssignmentOp() ? "Assign" : "Bin"; o["op"] = X->getOpcodeStr().str();
      o["a"] = expr(X->getLHS()); o["b"] = expr(X->getRHS());
      if (X->getOpcode() == BO_Sub || X->getOpcode() == BO_SubAssign) { o["uns"] = X->getType()->isUnsignedIntegerType(); }
      return o;
    }
    if (auto *X = dyn_cast<ConditionalOperator>(E)) { o["k"] = "Cond"; o["c"] = expr(X->getCond()); o["t"] = expr(X->getTrueExpr()); o["f"] = expr(X->getFalseExpr()); return o; }
    if (auto *X = dyn_cast<ArraySubscriptExpr>(E)) {
      o["k"] = "Index"; o["base"] = expr(X->getBase()); o["idx"] = expr(X->getIdx());
      QualType BT = X->getBase()->IgnoreParenImpCasts()->getType();
      if (auto *CAT = C.getAsConstantArrayType(BT)) o["extent"] = (int64_t)CAT->getSize().getLimitedValue();
      return o;
    }
    if (auto *X = dyn_cast<ExplicitCastExpr>(E)) {
      Value v = expr(X->getSubExpr());
      if (auto *ob = v.getAsObject()) { if (!ob->get("cast")) ob->insert({"cast", ty(X->getTypeAsWritten())}); }
      return v;
    }
    if (auto *X = dyn_cast<UnaryExprOrTypeTraitExpr>(E)) {
      o["k"] = "Sizeof"; Expr::EvalResult R;
      if (!X->isValueDependent() && X->EvaluateAsInt(R, C)) o["v"] = (int64_t)R.Val.getInt().getExtValue();
      if (!X->isArgumentType()) o["of"] = expr(X->getArgumentExpr());
      return o;
    }
    if (auto *X = dyn_cast<InitListExpr>(E)) { o["k"] = "Init"; Array a; for (auto *A : X->inits()) a.push_back(expr(A)); o["args"] = std::move(a); return o; }
    if (auto *X = dyn_cast<CXXThrowExpr>(E)) { o["k"] = "Throw"; if (X->getSubExpr()) o["e"] = expr(X->getSubExpr()); return o; }
    if (auto *X = dyn_cast<CXXStdInitializerListExpr>(E)) { return expr(X->getSubExpr()); }
    if (auto *X = dyn_cast<CXXTypeidExpr>(E)) { (void)X; o["k"] = "Typeid"; return o; }
    if (auto *X = dyn_cast<StmtExpr>(E)) { (void)X; o["k"] = "Other"; o["cls"] = "StmtExpr"; return o; }
    o["k"] = "Other"; o["cls"] = E->getStmtClassName();
    return o;
  }
  Value stmt(const Stmt *S) {
    if (!S) return nullptr;
    Object o;
    o["l"] = line(S->getBeginLoc());
    if (auto *X = dyn_cast<CompoundStmt>(S)) {
      o["k"] = "Block"; Array a;
      for (auto *c : X->body()) if (!isa<NullStmt>(c)) a.push_back(stmt(c));
      o["body"] = std::move(a); o["el"] = line(X->getRBracLoc()); return o;
    }
    if (auto *X = dyn_cast<IfStmt>(S)) {
      o["k"] = "If";
      if (X->getInit() || X->getConditionVariable()) { o["k"] = "OtherStmt"; o["cls"] = "IfWithInit"; return o; }
      o["c"] = expr(X->getCond()); o["t"] = stmt(X->getThen()); if (X->getElse()) o["e"] = stmt(X->getElse()); return o;
    }
    if (auto *X = dyn_cast<ReturnStmt>(S)) { o["k"] = "Return"; if (X->getRetValue()) o["e"] = expr(X->getRetValue()); return o; }
    if (auto *X = dyn_cast<DeclStmt>(S)) {
      o["k"] = "Decl"; Array a;
      for (auto *D : X->decls())
        if (auto *V = dyn_cast<VarDecl>(D)) {
          Object d; d["var"] = var(V); d["type"] = ty(V->getType());
          if (auto *CAT = C.getAsConstantArrayType(V->getType())) d["extent"] = (int64_t)CAT->getSize().getLimitedValue();
          if (V->isStaticLocal()) d["static"] = true;
          if (V->hasInit()) d["init"] = expr(V->getInit());
          a.push_back(std::move(d));
        }
      o["decls"] = std::move(a); return o;
    }
    if (auto *X = dyn_cast<ForStmt>(S)) { o["k"] = "For"; o["init"] = stmt(X->getInit()); o["c"] = expr(X->getCond()); o["inc"] = expr(X->getInc()); o["body"] = stmt(X->getBody()); return o; }
    if (auto *X = dyn_cast<WhileStmt>(S)) { o["k"] = "While"; o["c"] = expr(X->getCond()); o["body"] = stmt(X->getBody()); return o; }
    if (auto *X = dyn_cast<DoStmt>(S)) { o["k"] = "Do"; o["c"] = expr(X->getCond()); o["body"] = stmt(X->getBody()); return o; }
    if (auto *X = dyn_cast<SwitchStmt>(S)) { o["k"] = "Switch"; o["c"] = expr(X->getCond()); o["body"] = stmt(X->getBody()); return o; }
    if (auto *X = dyn_cast<CaseStmt>(S)) { o["k"] = "Case"; o["v"] = expr(X->getLHS()); o["sub"] = stmt(X->getSubStmt()); return o; }
    if (auto *X = dyn_cast<DefaultStmt>(S)) { o["k"] = "Default"; o["sub"] = stmt(X->getSubStmt()); return o; }
    if (isa<BreakStmt>(S)) { o["k"] = "Break"; return o; }
    if (isa<ContinueStmt>(S)) { o["k"] = "Continue"; return o; }
    if (isa<NullStmt>(S)) { o["k"] = "Block"; o["body"] = Array(); return o; }
    if (auto *X = dyn_cast<CXXTryStmt>(S)) {
      o["k"] = "Try"; o["body"] = stmt(X->getTryBlock()); Array a;
      for (unsigned i = 0; i < X->getNumHandlers(); i++) {
        Object h; auto *H = X->getHandler(i);
        h["type"] = H->getExceptionDecl() ? ty(H->getCaughtType()) : std::string("...");
        h["body"] = stmt(H->getHandlerBlock()); a.push_back(std::move(h));
      }
      o["handlers"] = std::move(a); return o;
    }
    if (auto *X = dyn_cast<Expr>(S)) { o["k"] = "Expr"; o["e"] = expr(X); return o; }
    o["k"] = "OtherStmt"; o["cls"] = S->getStmtClassName();
    return o;
  }
};

struct V : RecursiveASTVisitor<V> {
  ASTContext &C; Ex ex;
  Array fns, classes, enums, globals;
  std::set<std::string> seenClass, seenEnum;
  V(ASTContext &c) : C(c), ex(c) {}
  bool inRoot(SourceLocation L) { return underRoot(ex.fileOf(L)); }
  bool shouldVisitImplicitCode() const { return false; }
  bool VisitFunctionDecl(FunctionDecl *FD) {
    if (!FD->doesThisDeclarationHaveABody()) return true;
    if (!inRoot(FD->getLocation())) return true;
    if (FD->isTemplated()) return true;
    Object o;
    o["qname"] = FD->getQualifiedNameAsString(); o["sig"] = ex.sigOf(FD);
    o["file"] = ex.fileOf(FD->getLocation()); o["line"] = ex.line(FD->getLocation());
    o["endline"] = ex.line(FD->getBody()->getEndLoc());
    o["ret"] = ex.ty(FD->getReturnType());
    o["extern_c"] = FD->isExternC();
    Array ps;
    for (auto *P : FD->parameters()) { Object p; p["var"] = ex.var(P); p["type"] = ex.ty(P->getType()); ps.push_back(std::move(p)); }
    o["params"] = std::move(ps);
    if (auto *MD = dyn_cast<CXXMethodDecl>(FD)) {
      o["class"] = MD->getParent()->getQualifiedNameAsString();
      o["virtual"] = MD->isVirtual(); o["static"] = MD->isStatic();
      o["mkind"] = isa<CXXConstructorDecl>(FD) ? "ctor" : isa<CXXDestructorDecl>(FD) ? "dtor" : "method";
    }
    o["body"] = ex.stmt(FD->getBody());
    if (auto *CD = dyn_cast<CXXConstructorDecl>(FD)) {
      Array is;
      for (auto *I : CD->inits())
        if (I->isWritten()) {
          Object i;
          if (I->getMember()) i["field"] = I->getMember()->getNameAsString();
          else if (I->getBaseClass()) i["base"] = ex.ty(QualType(I->getBaseClass(), 0));
          i["init"] = ex.expr(I->getInit()); is.push_back(std::move(i));
        }
      o["inits"] = std::move(is);
    }
    fns.push_back(std::move(o));
    return true;
  }
  bool VisitCXXRecordDecl(CXXRecordDecl *RD) {
    if (!RD->isThisDeclarationADefinition() || !inRoot(RD->getLocation()) || RD->isTemplated()) return true;
    std::string q = RD->getQualifiedNameAsString();
    if (!seenClass.insert(q).second) return true;
    Object o; o["qname"] = q; o["file"] = ex.fileOf(RD->getLocation()); o["line"] = ex.line(RD->getLocation());
    Array bs; for (auto &B : RD->bases()) bs.push_back(ex.ty(B.getType())); o["bases"] = std::move(bs);
    Array fs; for (auto *F : RD->fields()) { Object f; f["name"] = F->getNameAsString(); f["type"] = ex.ty(F->getType()); fs.push_back(std::move(f)); } o["fields"] = std::move(fs);
    Array ms;
    for (auto *M : RD->methods()) {
      if (M->isImplicit()) continue;
      Object m; m["qname"] = M->getQualifiedNameAsString(); m["name"] = M->getNameAsString(); m["sig"] = ex.sigOf(M);
      m["virtual"] = M->isVirtual(); m["pure"] = M->isPure(); m["const"] = M->isConst();
      Array ov; for (auto *O : M->overridden_methods()) ov.push_back(O->getQualifiedNameAsString()); m["overrides"] = std::move(ov);
      ms.push_back(std::move(m));
    }
    o["methods"] = std::move(ms);
    classes.push_back(std::move(o));
    return true;
  }
  bool VisitEnumDecl(EnumDecl *ED) {
    if (!ED->isThisDeclarationADefinition() || !inRoot(ED->getLocation())) return true;
    std::string q = ED->getQualifiedNameAsString();
    if (!seenEnum.insert(q + ":" + std::to_string(ex.line(ED->getLocation()))).second) return true;
    Object o; o["qname"] = q; o["file"] = ex.fileOf(ED->getLocation()); Array es;
    for (auto *E : ED->enumerators()) { Object e; e["name"] = E->getNameAsString(); e["qname"] = E->getQualifiedNameAsString(); e["v"] = (int64_t)E->getInitVal().getExtValue(); es.push_back(std::move(e)); }
    o["enumerators"] = std::move(es); enums.push_back(std::move(o));
    return true;
  }
  bool VisitVarDecl(VarDecl *VD) {
    if (isa<ParmVarDecl>(VD) || VD->isLocalVarDecl() || !inRoot(VD->getLocation())) return true;
    if (!VD->hasInit() || !VD->isThisDeclarationADefinition()) return true;
    if (VD->getDeclContext()->isDependentContext()) return true;
    Object o; o["qname"] = VD->getQualifiedNameAsString(); o["type"] = ex.ty(VD->getType()); o["file"] = ex.fileOf(VD->getLocation()); o["line"] = ex.line(VD->getLocation());
    o["init"] = ex.expr(VD->getInit()); globals.push_back(std::move(o));
    return true;
  }
};

struct Cons : ASTConsumer {
  std::string main;
  Cons(std::string m) : main(m) {}
  void HandleTranslationUnit(ASTContext &C) override {
    if (C.getDiagnostics().hasErrorOccurred()) { llvm::errs() << "shsm-facts: parse errors in " << main << "\n"; }
    V v(C); v.TraverseDecl(C.getTranslationUnitDecl());
    Object top; top["tu"] = main; top["errors"] = C.getDiagnostics().hasErrorOccurred();
    top["functions"] = std::move(v.fns); top["classes"] = std::move(v.classes);
    top["enums"] = std::move(v.enums); top["globals"] = std::move(v.globals);
    std::error_code EC;
    if (OutFile == "-") llvm::outs() << Value(std::move(top)) << "\n";
    else { llvm::raw_fd_ostream os(OutFile, EC); if (EC) { llvm::errs() << "cannot write " << OutFile << "\n"; return; } os << Value(std::move(top)) << "\n"; }
  }
};
struct Act : ASTFrontendAction {
  std::unique_ptr<ASTConsumer> CreateASTConsumer(CompilerInstance &, StringRef F) override { return std::make_unique<Cons>(F.str()); }
};
int main(int argc, const char **argv) {
  auto P = CommonOptionsParser::create(argc, argv, Cat);
  if (!P) { llvm::errs() << P.takeError(); return 2; }
  ClangTool T(P->getCompilations(), P->getSourcePathList());
  return T.run(newFrontendActionFactory<Act>().get());
}
