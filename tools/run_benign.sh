#!/bin/bash
# usage: tools/run_benign.sh <dir with patch.diff>...   — run all 20 checks on scratch copies with a behaviour-preserving patch applied; any "exit 1" is a false alarm
ALL="C01 C02 C03 C04 C05 C06 C07 C08 C09 C10 C11 C12 C13 C14 C15 C16 C17 C18 C19 C20"
for d in "$@"; do
  ( cd /verif && ./verif seed $d $ALL 2>&1 | grep -E "exit [12]|PATCH" | sed "s#^#$(basename $d): #" ) &
  while [ $(jobs -r | wc -l) -ge 4 ]; do sleep 2; done
done
wait
