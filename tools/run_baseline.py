#!/usr/bin/env python3
"""Build /repo (_build, incremental) and run the repository's test-suite; compare the per-case CppUnit results with the 195
stable-pass cases of /root/.vp/BASELINE.json.  Used after every fix: commit and for MANIFEST.hooks.baseline_off_cmd."""
import json, os, re, subprocess, sys, glob
import xml.etree.ElementTree as ET
B = sys.argv[1] if len(sys.argv) > 1 else '/repo/_build'
S = os.path.dirname(B) if B.endswith('_build') else '/repo'
subprocess.run(['cmake', '-G', 'Ninja', '-S', S, '-B', B, '-DBUILD_TESTS=ON', '-DENABLE_ECC=ON', '-DENABLE_EDDSA=ON', '-DCMAKE_BUILD_TYPE=RelWithDebInfo'], stdout=subprocess.DEVNULL, stderr=subprocess.DEVNULL, check=True)
r = subprocess.run(['cmake', '--build', B, '-j16'], stdout=subprocess.PIPE, stderr=subprocess.STDOUT, text=True)
if r.returncode != 0:
    print(r.stdout[-3000:]); sys.exit(2)
for x in glob.glob(B + '/**/test-results.xml', recursive=True):
    os.remove(x)
subprocess.run(['ctest', '--test-dir', B, '-j8', '--timeout', '900'], stdout=subprocess.DEVNULL, stderr=subprocess.DEVNULL)
passed, failed = set(), set()
for x in glob.glob(B + '/**/test-results.xml', recursive=True):
    binname = os.path.basename(os.path.dirname(x))
    ctest = {'test': None}
    # map directory to ctest name
    d = os.path.relpath(os.path.dirname(x), B)
    name = {'src/lib/test': 'p11test', 'src/lib/crypto/test': 'cryptotest', 'src/lib/data_mgr/test': 'datamgrtest', 'src/lib/handle_mgr/test': 'handlemgrtest',
            'src/lib/object_store/test': 'objstoretest', 'src/lib/session_mgr/test': 'sessionmgrtest', 'src/lib/slot_mgr/test': 'slotmgrtest'}.get(d, d)
    root = ET.parse(x).getroot()
    for t in root.iter('Test'):
        passed.add(name + '::' + t.find('Name').text)
    for t in root.iter('FailedTest'):
        failed.add(name + '::' + t.find('Name').text)
base = set(json.load(open('/root/.vp/BASELINE.json'))['stable_pass'])
# handlemgrtest is reported as one case in the baseline
if any(p.startswith('handlemgrtest::') for p in passed) and not any(f.startswith('handlemgrtest::') for f in failed):
    passed.add('handlemgrtest::handlemgrtest')
missing = sorted(b for b in base if b not in passed)
print('cases passed: %d, failed: %d; baseline stable-pass cases: %d, of which not passing now: %d' % (len(passed), len(failed), len(base), len(missing)))
for m in missing[:40]:
    print('  NOT PASSING:', m)
print('other failures (not in baseline):', sorted(f for f in failed if f not in base)[:20])
sys.exit(1 if missing else 0)
