#!/bin/bash
# usage: tools/confirm_seed.sh <seed dir>...   — confirm each seeded change in a scratch worktree of /repo (outside /repo and /verif):
#   demo passes on the unchanged tree, the change compiles, the 195 baseline test cases still pass, the demo fails with the change.
# Results are appended to <seed dir>/confirmed.txt.  The worktree is removed at the end.
set -u
W=${W:-/tmp/confirm-wt}
git -C /repo worktree remove --force $W 2>/dev/null
git -C /repo worktree add -q --detach $W ${BASE:-HEAD} || exit 3
python3 /verif/tools/run_baseline.py $W/_build > $W/base.log 2>&1; echo "baseline suite: $(head -1 $W/base.log)"
for seed in "$@"; do
  seed=$(realpath $seed); out=$seed/confirmed.txt; : > $out
  echo "== $seed" | tee -a $out
  echo "repo commit: $(git -C $W rev-parse --short HEAD)" >> $out
  (cd $seed && SOFTHSM_SRC=$W bash ./run.sh $W/_build > $W/demo0.log 2>&1); d0=$?
  echo "demo on unchanged tree: exit $d0" | tee -a $out
  if ! git -C $W apply $seed/patch.diff 2>/dev/null && ! git -C $W apply -C1 $seed/patch.diff; then echo "PATCH DOES NOT APPLY" | tee -a $out; continue; fi
  python3 /verif/tools/run_baseline.py $W/_build > $W/suite.log 2>&1; s=$?
  echo "suite with change: exit $s: $(head -1 $W/suite.log)" | tee -a $out
  (cd $seed && SOFTHSM_SRC=$W bash ./run.sh $W/_build > $W/demo1.log 2>&1); d1=$?
  echo "demo with change: exit $d1: $(grep -i -m2 -E 'broken|violation|fail' $W/demo1.log | tr '\n' ' ' | cut -c1-300)" | tee -a $out
  if [ $d0 -eq 0 ] && [ $s -eq 0 ] && [ $d1 -ne 0 ]; then echo "CONFIRMED" | tee -a $out; else echo "NOT CONFIRMED" | tee -a $out; fi
  git -C $W checkout -- . ; cmake --build $W/_build -j16 > /dev/null 2>&1
done
git -C /repo worktree remove --force $W
