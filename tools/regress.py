#!/usr/bin/env python3
"""Regression of the whole framework (not a registered check): every check exits 0 on /repo's current tree, every stored mutant is
killed, every confirmed seeded change is reported by the check(s) listed in seeded/EXPECT.json.  Seeds are applied to scratch copies,
/repo is not touched.  usage: tools/regress.py [checks|mutants|seeds]..."""
import json, os, subprocess, sys, time
from concurrent.futures import ThreadPoolExecutor
V = os.path.dirname(os.path.dirname(os.path.abspath(__file__)))
what = sys.argv[1:] or ['checks', 'mutants', 'seeds']
man = json.load(open(os.path.join(V, 'MANIFEST.json')))
pids = [c['property_id'] for c in man['checks']]
bad = []
def sh(cmd):
    t = time.time()
    r = subprocess.run(cmd, cwd=V, stdout=subprocess.PIPE, stderr=subprocess.STDOUT, text=True)
    return r.returncode, r.stdout, time.time() - t
with ThreadPoolExecutor(max_workers=8) as ex:
    if 'checks' in what:
        for pid, (code, out, dt) in zip(pids, ex.map(lambda p: sh(['./verif', 'check', p]), pids)):
            print('check   %-4s exit %d  %.1fs' % (pid, code, dt))
            if code != 0:
                bad.append('check %s exit %d' % (pid, code))
                print('\n'.join(l for l in out.splitlines() if 'VIOLATION' in l or 'BROKEN' in l)[:2000])
    if 'mutants' in what:
        for pid, (code, out, dt) in zip(pids, ex.map(lambda p: sh(['./verif', 'mutants', p]), pids)):
            n = len([l for l in out.splitlines() if 'killed by' in l])
            sv = [l for l in out.splitlines() if 'SURVIVED' in l or ' skipped (' in l]
            print('mutants %-4s %d killed, %d not  %.1fs' % (pid, n, len(sv), dt))
            for l in sv:
                bad.append('mutant %s %s' % (pid, l[:120]))
                print('   ', l[:200])
    if 'seeds' in what:
        exp = json.load(open(os.path.join(V, 'seeded', 'EXPECT.json')))
        jobs = [(s, e) for s, e in sorted(exp.items()) if e.get('caught_by')]
        def one(j):
            s, e = j
            return sh(['./verif', 'seed', 'seeded/' + s] + e['caught_by'])
        for (s, e), (code, out, dt) in zip(jobs, ex.map(one, jobs)):
            print('seed    %-6s %s  %.1fs' % (s, ' | '.join(l.split(None, 2)[2] if len(l.split(None, 2)) > 2 else l for l in out.strip().splitlines()), dt))
            if code != 0:
                bad.append('seed %s not reported by %s' % (s, e['caught_by']))
        for s, e in sorted(exp.items()):
            if not e.get('caught_by'):
                print('seed    %-6s NOT CAUGHT: %s' % (s, e.get('why', '')))
print('\nREGRESSION %s' % ('OK' if not bad else 'FAILED:\n  ' + '\n  '.join(bad)))
sys.exit(1 if bad else 0)
