"""E1 — table extraction: constant evaluation over fact trees and emulators for the registration idioms
of the code base (P11Attr* constructors, P11*Obj::init chains, switch label sets)."""
from .facts import walk, AnalysisBroken
from .interp import canon


def const_eval(e, env=None):
    """Integer value of a constant expression, or None."""
    if e is None:
        return None
    k = e.get('k')
    if k == 'Lit':
        return e['v']
    if k == 'Sizeof':
        return e.get('v')
    if k == 'Null':
        return 0
    if k == 'Var':
        if e['kind'] == 'enum':
            return e['v']
        if env is not None and e['name'] in env:
            return env[e['name']]
        return None
    if k == 'Bin':
        a, b = const_eval(e['a'], env), const_eval(e['b'], env)
        if a is None or b is None:
            return None
        op = e['op']
        try:
            return {'|': a | b, '&': a & b, '+': a + b, '-': a - b, '<<': a << b, '>>': a >> b, '*': a * b,
                    '^': a ^ b}.get(op)
        except Exception:
            return None
    if k == 'Un':
        a = const_eval(e['e'], env)
        if a is None:
            return None
        if e['op'] == '~':
            return ~a & 0xFFFFFFFFFFFFFFFF
        if e['op'] == '-':
            return -a
        if e['op'] == '!':
            return int(not a)
    return None


def lit_name(e):
    """Macro / enum spelling of a constant (CKA_VALUE), else its number as a string."""
    if e is None:
        return None
    if e.get('k') == 'Lit':
        return e.get('m') or str(e['v'])
    if e.get('k') == 'Var' and e['kind'] == 'enum':
        return e['name']
    return None


class AttrClass:
    def __init__(self, name):
        self.name = name
        self.type_name = None
        self.type_value = None
        self.size = None
        self.checks_expr = None
        self.params = []       # ctor parameter names after the OSObject*
        self.defaults = {}
        self.file = None
        self.line = None

    def checks(self, args):
        env = dict(self.defaults)
        for n, a in zip(self.params, args):
            if a is not None:
                env[n] = a
        return const_eval(self.checks_expr, env)


def attr_classes(prog):
    """Every class derived from P11Attribute: attribute type, size, checks as a function of the ctor args."""
    out = {}
    subs = prog.subclasses('P11Attribute')
    if len(subs) < 40:
        raise AnalysisBroken('only %d subclasses of P11Attribute found' % len(subs))
    for cls in sorted(subs):
        ctors = [f for f in prog.methods_of(cls) if f.get('mkind') == 'ctor']
        if len(ctors) != 1:
            raise AnalysisBroken('%s: expected exactly one constructor, found %d' % (cls, len(ctors)))
        f = ctors[0]
        ac = AttrClass(cls)
        ac.file, ac.line = f['file'], f['line']
        ac.params = [p['var']['name'] for p in f['params'][1:]]
        for n in walk(f['body']):
            if n.get('k') == 'Assign' and n['a'].get('k') == 'Member':
                fld = n['a']['field']
                if fld == 'type':
                    ac.type_name, ac.type_value = lit_name(n['b']), const_eval(n['b'])
                elif fld == 'size':
                    ac.size = const_eval(n['b'])
                elif fld == 'checks':
                    ac.checks_expr = n['b']
        if ac.type_value is None or ac.checks_expr is None:
            raise AnalysisBroken('%s: constructor does not have the type=/checks= shape' % cls)
        out[cls] = ac
    return out


class Registration:
    __slots__ = ('attr_class', 'args', 'checks', 'type_name', 'type_value', 'file', 'line', 'obj_class')

    def __repr__(self):
        return '%s:%s(0x%x)' % (self.obj_class, self.type_name, self.checks or 0)


def object_classes(prog, attrs):
    """Emulate the P11*Obj::init chains.  Returns {class: {'base': qname|None, 'own': [Registration]}} and a
    flattening helper."""
    out = {}
    classes = sorted(prog.subclasses('P11Object') | {'P11Object'})
    for cls in classes:
        fs = prog.fns(cls + '::init')
        if not fs:
            continue       # inherits init unchanged
        f = fs[0]
        base = None
        news = {}          # local var -> Registration
        regs = []
        for n in walk(f['body']):
            if n.get('k') == 'Call' and (n.get('callee') or '').endswith('::init') and n.get('recv', {}).get('k') == 'This' \
                    and n['callee'] != cls + '::init':
                base = n['callee'][:-len('::init')]
        for s in walk(f['body']):
            if s.get('k') == 'Decl':
                for d in s['decls']:
                    i = d.get('init')
                    if i and i.get('k') == 'New' and i.get('type') in attrs:
                        r = Registration()
                        ac = attrs[i['type']]
                        r.attr_class, r.obj_class = i['type'], cls
                        r.args = [const_eval(a) for a in i.get('args', [])[1:]]
                        if any(a is None for a in r.args):
                            raise AnalysisBroken('%s: non-constant mask in new %s at line %s' % (cls, i['type'], i['l']))
                        r.checks = ac.checks(r.args)
                        if r.checks is None:
                            raise AnalysisBroken('%s: cannot evaluate checks of %s at line %s' % (cls, i['type'], i['l']))
                        r.type_name, r.type_value = ac.type_name, ac.type_value
                        r.file, r.line = f['file'], i['l']
                        news[d['var']['name']] = r
            if s.get('k') == 'Assign' and s['a'].get('k') == 'Call' and (s['a'].get('callee') or '').endswith('operator[]') \
                    and s['a'].get('recv', {}).get('field') == 'attributes':
                v = s['b']
                if v.get('k') == 'Var' and v['name'] in news:
                    regs.append(news[v['name']])
                else:
                    raise AnalysisBroken('%s::init: registration of something that is not a local new P11Attr* (line %s)' % (cls, s['l']))
        out[cls] = dict(base=base, own=regs, file=f['file'], line=f['line'])
    return out


def flatten(objs, cls, prog):
    """Attribute table of a concrete class: base registrations first, later registration of a type wins."""
    chain = []
    c = cls
    seen = set()
    while c and c not in seen:
        seen.add(c)
        if c in objs:
            chain.append(c)
            c = objs[c]['base']
        else:
            bs = prog.classes.get(c, {}).get('bases', [])
            c = bs[0] if bs else None
    table = {}
    for c in reversed(chain):
        for r in objs[c]['own']:
            table[r.type_value] = r
    return table


def switch_cases(switch_stmt):
    """[(labels:[names], stmts)] of a Switch node (labels 'default' for default)."""
    body = switch_stmt['body']['body'] if switch_stmt['body'] and switch_stmt['body']['k'] == 'Block' else [switch_stmt['body']]
    segs = []
    for c in body:
        labels = []
        while c is not None and c['k'] in ('Case', 'Default'):
            labels.append((lit_name(c['v']) or canon(c['v'])) if c['k'] == 'Case' else 'default')
            c = c['sub']
        if labels:
            segs.append((labels, [c] if c else []))
        elif segs:
            segs[-1][1].append(c)
    return segs
