"""Rule results, known findings, evidence files, exit codes (DESIGN.md §2.3–2.5, §2.12)."""
import json, os, re, sys, time, hashlib
from . import facts

VERIF = facts.VERIF
KNOWN_FILE = os.path.join(VERIF, 'known_findings.json')


class Rule:
    def __init__(self, ctx, rid, text, floor=1, engine=''):
        self.ctx, self.id, self.text, self.floor, self.engine = ctx, rid, text, floor, engine
        self.instances = []      # dicts: function, site, status, detail, line, file, path
        self.notes = []
        self.paths = 0
        self.rows = 0
        self.exhaustive = False

    def _add(self, status, function, site, detail='', file=None, line=None, path=None):
        self.instances.append(dict(status=status, function=function, site=site, detail=detail, file=file, line=line, path=path))

    def ok(self, function, site, detail='', **kw): self._add('discharged', function, site, detail, **kw)
    def violation(self, function, site, detail='', **kw): self._add('violated', function, site, detail, **kw)
    def undecided(self, function, site, detail='', **kw): self._add('undecided', function, site, detail, **kw)
    def excepted(self, function, site, detail='', **kw): self._add('excepted', function, site, detail, **kw)
    def info(self, text): self.notes.append(text)

    def count(self, status): return sum(1 for i in self.instances if i['status'] == status)


class Ctx:
    """One run of one property's check."""

    def __init__(self, pid, tier, mutated=None, quiet=False):
        self.pid, self.tier, self.mutated, self.quiet = pid, tier, mutated, quiet
        self.rules = []
        self._progs = {}
        self.config_map = dict(x.split('=') for x in os.environ.get('VERIF_CONFIG_MAP', '').split(',') if '=' in x)
        self.t0 = time.time()
        self.functions_analysed = set()
        self.configs = set()
        self.broken = []
        self.selftests = []     # (name, fired:bool)

    def prog(self, config='ossl-file', subdirs=('src/lib',)):
        config = self.config_map.get(config, config)
        k = (config, tuple(subdirs))
        if k not in self._progs:
            mut = None
            if self.mutated:
                mut = self.mutated
            self._progs[k] = facts.Program(config, subdirs=subdirs, mutated=mut)
            self.configs.add(config)
        return self._progs[k]

    def rule(self, rid, text, floor=1, engine=''):
        r = Rule(self, rid, text, floor, engine)
        self.rules.append(r)
        return r

    def analysed(self, fn):
        self.functions_analysed.add(fn['qname'] if isinstance(fn, dict) else fn)

    def selftest(self, name, fired):
        self.selftests.append((name, bool(fired)))


def load_known():
    if not os.path.exists(KNOWN_FILE):
        return []
    return json.load(open(KNOWN_FILE))['findings']


def finding_key(rule, function, site):
    return '%s|%s|%s' % (rule, function, site)


def finish(ctx, explanation, assumptions, write_evidence=True):
    """Print the verdict lines, write evidence/<id>.json and out/<id>/*.json, return the exit code."""
    pid = ctx.pid
    known = {finding_key(k['rule'], k['function'], k['site']): k for k in load_known() if k.get('status') == 'known' and k['property'] == pid}
    outdir = os.path.join(VERIF, 'out', pid)
    os.makedirs(outdir, exist_ok=True)
    for f in os.listdir(outdir):
        os.remove(os.path.join(outdir, f))
    violations, known_hits, broken = [], [], list(ctx.broken)
    used_known = set()
    for r in ctx.rules:
        n = len(r.instances)
        if n < r.floor:
            broken.append('rule %s matched %d instances, floor is %d (anchor vanished or extractor drift)' % (r.id, n, r.floor))
        for i in r.instances:
            if i['status'] == 'undecided':
                broken.append('rule %s undecided at %s [%s] %s:%s: %s' % (r.id, i['function'], i['site'], i.get('file') or '', i.get('line') or '', i['detail']))
            elif i['status'] == 'violated':
                k = finding_key(r.id, i['function'], i['site'])
                if k in known:
                    known_hits.append((r, i, known[k]))
                    used_known.add(k)
                    i['status'] = 'known'
                else:
                    violations.append((r, i))
    for name, fired in ctx.selftests:
        if not fired:
            broken.append('self-test %s did not fire' % name)
    lines = []
    for r, i, k in known_hits:
        lines.append('KNOWN-FINDING: property=%s rule=%s %s [%s] %s' % (pid, r.id, i['function'], i['site'], k.get('what', i['detail'])))
    # a known entry whose violation is gone is only noted (fixed or refactored away)
    for k, v in known.items():
        if k not in used_known:
            lines.append('note: known finding %s no longer reported' % k)
    if not broken:
        for r, i in violations:
            key = hashlib.sha1(finding_key(r.id, i['function'], i['site']).encode()).hexdigest()[:12]
            rp = os.path.join(outdir, '%s-%s.json' % (r.id, key))
            json.dump(dict(property=pid, rule=r.id, rule_text=r.text, function=i['function'], site=i['site'], file=i.get('file'),
                           line=i.get('line'), detail=i['detail'], path=i.get('path'), tier=ctx.tier), open(rp, 'w'), indent=1)
            lines.append('VIOLATION property=%s replay=%s' % (pid, rp))
            lines.append('  rule %s (%s)\n  at %s:%s in %s [%s]\n  %s%s' % (r.id, r.text, i.get('file') or '?', i.get('line') or '?', i['function'], i['site'], i['detail'],
                                                                             ('\n  path: ' + i['path']) if i.get('path') else ''))
    else:
        for b in broken:
            lines.append('ANALYSIS-BROKEN property=%s reason=%s' % (pid, b))
        # violations are withheld when the analysis is broken: nothing it reports is believed
        for r, i in violations:
            lines.append('  (withheld) %s %s [%s] %s' % (r.id, i['function'], i['site'], i['detail']))
    code = 2 if broken else (1 if violations else 0)
    if write_evidence:
        obligations = sum(len(r.instances) for r in ctx.rules)
        discharged = sum(r.count('discharged') for r in ctx.rules)
        samples = []
        for r in ctx.rules:
            for i in r.instances[:2]:
                samples.append(dict(rule=r.id, function=i['function'], site=i['site'], status=i['status'], detail=i['detail'][:300], file=i.get('file'), line=i.get('line')))
        ev = dict(
            property_id=pid, tier=ctx.tier, seed=int(os.environ.get('VERIF_SEED', '0') or 0), level='other',
            coverage=dict(
                explanation=explanation + ' Rules evaluated in this run (coverage.rules gives their instance counts): ' + '; '.join('%s: %s' % (r.id, r.text) for r in ctx.rules) + '.',
                evaluations=sum(max(r.paths, r.rows, len(r.instances)) for r in ctx.rules),
                distinct_nontrivial=len({(r.id, i['function'], i['site']) for r in ctx.rules for i in r.instances}),
                rule='one case = one rule instance (a site in /repo carrying an obligation: a call, a write, a return path, a table row); '
                     'distinct = distinct (rule, function, site); non-trivial = the site carries an obligation the rule had to discharge; '
                     'evaluations additionally counts abstract return paths / table rows examined',
                obligations=obligations, discharged=discharged,
                excepted=sum(r.count('excepted') for r in ctx.rules),
                known_findings=sum(r.count('known') for r in ctx.rules),
                undecided=sum(r.count('undecided') for r in ctx.rules),
                rules=[dict(id=r.id, text=r.text, engine=r.engine, instances=len(r.instances), floor=r.floor, discharged=r.count('discharged'),
                            excepted=r.count('excepted'), known=r.count('known'), violated=r.count('violated'), abstract_paths=r.paths,
                            table_rows=r.rows, exhaustive=r.exhaustive, notes=r.notes[:12]) for r in ctx.rules],
                functions_analysed=len(ctx.functions_analysed),
                translation_units=sum(len(p.tus) for p in ctx._progs.values()),
                configurations=sorted(ctx.configs),
                selftests=[dict(name=n, fired=f) for n, f in ctx.selftests],
                samples=samples,
                exhaustive=bool(ctx.rules) and all(r.exhaustive for r in ctx.rules),
                checker_cmd='./verif check %s --tier %s' % (pid, ctx.tier),
                trusted_base=['clang 14 front end (parse, overload and macro resolution)', 'tools/shsm-facts.cc normaliser', 'engine/*.py abstract interpreter'],
                exit_code=code, analysis_broken=broken,
            ),
            assumptions=assumptions,
            wall_s=round(time.time() - ctx.t0, 2),
            violations=len(violations),
        )
        os.makedirs(os.path.join(VERIF, 'evidence'), exist_ok=True)
        tmp = os.path.join(VERIF, 'evidence', '%s.json.tmp%d' % (pid, os.getpid()))
        json.dump(ev, open(tmp, 'w'), indent=1)
        os.rename(tmp, os.path.join(VERIF, 'evidence', '%s.json' % pid))
    if not ctx.quiet:
        for r in ctx.rules:
            print('%s: %d instances (%d discharged, %d excepted, %d known, %d violated, %d undecided)%s %s' % (
                r.id, len(r.instances), r.count('discharged'), r.count('excepted'), r.count('known'), r.count('violated'),
                r.count('undecided'), (' paths=%d' % r.paths) if r.paths else '', ('rows=%d' % r.rows) if r.rows else ''))
            for n in r.notes[:6]:
                print('    note: ' + n)
        for l in lines:
            print(l)
        print('%s %s: exit %d in %.1fs' % (pid, ctx.tier, code, time.time() - ctx.t0))
    return code, violations, lines
