"""Getting at the resolved program (DESIGN.md §2.1): cmake *configure* (never a build) of /repo's
current working tree for a named configuration, compilation database, and parallel extraction of
every needed translation unit with tools/shsm-facts.  Nothing is cached across source changes:
the cache key is the sha256 of the TU, of every header under /repo/src, of config.h and of the flags."""
import hashlib, json, os, subprocess, sys, shutil, tempfile, time
from concurrent.futures import ThreadPoolExecutor

VERIF = os.path.dirname(os.path.dirname(os.path.abspath(__file__)))
REPO = os.environ.get('VERIF_REPO', '/repo')
WORK = os.path.join(VERIF, '.work')
BIN = os.path.join(WORK, 'bin', 'shsm-facts')

CONFIGS = {
    # name: cmake options.  ossl-file is the baseline the test-suite builds.
    'ossl-file': ['-DWITH_CRYPTO_BACKEND=openssl', '-DWITH_OBJECTSTORE_BACKEND_DB=OFF'],
    'ossl-db': ['-DWITH_CRYPTO_BACKEND=openssl', '-DWITH_OBJECTSTORE_BACKEND_DB=ON'],
    'botan-file': ['-DWITH_CRYPTO_BACKEND=botan', '-DWITH_OBJECTSTORE_BACKEND_DB=OFF'],
    'botan-db': ['-DWITH_CRYPTO_BACKEND=botan', '-DWITH_OBJECTSTORE_BACKEND_DB=ON'],
}
COMMON = ['-DCMAKE_BUILD_TYPE=RelWithDebInfo', '-DBUILD_TESTS=ON', '-DENABLE_ECC=ON', '-DENABLE_EDDSA=ON',
          '-DENABLE_GOST=OFF', '-DENABLE_FIPS=OFF']


class AnalysisBroken(Exception):
    """The analysis itself cannot run (anchor vanished, extractor failed ...): exit code 2, never a verdict."""


def sha(*parts):
    h = hashlib.sha256()
    for p in parts:
        h.update(p if isinstance(p, bytes) else p.encode())
        h.update(b'\0')
    return h.hexdigest()


def _read(p):
    with open(p, 'rb') as f:
        return f.read()


def _cmake_inputs_hash():
    items = []
    for root, dirs, files in os.walk(REPO):
        dirs[:] = [d for d in dirs if d not in ('.git', '_build')]
        for fn in files:
            if fn == 'CMakeLists.txt' or fn.endswith('.cmake') or fn.endswith('.in'):
                p = os.path.join(root, fn)
                items.append(p)
    items.sort()
    return sha(*[p + ':' + hashlib.sha256(_read(p)).hexdigest() for p in items])


def resource_dir():
    return subprocess.check_output(['clang', '-print-resource-dir'], text=True).strip()


def configure(config):
    """cmake configure only; returns (cfgdir, compdb dict file->args)."""
    os.makedirs(os.path.join(WORK, 'cfg'), exist_ok=True)
    h = _cmake_inputs_hash()[:16]
    cfgdir = os.path.join(WORK, 'cfg', '%s-%s' % (config, h))
    stamp = os.path.join(cfgdir, 'compdb.json')
    if not os.path.exists(stamp):
        tmp = tempfile.mkdtemp(prefix='cfg-', dir=os.path.join(WORK, 'cfg'))
        try:
            r = subprocess.run(['cmake', '-G', 'Ninja', '-S', REPO, '-B', tmp] + COMMON + CONFIGS[config],
                               stdout=subprocess.PIPE, stderr=subprocess.STDOUT, text=True)
            if r.returncode != 0 or not os.path.exists(os.path.join(tmp, 'config.h')):
                raise AnalysisBroken('cmake configure failed for %s:\n%s' % (config, r.stdout[-2000:]))
            db = subprocess.check_output(['ninja', '-C', tmp, '-t', 'compdb'], text=True)
            db = db.replace(tmp, cfgdir)
            with open(os.path.join(tmp, 'compdb.json'), 'w') as f:
                f.write(db)
            # keep only what the analysis needs: config.h and the database
            for e in os.listdir(tmp):
                if e not in ('config.h', 'compdb.json'):
                    p = os.path.join(tmp, e)
                    shutil.rmtree(p) if os.path.isdir(p) else os.remove(p)
            try:
                os.rename(tmp, cfgdir)
            except OSError:
                shutil.rmtree(tmp, ignore_errors=True)   # lost a race with a parallel check: fine
        finally:
            if os.path.exists(tmp):
                shutil.rmtree(tmp, ignore_errors=True)
        # drop stale configure directories of this config
        for e in os.listdir(os.path.join(WORK, 'cfg')):
            if e.startswith(config + '-') and e != os.path.basename(cfgdir):
                shutil.rmtree(os.path.join(WORK, 'cfg', e), ignore_errors=True)
    db = json.load(open(stamp))
    out = {}
    for e in db:
        f = e['file']
        if '/test/' in f or f in out or not f.startswith(REPO + '/src/'):
            continue
        args = e['command'].split()
        keep = []
        skip = False
        for a in args[1:]:
            if skip:
                skip = False
                continue
            if a in ('-o', '-MT', '-MF'):
                skip = True
                continue
            if a in ('-c', '-MD') or a == f:
                continue
            keep.append(a)
        out[f] = keep
    return cfgdir, out


_hdr_hash = None


def headers_hash():
    global _hdr_hash
    if _hdr_hash is None:
        items = []
        for root, dirs, files in os.walk(os.path.join(REPO, 'src')):
            for fn in files:
                if fn.endswith(('.h', '.hpp', '.inc')):
                    p = os.path.join(root, fn)
                    items.append(p + ':' + hashlib.sha256(_read(p)).hexdigest())
        items.sort()
        _hdr_hash = sha(*items)
    return _hdr_hash


def _dir_hash(d):
    return sha(*[fn + ':' + hashlib.sha256(_read(os.path.join(d, fn))).hexdigest() for fn in sorted(os.listdir(d))])


def _extract_one(src, flags, cfgdir, extra_root=None, realsrc=None):
    """Run the extractor on one TU; returns path of the JSON (cached by content hash)."""
    cache = os.path.join(WORK, 'facts')
    os.makedirs(cache, exist_ok=True)
    key = sha(_read(src), headers_hash(), _read(os.path.join(cfgdir, 'config.h')), ' '.join(flags),
              str(os.path.getmtime(BIN)), src, extra_root or '', _dir_hash(extra_root) if extra_root else '')
    out = os.path.join(cache, key[:32] + '.json')
    if os.path.exists(out):
        return out
    tmp = out + '.%d.tmp' % os.getpid()
    cmd = [BIN, '-o', tmp]
    if extra_root:
        cmd += ['-root2', extra_root]
    cmd += [src, '--'] + flags + ['-resource-dir', resource_dir(), '-w', '-ferror-limit=5']
    r = subprocess.run(cmd, stdout=subprocess.PIPE, stderr=subprocess.STDOUT, text=True)
    if r.returncode != 0 or not os.path.exists(tmp):
        if os.path.exists(tmp):
            os.remove(tmp)
        raise AnalysisBroken('extractor failed on %s:\n%s' % (src, r.stdout[-1500:]))
    os.rename(tmp, out)
    return out


class Program:
    """All facts of one configuration (or of an explicit list of TUs)."""

    def __init__(self, config, files=None, subdirs=('src/lib',), mutated=None):
        """files: explicit list of TU paths (default: every TU of the configuration under subdirs).
        mutated: {orig_path: scratch_path} — analyse scratch copies in place of the originals."""
        if not os.path.exists(BIN):
            raise AnalysisBroken('extractor %s not built (run MANIFEST.setup_cmd)' % BIN)
        t0 = time.time()
        self.config = config
        self.cfgdir, db = configure(config)
        self.db = db
        if files is None:
            files = [f for f in sorted(db) if any(f.startswith(os.path.join(REPO, sd) + '/') for sd in subdirs)]
        missing = [f for f in files if f not in db]
        if missing:
            raise AnalysisBroken('translation units not in the %s build: %s' % (config, missing))
        self.tus = files
        mutated = mutated or {}
        jobs = []
        for f in files:
            src = mutated.get(f, f)
            flags = list(db[f])
            extra_root = None
            if src != f:
                flags = ['-I' + os.path.dirname(f)] + flags
                extra_root = os.path.dirname(src) + '/'
            jobs.append((src, flags, extra_root))
        with ThreadPoolExecutor(max_workers=min(16, os.cpu_count() or 4)) as ex:
            outs = list(ex.map(lambda j: _extract_one(j[0], j[1], self.cfgdir, j[2]), jobs))
        self.functions = {}      # (qname, sig) -> fn
        self.by_name = {}        # qname -> [fn]
        self.classes = {}
        self.enums = {}
        self.globals = {}
        self.parse_errors = []
        for (src, _, _), p in zip(jobs, outs):
            d = json.load(open(p))
            if d.get('errors'):
                self.parse_errors.append(src)
            for fn in d['functions']:
                k = (fn['qname'], fn['sig'])
                if k in self.functions:
                    continue
                fn['tu'] = src
                self.functions[k] = fn
                self.by_name.setdefault(fn['qname'], []).append(fn)
            for c in d['classes']:
                self.classes.setdefault(c['qname'], c)
            for e in d['enums']:
                self.enums.setdefault(e['qname'] + '@' + e['file'], e)
            for g in d['globals']:
                self.globals.setdefault(g['qname'], g)
        if self.parse_errors:
            raise AnalysisBroken('clang reported errors while parsing: %s' % self.parse_errors)
        self.extract_s = time.time() - t0
        self._subclasses = None
        # experimental and OFF by default: inlining changes who-calls-what, which the ownership rules (C18.R4, C05.R3) read; see DESIGN I.7
        self.inlined = inline_void_helpers(self) if os.environ.get('VERIF_INLINE') else []

    # ---- lookups -------------------------------------------------------------------------
    def fn(self, qname, sig=None):
        """The unique function with this qualified name (AnalysisBroken if the anchor vanished)."""
        c = self.by_name.get(qname, [])
        if sig is not None:
            c = [f for f in c if f['sig'] == sig]
        if len(c) != 1:
            raise AnalysisBroken('anchor function %s%s: %d definitions found' % (qname, '(%s)' % sig if sig else '', len(c)))
        return c[0]

    def fns(self, qname):
        return self.by_name.get(qname, [])

    def has(self, qname):
        return qname in self.by_name

    def methods_of(self, cls):
        return [f for f in self.functions.values() if f.get('class') == cls]

    def subclasses(self, cls):
        """Transitive subclasses (CHA)."""
        if self._subclasses is None:
            direct = {}
            for c in self.classes.values():
                for b in c['bases']:
                    direct.setdefault(b, set()).add(c['qname'])
            self._subclasses = direct
        out, todo = set(), [cls]
        while todo:
            c = todo.pop()
            for s in self._subclasses.get(c, ()):
                if s not in out:
                    out.add(s)
                    todo.append(s)
        return out

    def bases(self, cls):
        out, todo = [], [cls]
        while todo:
            c = todo.pop(0)
            for b in self.classes.get(c, {}).get('bases', []):
                if b not in out:
                    out.append(b)
                    todo.append(b)
        return out


# ---- generic tree walking ----------------------------------------------------------------
def inline_void_helpers(prog, only=None):
    """A block of statements that was extracted into a file-local `void` helper is the same code: a call statement `helper(a, b);` of a free, non-recursive void function defined
    in the same file, whose parameters are neither assigned nor have their address taken and which has no `return` before its end, is replaced by the helper's body with the
    parameters substituted by the argument expressions (locals of the helper renamed).  The helper itself stays in the program.  Returns the list of (caller, helper, line).
    With `only` (a function record) nothing in the program is changed: a copy of that one function with the helper calls replaced is returned (None when there is nothing to inline)."""
    import copy
    done = []
    helpers = {}
    for g in prog.functions.values():
        if g.get('class') or g.get('ret') != 'void' or g.get('body') is None or not g['file'].endswith(('.cpp', '.cc')):
            continue
        pn = [pp['var']['name'] for pp in g['params'] if pp.get('var')]
        if len(pn) != len(g['params']):
            continue
        body = g['body']
        stmts = body.get('body', []) if body.get('k') == 'Block' else [body]
        ok = len(stmts) <= 40
        for i, st in enumerate(stmts):
            for x in walk(st):
                k = x.get('k')
                if k == 'Return' and not (st is stmts[-1] and x is st and x.get('e') is None):
                    ok = False
                elif k == 'Assign' and x['a'].get('k') == 'Var' and x['a'].get('kind') == 'param':
                    ok = False
                elif k == 'Un' and x.get('op') in ('&', '++', '--') and x['e'].get('k') == 'Var' and x['e'].get('kind') == 'param':
                    ok = False
                elif k == 'Call' and x.get('callee') == g['qname']:
                    ok = False
                elif k in ('Goto', 'Label'):
                    ok = False
        if ok and stmts:
            helpers[(g['qname'], os.path.basename(g['file']))] = (g, pn, [st for st in stmts if not (st.get('k') == 'Return')])
    if not helpers:
        return done if only is None else None

    def subst(node, amap, suffix, locals_):
        if isinstance(node, list):
            return [subst(x, amap, suffix, locals_) for x in node]
        if not isinstance(node, dict):
            return node
        if node.get('k') == 'Var':
            if node.get('kind') == 'param' and node['name'] in amap:
                return copy.deepcopy(amap[node['name']])
            if node.get('kind') == 'local' and node['name'] in locals_:
                n2 = dict(node)
                n2['name'] = node['name'] + suffix
                if 'id' in n2:
                    n2['id'] = n2['id'] + suffix
                return n2
        return {k: subst(v, amap, suffix, locals_) for k, v in node.items()}

    def rewrite(f, s, counter):
        """returns the (possibly replaced) statement"""
        if isinstance(s, list):
            return [rewrite(f, x, counter) for x in s]
        if not isinstance(s, dict):
            return s
        if s.get('k') == 'Expr' and isinstance(s.get('e'), dict) and s['e'].get('k') == 'Call' and (s['e'].get('callee'), os.path.basename(f['file'])) in helpers and s['e'].get('recv') is None:
            g, pn, stmts = helpers[(s['e']['callee'], os.path.basename(f['file']))]
            args = s['e'].get('args', [])
            if g is not f and len(args) == len(pn) and all(a is not None and not any(x.get('k') in ('Call', 'Assign', 'New', 'Ctor') or (x.get('k') == 'Un' and x.get('op') in ('++', '--')) for x in walk(a)) for a in args):
                counter[0] += 1
                suffix = '__inl%d' % counter[0]
                locals_ = {d['var']['name'] for st in stmts for x in walk(st) if x.get('k') == 'Decl' for d in x['decls']}
                amap = dict(zip(pn, args))
                done.append((f['qname'], g['qname'], s.get('l')))
                return {'k': 'Block', 'l': s.get('l'), 'body': subst(copy.deepcopy(stmts), amap, suffix, locals_), 'inlined': g['qname']}
            return s
        return {k: (rewrite(f, v, counter) if k in ('body', 't', 'e', 'sub', 'handlers', 'cases') or (k == 'e' and s.get('k') in ('If',)) else v) for k, v in s.items()}
    counter = [0]
    if only is not None:
        if only.get('body') is None or not any(x.get('k') == 'Call' and (x.get('callee'), os.path.basename(only['file'])) in helpers for x in walk(only['body'])):
            return None
        g = dict(only)
        g['body'] = rewrite(only, only['body'], counter)
        return g if done else None
    for f in prog.functions.values():
        if f.get('body') is None or not any(x.get('k') == 'Call' and (x.get('callee'), os.path.basename(f['file'])) in helpers for x in walk(f['body'])):
            continue
        f['body'] = rewrite(f, f['body'], counter)
    return done


def walk(node):
    """Pre-order over every dict node of a fact tree."""
    stack = [node]
    while stack:
        n = stack.pop()
        if isinstance(n, dict):
            yield n
            for v in reversed(list(n.values())):
                if isinstance(v, (dict, list)):
                    stack.append(v)
        elif isinstance(n, list):
            for v in reversed(n):
                stack.append(v)


def calls(node, callee=None, short=None):
    for n in walk(node):
        if n.get('k') == 'Call':
            c = n.get('callee') or ''
            if callee is not None and c != callee:
                continue
            if short is not None and c.split('::')[-1] != short:
                continue
            yield n


def unanalysable(fn):
    """Reason if the function contains a construct the normaliser does not know (goto etc.)."""
    for n in walk(fn['body']):
        if n.get('k') in ('OtherStmt',):
            return '%s at line %s' % (n.get('cls'), n.get('l'))
    return None


def scratch_dir(tag):
    d = os.path.join(WORK, 'scratch', '%s-%d' % (tag, os.getpid()))
    if os.path.exists(d):
        shutil.rmtree(d)
    os.makedirs(d)
    return d
