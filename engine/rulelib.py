"""Helpers shared by the rule modules."""
import itertools, re
from .facts import walk, calls, AnalysisBroken, unanalysable
from .interp import Interp, Outcomes, St, canon, short, kill, nested_shadowing, is_pure_name


def product(domains):
    """[{k: v}] over the cartesian product of {k: [values]}."""
    keys = list(domains)
    for combo in itertools.product(*[domains[k] for k in keys]):
        yield dict(zip(keys, combo))


def macros(prog):
    """name -> value of every macro-spelled integer constant used anywhere in the analysed program."""
    if not hasattr(prog, '_macros'):
        m = {}
        for f in prog.functions.values():
            for n in walk(f['body']):
                if n.get('k') == 'Lit' and n.get('m'):
                    m.setdefault(n['m'], n['v'])
            for i in f.get('inits', []):
                for n in walk(i):
                    if n.get('k') == 'Lit' and n.get('m'):
                        m.setdefault(n['m'], n['v'])
        for e in prog.enums.values():
            for en in e['enumerators']:
                m.setdefault(en['name'], en['v'])
        prog._macros = m
    return prog._macros


def macro(prog, name):
    m = macros(prog)
    if name not in m:
        raise AnalysisBroken('constant %s is not used anywhere in the analysed program' % name)
    return m[name]


def param_index(fn, name):
    for i, p in enumerate(fn['params']):
        if p['var']['name'] == name:
            return i
    return None


def param_name(fn, idx):
    if idx >= len(fn['params']):
        raise AnalysisBroken('%s has no parameter #%d' % (fn['qname'], idx))
    return fn['params'][idx]['var']['name']


def handle_objects(fn):
    """{handle expression canon: [local variable names]} for `X = handleManager->getObject(h)` (decl or assignment)."""
    out = {}
    for n in walk(fn['body']):
        tgt, init = None, None
        if n.get('k') == 'Decl':
            for d in n['decls']:
                i = d.get('init')
                if i and i.get('k') == 'Call' and short(i.get('callee')) == 'getObject' and (i.get('callee') or '').startswith('HandleManager'):
                    out.setdefault(canon(i['args'][0]), []).append((d['var']['name'], i['l']))
        elif n.get('k') == 'Assign' and n['a'].get('k') == 'Var' and n['b'].get('k') == 'Call' \
                and short(n['b'].get('callee')) == 'getObject' and (n['b'].get('callee') or '').startswith('HandleManager'):
            out.setdefault(canon(n['b']['args'][0]), []).append((n['a']['name'], n['b']['l']))
    return out


def local_from_call(fn, callee_short, recv_pred=None):
    """[(var, call node)] for locals initialised/assigned from a call of the given short name."""
    out = []
    for n in walk(fn['body']):
        if n.get('k') == 'Decl':
            for d in n['decls']:
                i = d.get('init')
                if i and i.get('k') == 'Call' and short(i.get('callee')) == callee_short:
                    out.append((d['var']['name'], i))
        elif n.get('k') == 'Assign' and n['a'].get('k') == 'Var' and n['b'].get('k') == 'Call' and short(n['b'].get('callee')) == callee_short:
            out.append((n['a']['name'], n['b']))
    return out


class SiteFacts(Interp):
    """Collect, for every trigger site, the abstract states that reach it.
    trigger(e, st) -> hashable site key or None, called for every Call/Ctor/New node."""

    def __init__(self, fn, prog=None, trigger=None, assign_trigger=None, return_trigger=None, cenv=None, track=None, track_facts=None):
        super().__init__(fn, prog)
        if track_facts:
            self.track_facts = re.compile(track_facts)
        self.trigger = trigger
        self.assign_trigger = assign_trigger
        self.return_trigger = return_trigger
        self.sites = {}
        if cenv is not None:
            self.cenv = {k: v for k, v in cenv.items() if isinstance(k, str)}
            self.cenv_rx = [(k, v) for k, v in cenv.items() if not isinstance(k, str)]
        if track:
            self.TRACK = tuple(track)

    def hit(self, key, node, st):
        self.sites.setdefault(key, []).append(dict(facts=frozenset(st.facts), env=dict(st.env), path=st.show_path(), line=node.get('l'), aut=dict(st.aut)))

    def on_call(self, e, st):
        if self.trigger:
            k = self.trigger(e, st)
            if k is not None:
                self.hit(k, e, st)

    def on_assign(self, lhs, rhs, st):
        if self.assign_trigger and not self.assign_pre:
            k = self.assign_trigger(lhs, rhs, st)
            if k is not None:
                self.hit(k, lhs, st)

    assign_pre = False      # evaluate assign_trigger before the lvalue's own side effects (arr[i++] = ...)

    def pre_assign(self, lhs, rhs, st):
        if self.assign_trigger and self.assign_pre:
            k = self.assign_trigger(lhs, rhs, st)
            if k is not None:
                self.hit(k, lhs, st)

    def on_return(self, s, st):
        if self.return_trigger:
            k = self.return_trigger(s, st)
            if k is not None:
                self.hit(k, s, st)


def has_fact(facts, rx, truth=True):
    """Is there a fact whose atom fully matches the regex with the given truth?"""
    r = re.compile(rx) if isinstance(rx, str) else rx
    return any(t == truth and r.fullmatch(a) for a, t in facts)


def ret_class(s, st):
    """Classify a Return statement's value in state st: 'OK', 'ERR', or 'UNKNOWN' for CK_RV functions;
    'true'/'false'/'UNKNOWN' for bool functions."""
    if '__ret' in st.aut:
        return st.aut['__ret']
    e = s.get('e')
    if e is None:
        return 'void'
    c = canon(e, st.env)
    if c in ('CKR_OK', '0'):
        return 'OK'
    if c.startswith('CKR_'):
        return 'ERR'
    if c in ('true', 'false'):
        return c
    # rv known to be (un)equal to CKR_OK through facts
    if ('EQ(%s,CKR_OK)' % c, True) in st.facts:
        return 'OK'
    if ('EQ(%s,CKR_OK)' % c, False) in st.facts:
        return 'ERR'
    for a, t in st.facts:
        if t and a.startswith('EQ(%s,CKR_' % c) and not a.endswith(',CKR_OK)'):
            return 'ERR'
    if (c, True) in st.facts:
        return 'true'
    if (c, False) in st.facts:
        return 'false'
    return 'UNKNOWN'


def check_shadowing(rule, fn, names):
    bad = nested_shadowing(fn) & set(names)
    if bad:
        rule.undecided(fn['qname'], 'shadowing', 'tracked variable(s) %s are re-declared in a nested scope' % sorted(bad), file=fn['file'], line=fn['line'])
        return False
    return True


def check_analysable(rule, fn):
    why = unanalysable(fn)
    if why:
        rule.undecided(fn['qname'], 'unanalysable', why, file=fn['file'], line=fn['line'])
        return False
    return True


def split_args(s):
    """Top-level comma split of 'a,f(b,c),d' -> ['a','f(b,c)','d']."""
    out, depth, cur = [], 0, ''
    quoted = False
    for ch in s:
        if ch == '"':
            quoted = not quoted
        if quoted:
            cur += ch
            continue
        if ch in '([{<' and not (ch == '<'):
            depth += 1
        elif ch in ')]}':
            depth -= 1
        if ch == ',' and depth == 0:
            out.append(cur)
            cur = ''
        else:
            cur += ch
    if cur or out:
        out.append(cur)
    return out


def parse_call(atom):
    """'f(a,g(b),c)' -> ('f', ['a','g(b)','c']) ; None if not of that shape."""
    m = re.match(r'^([A-Za-z_][\w@]*)\((.*)\)$', atom)
    if not m:
        return None
    return m.group(1), split_args(m.group(2))


def may_succeed(oc):
    """Can this Outcomes path return CKR_OK / true?  False only when the returned value is provably an error."""
    ret = oc['ret']
    if ret is None:
        return True
    if ret.startswith('CKR_'):
        return ret == 'CKR_OK'
    if oc.get('retv') is not None:
        return oc['retv'] == 0
    if ('EQ(%s,CKR_OK)' % ret, False) in oc['facts']:
        return False
    for a, t in oc['facts']:
        if t and a.startswith('EQ(%s,CKR_' % ret) and not a.endswith(',CKR_OK)'):
            return False
    return True


def macro_values(prog):
    """name -> {(value, file)} of every macro-spelled integer constant (all occurrences, per defining use site)."""
    if not hasattr(prog, '_macro_values'):
        m = {}
        for f in prog.functions.values():
            for n in walk(f['body']):
                if n.get('k') == 'Lit' and n.get('m'):
                    m.setdefault(n['m'], set()).add((n['v'], f['file']))
        for e in prog.enums.values():
            for en in e['enumerators']:
                m.setdefault(en['name'], set()).add((en['v'], e['file']))
        prog._macro_values = m
    return prog._macro_values


def helper_values(prog, fn, cenv):
    """cenv extended by the results of the file-local free helper functions fn calls, where the same finite-domain assignment decides them (one value on every path,
    no recorded effect).  Lets a finite-domain rule survive the extraction of a condition into a static helper."""
    out = dict(cenv)
    for c in calls(fn['body']):
        q = c.get('callee')
        if not q or '::' in q:
            continue
        gs = prog.fns(q)
        if len(gs) != 1 or gs[0].get('class') or gs[0]['file'] != fn['file'] or gs[0] is fn:
            continue
        g = gs[0]
        o = Outcomes(g, prog, cenv=cenv, record_calls=None)
        o.CAP = 64
        o.LOOP_ROUNDS = 1
        o.go()
        vals = {oc['retv'] for oc in o.outcomes}
        if len(vals) == 1 and None not in vals and not any(oc['events'] for oc in o.outcomes):
            out[re.compile(r'%s(@\d+)?\(.*\)' % re.escape(q))] = vals.pop()
    return out
