"""E4 — lock analysis over the fact trees: which mutex is held (lexically, RAII MutexLocker) at every field access and call,
caller-holds propagation, lock-order graph, split critical sections."""
from .facts import walk
from .interp import canon, short, is_pure_name


def locker_mutex(decl):
    """Mutex expression (canonical) of a `MutexLocker l(m)` / `MutexLocker l(cond ? NULL : m)` declaration, else None."""
    i = decl.get('init')
    if i is None or i.get('k') != 'Ctor' or not i.get('type', '').endswith('MutexLocker') or not i.get('args'):
        return None
    a = i['args'][0]
    if a.get('k') == 'Cond':
        for side in (a['t'], a['f']):
            if side.get('k') in ('Member', 'Var'):
                return canon(side), 'conditional'
        return None
    if a.get('k') in ('Member', 'Var'):
        return canon(a), 'plain'
    return None


class FnLocks:
    """Per function: accesses [(field fq, 'r'|'w', line, held frozenset)], calls [(call node, held)], scopes [(mutex, first line, last line)]."""

    def __init__(self, fn):
        self.fn = fn
        self.accesses = []
        self.calls = []
        self.scopes = []
        self.guards = {}            # id(call node) -> frozenset((bool param, truth)) under which the call is reached
        self.bools = {p['var']['name'] for p in fn.get('params', []) if p.get('type') == 'bool' and p.get('var')}
        self.G = frozenset()
        self.walk_block(fn['body'], frozenset())

    def param_guard(self, c):
        """(name, truth-in-then-branch) when the condition is `p`, `!p`, `p && ...` or `!p && ...` for a bool parameter p."""
        if c is None:
            return None
        if c.get('k') == 'Bin' and c.get('op') == '&&':
            return self.param_guard(c['a']) or self.param_guard(c['b'])
        if c.get('k') == 'Var' and c['name'] in self.bools:
            return (c['name'], True)
        if c.get('k') == 'Un' and c.get('op') == '!' and c['e'].get('k') == 'Var' and c['e']['name'] in self.bools:
            return (c['e']['name'], False)
        return None

    def walk_block(self, s, held):
        if s is None:
            return
        k = s.get('k')
        if k == 'Block':
            cur = held
            for c in s['body']:
                if c.get('k') == 'Decl':
                    for d in c['decls']:
                        lm = locker_mutex(d)
                        if lm:
                            self.expr(d.get('init'), cur)
                            cur = cur | {lm[0]}
                            g = self.G
                            if lm[1] == 'conditional':
                                cc = d['init']['args'][0]['c']
                                pg = self.param_guard(cc)
                                if pg and d['init']['args'][0]['f'].get('k') in ('Member', 'Var'):
                                    g = g | {(pg[0], not pg[1])}
                                elif pg:
                                    g = g | {pg}
                            self.scopes.append((lm[0], c['l'], s.get('el', c['l']), lm[1], g))
                        else:
                            self.expr(d.get('init'), cur)
                else:
                    self.walk_block(c, cur)
            return
        if k == 'If':
            self.expr(s['c'], held)
            pg = self.param_guard(s['c'])
            old = self.G
            if pg:
                self.G = old | {pg}
            self.walk_block(s['t'], held)
            self.G = old
            if pg and not (s['c'].get('k') == 'Bin'):
                self.G = old | {(pg[0], not pg[1])}
            self.walk_block(s.get('e'), held)
            self.G = old
        elif k in ('For', 'While', 'Do'):
            if s.get('init'):
                self.walk_block(s['init'], held)
            self.expr(s.get('c'), held)
            self.expr(s.get('inc'), held)
            self.walk_block(s['body'], held)
        elif k == 'Switch':
            self.expr(s['c'], held)
            self.walk_block(s['body'], held)
        elif k in ('Case', 'Default'):
            self.walk_block(s['sub'], held)
        elif k == 'Try':
            self.walk_block(s['body'], held)
            for h in s.get('handlers', []):
                self.walk_block(h['body'], held)
        elif k == 'Decl':
            for d in s['decls']:
                self.expr(d.get('init'), held)
        elif k == 'Return':
            self.expr(s.get('e'), held)
        elif k == 'Expr':
            self.expr(s['e'], held)

    def expr(self, e, held, write=False):
        if not isinstance(e, dict):
            return
        k = e.get('k')
        if k == 'Member' and e.get('base', {}).get('k') == 'This':
            self.accesses.append((e['fq'], 'w' if write else 'r', e['l'], held))
            return
        if k == 'Assign':
            self.expr(e['a'], held, write=True)
            self.expr(e['b'], held)
            return
        if k == 'Un' and e.get('op') in ('++', '--'):
            self.expr(e['e'], held, write=True)
            return
        if k == 'Call':
            self.calls.append((e, held))
            self.guards[id(e)] = self.G
            r = e.get('recv')
            if r is not None:
                mut = not e.get('const') and not is_pure_name(short(e.get('callee')))
                self.expr(r, held, write=mut)
            for a in e.get('args', []):
                self.expr(a, held)
            if e.get('fn') is not None:
                self.expr(e['fn'], held)
            return
        if k in ('Ctor', 'New'):
            self.calls.append((e, held))
            for a in e.get('args', []):
                self.expr(a, held)
            return
        if k == 'Delete':
            self.expr(e['e'], held, write=True)
            return
        if k in ('Index',):
            self.expr(e['base'], held, write)
            self.expr(e['idx'], held)
            return
        for key, v in e.items():
            if isinstance(v, dict):
                self.expr(v, held, write if key in ('base', 'e') else False)
            elif isinstance(v, list):
                for x in v:
                    self.expr(x, held)


def analyse(prog):
    if not hasattr(prog, '_locks'):
        prog._locks = {(f['qname'], f['sig']): FnLocks(f) for f in prog.functions.values()}
    return prog._locks


def consistent(call, fn, guards):
    """Can this call site reach code of fn guarded by `guards` (bool-parameter literals decide)?"""
    names = [p['var']['name'] if p.get('var') else None for p in fn.get('params', [])]
    for name, truth in guards:
        if name in names:
            i = names.index(name)
            if i < len(call.get('args', [])):
                a = call['args'][i]
                if a.get('k') == 'Lit' and a.get('b') is not None and bool(a.get('v')) != truth:
                    return False
    return True


def callers_hold(prog, target_q, mutex, cls, depth=3, seen=None, guards=frozenset()):
    """Do all call sites of method target_q (on `this`) that can reach code guarded by `guards` hold `mutex`?  Returns (bool, [witness])."""
    seen = seen or set()
    if target_q in seen or depth < 0:
        return False, ['recursion/depth at %s' % target_q]
    seen = seen | {target_q}
    L = analyse(prog)
    tfn = prog.fns(target_q)[0] if prog.fns(target_q) else None
    sites = []
    for (q, sig), fl in L.items():
        for c, held in fl.calls:
            if c.get('k') == 'Call' and c.get('callee') == target_q:
                sites.append((fl, c, held))
    if not sites:
        return False, ['no call site of %s found' % target_q]
    for fl, c, held in sites:
        if tfn is not None and not consistent(c, tfn, guards):
            continue
        rcv = c.get('recv')
        on_this = rcv is None or rcv.get('k') == 'This'
        if mutex in held and on_this:
            continue
        if fl.fn.get('mkind') in ('ctor', 'dtor'):
            continue
        if on_this and fl.fn.get('class') == cls:
            ok, w = callers_hold(prog, fl.fn['qname'], mutex, cls, depth - 1, seen, fl.guards.get(id(c), frozenset()))
            if ok:
                continue
            return False, ['%s calls %s at line %s without %s (%s)' % (fl.fn['qname'], target_q, c['l'], mutex, '; '.join(w))]
        return False, ['%s calls %s at line %s without holding %s' % (fl.fn['qname'], target_q, c['l'], mutex)]
    return True, []
