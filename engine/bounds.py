"""E8 — difference-bound entailment over the facts of one abstract state (no solver): a <= b holds iff b is reachable
from a in the graph whose edges come from comparison facts, equalities and a few lemmas."""
import re
from .rulelib import parse_call, split_args

_NUM = re.compile(r'-?\d+$')


def edges_from_facts(facts, env=None):
    le = {}

    def add(a, b):
        le.setdefault(a, set()).add(b)
    for atom, t in facts:
        if atom.startswith('LT('):
            pc = parse_call(atom)
            if not pc or len(pc[1]) != 2:
                continue
            a, b = pc[1]
            if t:
                add(a, b)          # a < b  =>  a <= b
                add(a + '+1', b)
                if _NUM.match(b):
                    add(a, str(int(b) - 1))
            else:
                add(b, a)          # !(a < b)  =>  b <= a
        elif atom.startswith('EQ(') and t:
            pc = parse_call(atom)
            if pc and len(pc[1]) == 2:
                a, b = pc[1]
                add(a, b)
                add(b, a)
        elif not t and atom.startswith('EQ(') and atom.endswith((',CK_INVALID_HANDLE)', ',0)', ',NULL_PTR)')):
            pc = parse_call(atom)
            if pc and len(pc[1]) == 2:
                add('1', pc[1][0])      # x != 0 (unsigned)  =>  1 <= x
        elif not t and not atom.startswith(('EQ(', 'LT(')):
            # "x" false  =>  x == 0
            add(atom, '0')
        elif t and not atom.startswith(('EQ(', 'LT(')):
            # "x" true (an unsigned quantity that is not zero)  =>  1 <= x
            add('1', atom)
    for k, v in (env or {}).items():
        add(k, v)
        add(v, k)
    # x % c == 0 and x != 0  =>  c <= x
    for atom, t in facts:
        m = None
        if not t and atom.startswith('(') and atom.endswith(')'):
            m = split_binop(atom, '%')
        elif t and atom.startswith('EQ(') and atom.endswith(',0)'):
            m = split_binop(atom[3:-3], '%')
        if m:
            x, c = strip_parens(m[0]), strip_parens(m[2])
            if (x, True) in facts or ('EQ(%s,0)' % x, False) in facts:
                add(c, x)
    return le


def strip_parens(s):
    while s.startswith('(') and s.endswith(')'):
        depth = 0
        ok = True
        for i, ch in enumerate(s):
            if ch == '(':
                depth += 1
            elif ch == ')':
                depth -= 1
                if depth == 0 and i != len(s) - 1:
                    ok = False
                    break
        if not ok:
            break
        s = s[1:-1]
    return s


def split_binop(s, ops):
    """Split 'a<op>b' at the top-level occurrence of one of ops (rightmost); None if not of that shape."""
    s = strip_parens(s)
    depth = 0
    for i in range(len(s) - 1, 0, -1):
        ch = s[i]
        if ch in ')]':
            depth += 1
        elif ch in '([':
            depth -= 1
        elif depth == 0 and ch in ops and s[i - 1] not in '<>=!&|+-*/%' and (i + 1 < len(s) and s[i + 1] not in '=&|>'):
            return s[:i], ch, s[i + 1:]
    return None


def split_ternary(s):
    """'c?x:y' at top level -> (c, x, y) (the colon of a `sizeof:N` token is not a separator); None otherwise."""
    s = strip_parens(s)
    depth = 0
    q = None
    for i, ch in enumerate(s):
        if ch in '([':
            depth += 1
        elif ch in ')]':
            depth -= 1
        elif depth == 0 and ch == '?' and q is None:
            q = i
        elif depth == 0 and ch == ':' and q is not None and not s[:i].endswith('sizeof') and s[i - 1:i + 2].count(':') == 1:
            return s[:q], s[q + 1:i], s[i + 1:]
    return None


def min_operands(s):
    """A conditional that selects the smaller of its two operands - (a>b)?b:a, (a>=b)?b:a, (a<b)?a:b, (a<=b)?a:b - is min(a,b): returns (a, b) or None."""
    t = split_ternary(s)
    if not t:
        return None
    c, x, y = (strip_parens(v) for v in t)
    for ops, swap in (('>', True), ('<', False)):
        sb = split_binop(c, ops)
        if sb:
            a, b = strip_parens(sb[0]), strip_parens(sb[2])
        else:
            m = re.fullmatch(r'(.+?)%s=(.+)' % ops, c)
            if not m or split_ternary(c):
                continue
            a, b = strip_parens(m.group(1)), strip_parens(m.group(2))
        lo, hi = (b, a) if swap else (a, b)     # value chosen when the condition holds / does not hold
        if x == lo and y == hi:
            return a, b
    return None


def entails_le(n, cap, facts, env=None, depth=0):
    """Do the facts entail n <= cap ?"""
    n, cap = strip_parens(n), strip_parens(cap)
    if n == cap:
        return True
    if _NUM.match(n) and _NUM.match(cap):
        return int(n) <= int(cap)
    if n == '0' or n.startswith('sizeof:') and cap.startswith('sizeof:') and int(n[7:]) <= int(cap[7:]):
        return True
    le = edges_from_facts(facts, env)
    norm = {}
    for a, bs in le.items():
        norm.setdefault(strip_parens(a), set()).update(strip_parens(b) for b in bs)
    seen, todo = {n}, [n]
    while todo:
        a = todo.pop()
        if a == cap:
            return True
        if _NUM.match(a) and _NUM.match(cap) and int(a) <= int(cap):
            return True
        if a.startswith('sizeof:') and _NUM.match(a[7:]) and _NUM.match(cap) and int(a[7:]) <= int(cap):     # sizeof:N is the constant N
            return True
        succ = set(norm.get(a, ()))
        if _NUM.match(a):
            succ.update(k for k in norm if _NUM.match(k) and int(a) <= int(k))
        # lemmas: x % c <= c ; min(a,b) <= a,b ; x/2 <= x ; a - b <= a (unsigned, b <= a checked elsewhere)
        sb = split_binop(a, '%')
        if sb:
            succ.add(strip_parens(sb[2]))
            succ.add(strip_parens(sb[0]))
        sb = split_binop(a, '/')
        if sb and _NUM.match(strip_parens(sb[2])) and int(strip_parens(sb[2])) >= 1:
            succ.add(strip_parens(sb[0]))
        mo = min_operands(a)
        if mo:
            # min(a,b) <= cap if one of the operands is: both are followed (the search is a reachability over <=, so either suffices)
            succ.update(mo)
        pc = parse_call(a)
        if pc and pc[0] in ('min',):
            succ.update(strip_parens(x) for x in pc[1])
        for b in succ:
            if b not in seen:
                seen.add(b)
                todo.append(b)
    # cap = x + c with n <= x
    sb = split_binop(cap, '+')
    if sb and depth < 2:
        if entails_le(n, sb[0], facts, env, depth + 1) or entails_le(n, sb[2], facts, env, depth + 1):
            return True
    return False
