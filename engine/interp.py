"""Path-sensitive abstract interpreter over the normalised fact trees (engines E2/E3 of DESIGN.md).

State = (env, facts, aut, path)
  env   : canonical lvalue string -> canonical value string (constant or symbolic) ; absent = unknown
  facts : set of (atom, truth) that hold on the current path; atoms are canonical expression strings,
          comparisons are normalised to EQ(a,b) / LT(a,b)
  aut   : rule-owned automaton state (dict of hashable values)
  path  : the branch decisions taken (line, outcome) — diagnostics only, not part of the state key

A *configuration* is a list of states.  States are de-duplicated exactly; when a configuration grows
beyond CAP states they are merged ESP-style: states that agree on the automaton state and on the
tracked variables are joined (facts intersected, differing env entries dropped).

Nothing here executes SoftHSM code: values are names, calls are uninterpreted symbols.
"""
import re
import collections
from .facts import walk

FALSEY = {'0', 'CK_FALSE', 'NULL', 'NULL_PTR', 'false', 'nullptr'}
TRUTHY = {'CK_TRUE', 'true'}
CONST_RE = re.compile(r'^(CK[A-Z]?_[A-Z_0-9a-z]+|SESSION_OP_[A-Z_]+|OBJECT_OP_[A-Z]+|-?\d+|true|false|NULL|[A-Za-z]+::[A-Za-z_0-9:]+)$')
ID_RE = re.compile(r'[A-Za-z_][A-Za-z_0-9]*')
IT_RE = re.compile(r'^#it\((\w+),(\d+)\)$')
PURE_PREFIX = ('get', 'is', 'have', 'has')
PURE_NAMES = {'size', 'attributeExists', 'length', 'empty', 'byte_str', 'const_byte_str', 'find', 'end', 'begin',
              'bits', 'long_val', 'substr', 'count', 'c_str', 'at', 'operator[]', 'operator==', 'operator!=',
              'operator*', 'operator->', 'min', 'max', 'sizeof', 'checkValue'}


def ids(s):
    return set(ID_RE.findall(s))


_mention_cache = {}


def mentions(s, term):
    """Does the canonical string s mention the lvalue term as a whole token sequence (not as a prefix of a longer name)?"""
    rx = _mention_cache.get(term)
    if rx is None:
        rx = _mention_cache[term] = re.compile(r'(?<![\w])' + re.escape(term) + r'(?![\w])')
    return rx.search(s) is not None


def short(callee):
    return (callee or 'indirect').split('::')[-1]


def is_pure_name(name):
    return name in PURE_NAMES or any(name.startswith(p) and (len(name) == len(p) or name[len(p)].isupper() or name[len(p)] == '_') for p in PURE_PREFIX)


def canon(e, env=None):
    """Canonical string of an expression; local variables are replaced by their symbolic value."""
    if e is None:
        return '?'
    k = e.get('k')
    if k == 'Var':
        n = e['name']
        if env is not None and e['kind'] in ('local', 'param'):
            v = env.get(n)
            if v is not None:
                return v
        if e['kind'] == 'enum':
            return e.get('qname', n)
        return n
    if k == 'Lit':
        if e.get('b'):
            return 'true' if e['v'] else 'false'
        return e.get('m') or str(e['v'])
    if k == 'Null':
        return 'NULL'
    if k == 'This':
        return 'this'
    if k == 'Str':
        return '"%s"' % e.get('s', '')
    if k == 'Member':
        b = canon(e['base'], env)
        return e['field'] if b == 'this' else b + '.' + e['field']
    if k == 'Call':
        c = short(e.get('callee'))
        parts = []
        if e.get('recv') is not None:
            parts.append(canon(e['recv'], env))
        parts += [canon(a, env) for a in e.get('args', [])]
        if env is not None and c in ('begin', 'end', 'operator*', 'operator->', 'operator[]') and parts:
            # small concrete vectors (modelled by 'size(x)' = n and 'operator[](x,k)' entries in the environment): iterators are '#it(x,k)'
            if c in ('begin', 'end') and len(parts) == 1 and str(env.get('size(%s)' % parts[0], '')).isdigit() and ('operator[](%s,0)' % parts[0]) in env:
                return '#it(%s,%s)' % (parts[0], 0 if c == 'begin' else env['size(%s)' % parts[0]])
            m = IT_RE.match(parts[0])
            if c in ('operator*', 'operator->') and m and ('operator[](%s,%s)' % m.groups()) in env:
                return env['operator[](%s,%s)' % m.groups()]
        if not is_pure_name(c):
            return '%s@%s(%s)' % (c, e.get('l'), ','.join(parts))
        r = c + '(' + ','.join(parts) + ')'
        if env is not None and r in env:
            return env[r]       # e.g. size(x) after x.resize(n)
        return r
    if k == 'Un':
        if e['op'] == '*':
            inner = canon(e['e'], None)
            key = '*' + inner
            if env is not None and env.get(key) is not None:
                return env[key]
            v = canon(e['e'], env)
            m = IT_RE.match(v) if env is not None else None
            if m and ('operator[](%s,%s)' % m.groups()) in env:
                return env['operator[](%s,%s)' % m.groups()]
            return '*' + v
        return e['op'] + canon(e['e'], env)
    if k in ('Bin', 'Assign'):
        return '(' + canon(e['a'], env) + e['op'] + canon(e['b'], env) + ')'
    if k == 'Index':
        return canon(e['base'], env) + '[' + canon(e['idx'], env) + ']'
    if k == 'Cond':
        return '(' + canon(e['c'], env) + '?' + canon(e['t'], env) + ':' + canon(e['f'], env) + ')'
    if k == 'Sizeof':
        return 'sizeof:%s' % e.get('v')
    if k == 'Ctor':
        return 'Ctor<%s>(' % e.get('type', '') + ','.join(canon(a, env) for a in e.get('args', [])) + ')'
    if k == 'New':
        return 'new@%s<%s>' % (e.get('l'), e.get('type', ''))
    if k == 'Init':
        return '{' + ','.join(canon(a, env) for a in e.get('args', [])) + '}'
    return (k or '?') + '@%s' % e.get('l')


INT_CASTS = {'long': (64, True), 'long long': (64, True), 'ssize_t': (64, True), 'int64_t': (64, True), 'off_t': (64, True), 'CK_LONG': (64, True), 'long int': (64, True),
             'unsigned long': (64, False), 'size_t': (64, False), 'CK_ULONG': (64, False), 'uint64_t': (64, False), 'unsigned long long': (64, False), 'unsigned long int': (64, False),
             'int': (32, True), 'int32_t': (32, True), 'unsigned int': (32, False), 'uint32_t': (32, False), 'unsigned': (32, False),
             'short': (16, True), 'unsigned short': (16, False), 'uint16_t': (16, False),
             'unsigned char': (8, False), 'uint8_t': (8, False), 'CK_BYTE': (8, False), 'CK_BBOOL': (8, False), 'signed char': (8, True), 'char': (8, True)}


class St:
    __slots__ = ('env', 'facts', 'aut', 'path')

    def __init__(self, env=None, facts=None, aut=None, path=()):
        self.env = dict(env or {})
        self.facts = set(facts or ())
        self.aut = dict(aut or {})
        self.path = path

    def copy(self):
        return St(self.env, self.facts, self.aut, self.path)

    def akey(self):
        return frozenset(self.aut.items())

    def key(self):
        return (frozenset(self.aut.items()), frozenset(self.env.items()), frozenset(self.facts))

    def step(self, line, what):
        p = self.path
        if len(p) < 80:
            self.path = p + ((line, what),)

    def has(self, atom, truth=True):
        return (atom, truth) in self.facts

    def show_path(self):
        return ' '.join('%s:%s' % (l, w) for l, w in self.path)


def freeze(st, k):
    """Variable k holds a value computed from something that is about to change: from now on the value is named by
    the variable itself.  Facts and other values that mention the old symbolic value are rewritten, not lost."""
    v = st.env.pop(k, None)
    if v is None or k.startswith('*') or len(v) < 4 or CONST_RE.match(v):
        return
    m = re.fullmatch(r'\((.*)%(\d+)\)', v)
    if m and ID_RE.fullmatch(k):
        st.facts.add(('LT(%s,%s)' % (k, m.group(2)), True))      # the value was a remainder: it stays below the modulus
    if any(v in a for a, _ in st.facts):
        st.facts = {(a.replace(v, k), t) for a, t in st.facts}
    for k2, v2 in list(st.env.items()):
        if v in v2:
            st.env[k2] = v2.replace(v, k)


def kill(st, name):
    """A variable (or lvalue string) is overwritten: drop its value and everything that mentions it."""
    st.env.pop(name, None)
    st.env.pop('*' + name, None)
    if ID_RE.fullmatch(name):
        for k in [k for k in st.env if '(' in k and name in ids(k)]:
            del st.env[k]       # derived keys such as size(name)
        for k, v in list(st.env.items()):
            if k in st.env and (name in ids(v) or (k != name and name in ids(k) and k.startswith('*'))):
                freeze(st, k)
        st.facts = {f for f in st.facts if name not in ids(f[0])}
    else:
        for k, v in list(st.env.items()):
            if k in st.env and mentions(v, name):
                freeze(st, k)
        st.facts = {f for f in st.facts if not mentions(f[0], name)}


class Interp:
    """Subclass and override the hooks:
         on_call(e, st)            every call, after its arguments were evaluated
         on_assign(lhs, rhs, st)   every assignment / initialised declaration
         on_return(s, st)          every return statement (st = state reaching it)
         on_exit(st)               fall-off-the-end of the function
         on_fact(atom, truth, st)  a new fact is assumed on a branch edge
         on_atom(atom, st)         -> True/False/None   force the outcome of an atom
         on_stmt(s, states)        before each statement
    """
    CAP = 64
    TRACK = ('rv', 'bOK')
    LOOP_ROUNDS = 4

    def __init__(self, fn, prog=None):
        self.fn = fn
        self.prog = prog
        self.paths_returned = 0
        self.merged = 0
        self._quiet_cache = {}
        self.types = {}
        for p in fn.get('params', []):
            self.types[p['var']['name']] = p['type']

    # ---- policy -------------------------------------------------------------------------
    SUBST_POINTERS = False
    track_facts = None     # compiled regex: facts whose atom matches are part of the ESP merge key

    def track(self, name, val, rhs):
        """May the symbolic value `val` be stored for variable `name`?  Objects reached through pointers keep
        their variable name (rules identify them through rulelib.handle_objects); scalars and values are substituted."""
        if not self.SUBST_POINTERS and self.is_pointer(name.lstrip('*')) and not name.startswith('*'):
            return val in ('NULL', 'NULL_PTR', '0', 'nullptr')
        t = self.types.get(name, '').replace('const ', '').rstrip('& ')
        if t in ('ByteString', 'std::string') or (t.startswith('std::') and 'iterator' not in t):
            return False        # mutable containers keep their name (size(x) facts are keyed by it)
        if rhs is not None and rhs.get('k') == 'Ctor' and rhs.get('type', '').replace('const ', '') not in ('OSAttribute',):
            return False        # objects with identity (File f(...), MutexLocker l(...)) keep their name; OSAttribute is a value
        return True

    def on_call(self, e, st): pass
    def pre_call(self, e, st): pass      # before the call's side effects on its arguments/receiver are applied
    def pre_assign(self, lhs, rhs, st): pass   # before the side effects of the lvalue (arr[i++]) are applied
    def on_assign(self, lhs, rhs, st): pass
    def on_delete(self, e, st): pass
    def on_return(self, s, st): pass
    def on_exit(self, st): pass
    def on_fact(self, atom, truth, st): pass
    def on_atom(self, atom, st): return None
    def on_stmt(self, s, states): pass

    # ---- expression effects ---------------------------------------------------------------
    def effects(self, e, st):
        """Evaluate an expression for its side effects on the abstract state (no branching)."""
        if not isinstance(e, dict):
            return
        k = e.get('k')
        if k == 'Assign':
            self.effects(e['b'], st)
            self.pre_assign(e['a'], e['b'], st)
            if e['a'].get('k') != 'Var':
                self.effects_lvalue(e['a'], st)
            self.assign(e['a'], e['b'], st, e['op'])
            return
        if k == 'Call':
            if e.get('recv') is not None:
                self.effects(e['recv'], st)
            for a in e.get('args', []):
                self.effects(a, st)
            if e.get('fn') is not None:
                self.effects(e['fn'], st)
            self.pre_call(e, st)
            if short(e.get('callee')) in ('operator++', 'operator--') and e.get('recv') is not None and e['recv'].get('k') == 'Var' \
                    and self.step_var(e['recv']['name'], 1 if short(e['callee']) == 'operator++' else -1, st):
                return
            self.havoc_args(e, st)
            self.container_model(e, st)
            self.on_call(e, st)
            return
        if k in ('Ctor', 'New'):
            for a in e.get('args', []):
                self.effects(a, st)
            self.havoc_args(e, st)
            self.on_call(e, st)
            return
        if k == 'Delete':
            self.effects(e.get('e'), st)
            self.on_delete(e, st)
            return
        if k == 'Un' and e['op'] in ('++', '--'):
            self.effects(e['e'], st)
            if e['e'].get('k') == 'Var':
                if self.step_var(e['e']['name'], 1 if e['op'] == '++' else -1, st):
                    return
                kill(st, e['e']['name'])
            else:
                kill(st, canon(e['e']))
            return
        for key, v in e.items():
            if isinstance(v, dict):
                self.effects(v, st)
            elif isinstance(v, list):
                for x in v:
                    self.effects(x, st)

    def effects_lvalue(self, e, st):
        k = e.get('k')
        if k == 'Index':
            self.effects(e['base'], st)
            self.effects(e['idx'], st)
        elif k == 'Member':
            self.effects(e['base'], st)
        elif k == 'Un':
            self.effects(e['e'], st)
        else:
            self.effects(e, st)

    def havoc_args(self, e, st):
        pm = e.get('pm', '')
        for i, a in enumerate(e.get('args', [])):
            if a is None:
                continue
            m = pm[i] if i < len(pm) else 'v'
            if a.get('k') == 'Un' and a['op'] == '&':
                t = a['e']
                if m in ('p', 'v', 'm'):
                    kill(st, t['name'] if t.get('k') == 'Var' else canon(t))
            elif m == 'm':
                kill(st, a['name'] if a.get('k') == 'Var' else canon(a))
            elif m == 'p' and a.get('k') == 'Var' and a['kind'] in ('local', 'param'):
                # pointee may be written: forget *p and facts about it
                nm = a['name']
                st.env.pop('*' + nm, None)
                for k2, v2 in list(st.env.items()):
                    if k2 in st.env and mentions(v2, '*' + nm):
                        freeze(st, k2)
                st.facts = {f for f in st.facts if not mentions(f[0], '*' + nm)}
                if self.is_array(nm):
                    kill(st, nm)
        # non-const method on this object (implicit or explicit this, also a qualified base-class call): the fields the callee may write change
        r = e.get('recv')
        if e.get('k') == 'Call' and e.get('own') and not e.get('const') and (r is None or r.get('k') == 'This') and self.prog is not None and e.get('callee') and self.fn.get('class'):
            for fld in self.this_modset(e['callee']):
                if fld in st.env or any(mentions(f[0], fld) for f in st.facts) or any(mentions(v, fld) for v in st.env.values()):
                    kill(st, fld)
        # non-const method on a local object (not through a pointer): the object changes
        if e.get('k') == 'Call' and r is not None and not e.get('const') and r.get('k') == 'Var' \
                and r['kind'] in ('local', 'param') and not self.is_pointer(r['name']):
            c = short(e.get('callee'))
            if not is_pure_name(c):
                kill(st, r['name'])

    def step_var(self, name, delta, st):
        """i++ on a variable whose abstract value is a concrete number or an iterator into a modelled vector: compute instead of forgetting."""
        v = st.env.get(name)
        if v is None or not (self.cenv is not None and self.cenv.get('#concrete-loops')):
            return False
        if re.fullmatch(r'-?\d+', str(v)):
            nv = str(int(v) + delta)
        else:
            m = IT_RE.match(str(v))
            if not m:
                return False
            nv = '#it(%s,%d)' % (m.group(1), int(m.group(2)) + delta)
        st.facts = {f for f in st.facts if not mentions(f[0], name)}
        st.env[name] = nv
        return True

    def this_modset(self, qname, depth=3, seen=None):
        """Short names of the fields of *this that the method qname may write (assignments, ++/--, non-const calls on a field, delete), transitively through own calls."""
        memo = self.prog.__dict__.setdefault('_this_modsets', {})
        if qname in memo:
            return memo[qname]
        seen = seen if seen is not None else set()
        out = set()
        if qname in seen or depth < 0:
            return out
        seen.add(qname)
        for f in self.prog.fns(qname):
            # local references bound to (an element of) a field: a write through the reference is a write of the field
            refs = {}
            for n in walk(f['body']):
                if n.get('k') == 'Decl':
                    for d in n['decls']:
                        if d.get('type', '').rstrip().endswith('&') and not d.get('type', '').startswith('const ') and d.get('init') is not None:
                            b = d['init']
                            while b is not None and (b.get('k') in ('Index', 'Paren', 'Cast') or (b.get('k') == 'Call' and short(b.get('callee')) == 'operator[]')):
                                b = b.get('base') or b.get('recv') or b.get('e')
                            if b is not None and b.get('k') == 'Member' and b.get('base', {}).get('k') == 'This':
                                refs[d['var']['name']] = b['field']
            for n in walk(f['body']):
                k = n.get('k')
                t = None
                if k == 'Assign':
                    t = n['a']
                elif k == 'Un' and n.get('op') in ('++', '--'):
                    t = n['e']
                elif k == 'Delete':
                    t = n['e']
                elif k == 'Call':
                    rc = n.get('recv')
                    if rc is not None and rc.get('k') == 'Member' and rc.get('base', {}).get('k') == 'This' and not n.get('const') and not is_pure_name(short(n.get('callee'))) and not rc.get('arrow'):
                        out.add(rc['field'])
                    if n.get('own') and n.get('callee') and (rc is None or rc.get('k') == 'This') and not n.get('const'):
                        out |= self.this_modset(n['callee'], depth - 1, seen)
                    for a in n.get('args', []):
                        if a is not None and a.get('k') == 'Un' and a.get('op') == '&' and a['e'].get('k') == 'Member' and a['e'].get('base', {}).get('k') == 'This':
                            out.add(a['e']['field'])
                while t is not None and (t.get('k') in ('Index', 'Paren') or (t.get('k') == 'Call' and short(t.get('callee')) == 'operator[]')):
                    t = t.get('base') or t.get('recv') or t.get('e')
                if t is not None and t.get('k') == 'Member' and t.get('base', {}).get('k') == 'This':
                    out.add(t['field'])
                elif t is not None and t.get('k') == 'Var' and t.get('name') in refs:
                    out.add(refs[t['name']])
        if depth == 3:
            memo[qname] = out
        return out

    def container_model(self, e, st):
        """x.resize(n) / x.wipe(n): afterwards x.size() == n (ByteString / std::vector API)."""
        r = e.get('recv')
        c = short(e.get('callee'))
        if c == 'generateRandom' and len(e.get('args', [])) == 2 and e['args'][0] is not None and e['args'][0].get('k') == 'Var':
            st.env['size(%s)' % e['args'][0]['name']] = canon(e['args'][1], st.env)
            return
        if c == 'push_back' and r is not None and len(e.get('args', [])) == 1 and e['args'][0] is not None:
            # a concretely modelled small vector grows by one element
            nm = canon(r, st.env)
            sz = str(st.env.get('size(%s)' % nm, ''))
            if sz.isdigit() and (int(sz) == 0 or ('operator[](%s,0)' % nm) in st.env):
                st.env['operator[](%s,%s)' % (nm, sz)] = canon(e['args'][0], st.env)
                st.env['size(%s)' % nm] = str(int(sz) + 1)
            return
        if r is None or r.get('k') != 'Var' or r['kind'] not in ('local', 'param'):
            return
        if c in ('resize', 'wipe') and len(e.get('args', [])) >= 1 and e['args'][0] is not None:
            st.env['size(%s)' % r['name']] = canon(e['args'][0], st.env)
            return
        # rng->generateRandom(x, n): x.size() == n afterwards (RNG interface contract: data.resize(len))
        if c == 'generateRandom' and len(e.get('args', [])) == 2 and e['args'][0].get('k') == 'Var':
            st.env['size(%s)' % e['args'][0]['name']] = canon(e['args'][1], st.env)
        elif c == 'wipe' and not e.get('args'):
            pass

    def is_pointer(self, name):
        t = self.types.get(name, '')
        return t.endswith('*') or t.endswith('_PTR') or t.endswith('* const')

    def is_array(self, name):
        return self.types.get(name, '').endswith(']')

    def model_key(self, lhs, st):
        """Environment key of an element of a modelled small vector that `lhs` denotes (x[k], *it), else None."""
        k = lhs.get('k')
        if k == 'Un' and lhs.get('op') == '*':
            m = IT_RE.match(canon(lhs['e'], st.env))
        elif k == 'Call' and short(lhs.get('callee')) == 'operator*' and (lhs.get('recv') is not None or lhs.get('args')):
            m = IT_RE.match(canon(lhs.get('recv') or lhs['args'][0], st.env))
        elif k == 'Call' and short(lhs.get('callee')) == 'operator[]' and lhs.get('recv') is not None and lhs.get('args'):
            key = 'operator[](%s,%s)' % (canon(lhs['recv'], st.env), canon(lhs['args'][0], st.env))
            return key if key in st.env else None
        elif k == 'Index':
            key = 'operator[](%s,%s)' % (canon(lhs['base'], st.env), canon(lhs['idx'], st.env))
            return key if key in st.env else None
        else:
            return None
        if m and ('operator[](%s,%s)' % m.groups()) in st.env:
            return 'operator[](%s,%s)' % m.groups()
        return None

    def assign(self, lhs, rhs, st, op='='):
        mk = self.model_key(lhs, st) if lhs.get('k') != 'Var' else None
        if mk is not None and op == '=' and rhs is not None:
            st.env[mk] = canon(rhs, st.env)
            self.on_assign(lhs, rhs, st)
            return
        if lhs.get('k') == 'Var' and lhs['kind'] in ('local', 'param'):
            n = lhs['name']
            val = canon(rhs, st.env) if (op == '=' and rhs is not None) else None
            if val is not None and self.cenv is not None and rhs.get('k') not in ('Lit', 'Null') and not self.is_pointer(n):
                v = self.ceval(rhs, st)
                if v is not None:
                    val = str(v)
            kill(st, n)
            if val is not None and n not in ids(val) and self.track(n, val, rhs):
                st.env[n] = val
        elif lhs.get('k') == 'Un' and lhs['op'] == '*' and lhs['e'].get('k') == 'Var':
            key = '*' + lhs['e']['name']
            val = canon(rhs, st.env) if (op == '=' and rhs is not None) else None
            st.env.pop(key, None)
            for k2, v2 in list(st.env.items()):
                if k2 in st.env and mentions(v2, key):
                    freeze(st, k2)
            st.facts = {f for f in st.facts if not mentions(f[0], key)}
            if val is not None and not mentions(val, key) and self.track(key, val, rhs):
                st.env[key] = val
        else:
            c = canon(lhs)
            st.facts = {f for f in st.facts if not mentions(f[0], c)}
            for k2, v in list(st.env.items()):
                if k2 in st.env and mentions(v, c):
                    freeze(st, k2)
        self.on_assign(lhs, rhs, st)

    # ---- finite-domain evaluation (E1): some leaves are given concrete values by the rule ----------
    cenv = None      # canonical leaf string -> int
    cenv_rx = ()     # [(compiled regex over canonical strings, int)]

    def ceval(self, e, st):
        """Concrete value of an expression under self.cenv, or None if it depends on anything else.  An explicit cast to an integer type wraps the value into that type (LP64)."""
        v = self.ceval_raw(e, st)
        if v is not None and isinstance(e, dict) and e.get('cast') and isinstance(v, int) and not isinstance(v, bool):
            w = INT_CASTS.get(e['cast'].replace('const ', '').strip())
            if w is not None:
                bits, signed = w
                v &= (1 << bits) - 1
                if signed and v >= 1 << (bits - 1):
                    v -= 1 << bits
        return v

    def ceval_raw(self, e, st):
        if e is None:
            return None
        k = e.get('k')
        if k == 'Lit':
            return e['v']
        if k == 'Null':
            return 0
        if k == 'Sizeof':
            return e.get('v')
        if k == 'Var' and e['kind'] == 'enum':
            return e['v']
        if k == 'Call' and short(e.get('callee')) in ('operator!=', 'operator==') and (len(e.get('args', [])) + (1 if e.get('recv') is not None else 0)) == 2:
            ops = ([e['recv']] if e.get('recv') is not None else []) + list(e.get('args', []))
            a, b = IT_RE.match(canon(ops[0], st.env)), IT_RE.match(canon(ops[1], st.env))
            if a and b and a.group(1) == b.group(1):
                eq = a.group(2) == b.group(2)
                return int(eq if short(e['callee']) == 'operator==' else not eq)
        c = canon(e, st.env)
        if c in self.cenv:
            return self.cenv[c]
        for rx, v in self.cenv_rx:
            if rx.fullmatch(c):
                return v
        if k == 'Call' and short(e.get('callee')) in ('operator==', 'operator!='):
            # the rule fixed the complementary comparison (x == end  vs  x != end): use its negation, so that rules do not depend on which form the code uses
            alt = ('operator!=' if short(e['callee']) == 'operator==' else 'operator==') + c[len('operator=='):]
            if alt in self.cenv:
                return int(not self.cenv[alt])
            for rx, v in self.cenv_rx:
                if rx.fullmatch(alt):
                    return int(not v)
        if c in ('true', 'CK_TRUE'):
            return 1
        if c in FALSEY:
            return 0
        if re.fullmatch(r'-?\d+', c):
            return int(c)
        if k == 'Var' and e['kind'] in ('local', 'param'):
            return self.cenv.get(e['name'])
        if k == 'Un':
            a = self.ceval(e['e'], st)
            if a is None:
                return None
            return {'!': int(not a), '~': ~a & 0xFFFFFFFFFFFFFFFF, '-': -a, '+': a}.get(e['op'])
        if k == 'Bin':
            op = e['op']
            a = self.ceval(e['a'], st)
            if op == '&&':
                if a is not None and not a:
                    return 0
                b = self.ceval(e['b'], st)
                if b is not None and not b:
                    return 0 if a is not None else None
                return None if a is None or b is None else 1
            if op == '||':
                if a is not None and a:
                    return 1
                b = self.ceval(e['b'], st)
                if b is not None and b:
                    return 1 if a is not None else None
                return None if a is None or b is None else 0
            b = self.ceval(e['b'], st)
            if a is None or b is None:
                return None
            try:
                if op in ('<<', '>>') and not (0 <= b < 128):
                    return None
                f_ = {'==': lambda: int(a == b), '!=': lambda: int(a != b), '<': lambda: int(a < b), '>': lambda: int(a > b), '<=': lambda: int(a <= b), '>=': lambda: int(a >= b),
                      '&': lambda: a & b, '|': lambda: a | b, '^': lambda: a ^ b, '+': lambda: a + b, '-': lambda: a - b, '*': lambda: a * b, '<<': lambda: a << b, '>>': lambda: a >> b,
                      '/': lambda: (a // b if a >= 0 and b > 0 else None), '%': lambda: (a % b if a >= 0 and b > 0 else None)}.get(op)
                return f_() if f_ else None
            except Exception:
                return None
        if k == 'Cond':
            c0 = self.ceval(e['c'], st)
            if c0 is None:
                return None
            return self.ceval(e['t'] if c0 else e['f'], st)
        return None

    # ---- conditions -----------------------------------------------------------------------
    def is_cond(self, e):
        """Expression whose value is a truth value worth splitting on when assigned."""
        k = e.get('k')
        return (k == 'Bin' and e['op'] in ('&&', '||', '==', '!=', '<', '>', '<=', '>=')) or (k == 'Un' and e['op'] == '!')

    def evalc(self, e, st):
        """Yield (state, truth) for every way the condition can evaluate (short-circuit order)."""
        k = e.get('k')
        if self.cenv is not None and not (k == 'Un' and e['op'] == '!') and not (k == 'Bin' and e['op'] in ('&&', '||')):
            v = self.ceval(e, st)
            if v is not None:
                s2 = st.copy()
                self.effects(e, s2)      # the calls inside the condition still happen
                yield s2, bool(v)
                return
        if k == 'Un' and e['op'] == '!':
            for s, t in self.evalc(e['e'], st):
                yield s, (not t)
            return
        if k == 'Bin' and e['op'] == '&&':
            for s, t in self.evalc(e['a'], st):
                if not t:
                    yield s, False
                else:
                    yield from self.evalc(e['b'], s)
            return
        if k == 'Bin' and e['op'] == '||':
            for s, t in self.evalc(e['a'], st):
                if t:
                    yield s, True
                else:
                    yield from self.evalc(e['b'], s)
            return
        if k == 'Assign':   # (x = f()) used as a condition
            s2 = st.copy()
            self.effects(e, s2)
            yield from self.atom(canon(e['a'], s2.env), s2)
            return
        if k == 'Bin' and e['op'] in ('==', '!='):
            s2 = st.copy()
            self.effects(e['a'], s2)
            self.effects(e['b'], s2)
            a, b = canon(e['a'], s2.env), canon(e['b'], s2.env)
            neg = e['op'] == '!='
            if a in FALSEY | TRUTHY and b not in FALSEY | TRUTHY:
                a, b = b, a
            if CONST_RE.match(a) and CONST_RE.match(b) and (a in FALSEY) == (b in FALSEY) and not (a in FALSEY and b in FALSEY):
                r = (a == b)
                yield s2, ((not r) if neg else r)
                return
            if a in FALSEY | TRUTHY and b in FALSEY | TRUTHY:
                r = (a in FALSEY) == (b in FALSEY)
                yield s2, ((not r) if neg else r)
                return
            if b in FALSEY:
                atom, flip = a, True
            elif b in TRUTHY:
                atom, flip = a, False
            else:
                if CONST_RE.match(a) and not CONST_RE.match(b):
                    a, b = b, a
                atom, flip = 'EQ(' + a + ',' + b + ')', False
            for s, t in self.atom(atom, s2):
                r = (not t) if flip else t
                yield s, ((not r) if neg else r)
            return
        if k == 'Bin' and e['op'] in ('<', '>', '<=', '>='):
            s2 = st.copy()
            self.effects(e['a'], s2)
            self.effects(e['b'], s2)
            a, b = canon(e['a'], s2.env), canon(e['b'], s2.env)
            op = e['op']
            if op in ('>', '<='):
                a, b = b, a        # a > b == b < a ; a <= b == !(b < a)
            flip = op in ('<=', '>=')
            if re.fullmatch(r'-?\d+', a) and re.fullmatch(r'-?\d+', b):
                r = int(a) < int(b)
                yield s2, ((not r) if flip else r)
                return
            for s, t in self.atom('LT(' + a + ',' + b + ')', s2):
                yield s, ((not t) if flip else t)
            return
        if k == 'Lit':
            yield st, bool(e['v'])
            return
        s2 = st.copy()
        self.effects(e, s2)
        c = canon(e, s2.env)
        if c in TRUTHY:
            yield s2, True
            return
        if c in FALSEY:
            yield s2, False
            return
        if CONST_RE.match(c) and not c.startswith('-') and c not in ('CK_INVALID_HANDLE',):
            # a known non-zero constant
            if re.fullmatch(r'\d+', c):
                yield s2, int(c) != 0
                return
        yield from self.atom(c, s2)

    EQ_RE = re.compile(r'^EQ\((.*),([^,()]+)\)$')

    NE_RE = re.compile(r'^operator!=((?:@\d+)?\()')

    def atom(self, atom, st):
        if self.NE_RE.match(atom):
            # x != y is decided as !(x == y): one atom per comparison, so that a path cannot take both 'x != y' and 'x == y'
            for s, t in self.atom(self.NE_RE.sub(r'operator==\1', atom, 1), st):
                yield s, (not t)
            return
        if (atom, True) in st.facts:
            yield st, True
            return
        if (atom, False) in st.facts:
            yield st, False
            return
        m = self.EQ_RE.match(atom)
        if m and CONST_RE.match(m.group(2)):
            pre = 'EQ(' + m.group(1) + ','
            for a, t in st.facts:
                if t and a.startswith(pre) and a != atom:
                    m2 = self.EQ_RE.match(a)
                    if m2 and m2.group(1) == m.group(1) and CONST_RE.match(m2.group(2)):
                        yield st, False      # already known equal to a different constant
                        return
        forced = self.on_atom(atom, st)
        if forced is not None:
            yield st, forced
            return
        a = st.copy()
        a.facts.add((atom, True))
        self.on_fact(atom, True, a)
        yield a, True
        b = st.copy()
        b.facts.add((atom, False))
        self.on_fact(atom, False, b)
        yield b, False

    # ---- configurations ---------------------------------------------------------------------
    def dedup(self, states):
        groups = collections.OrderedDict()
        for st in states:
            groups.setdefault(st.key(), st)
        out = list(groups.values())
        if len(out) <= self.CAP:
            return out
        g2 = collections.OrderedDict()
        for st in out:
            k = (st.akey(), frozenset((k, v) for k, v in st.env.items() if k in self.TRACK),
                 frozenset(f for f in st.facts if self.track_facts.search(f[0])) if self.track_facts is not None else ())
            if k in g2:
                m = g2[k]
                m.facts &= st.facts
                for kk in list(m.env):
                    if st.env.get(kk) != m.env[kk]:
                        del m.env[kk]
                self.merged += 1
            else:
                g2[k] = st.copy()
        return list(g2.values())

    def assign_split(self, lhs, rhs, states):
        """x = <condition>: split into x=true / x=false states."""
        out = []
        name = lhs['name']
        for st in states:
            for ns, t in self.evalc(rhs, st):
                ns = ns.copy()
                kill(ns, name)
                ns.env[name] = 'true' if t else 'false'
                self.on_assign(lhs, rhs, ns)
                out.append(ns)
        return out

    # ---- summarising regions that cannot matter to the rule (speed; enabled per analysis with QUIET=True) ------------
    QUIET = False

    def interesting_call(self, e):
        """Calls the rule observes; a region without any of them (and without writes to tracked variables) is summarised."""
        return True

    def quiet_info(self, s):
        """None if the statement must be interpreted; else (assigned lvalues, [Return statements inside])."""
        c = self._quiet_cache.get(id(s))
        if c is not None:
            return c if c != 0 else None
        assigned, returns = set(), []
        ok = True
        loop = s['k'] in ('For', 'While', 'Do')

        def rec(n, inloop):
            nonlocal ok
            if not ok or not isinstance(n, (dict, list)):
                return
            if isinstance(n, list):
                for x in n:
                    rec(x, inloop)
                return
            k = n.get('k')
            if k == 'Return':
                if loop:
                    returns.append(n)
                else:
                    ok = False
                    return
            elif k in ('Break', 'Continue'):
                if not inloop:
                    ok = False
                    return
            elif k in ('Call', 'Ctor', 'New'):
                if short(n.get('callee')) != 'softHSMLog' and self.interesting_call(n):
                    ok = False
                    return
                pm = n.get('pm', '')
                for i, a in enumerate(n.get('args', [])):
                    if a is None:
                        continue
                    m = pm[i] if i < len(pm) else 'v'
                    t = a['e'] if a.get('k') == 'Un' and a['op'] == '&' else a
                    if (m in ('m', 'p') or a.get('k') == 'Un' and a['op'] == '&') and t.get('k') == 'Var':
                        assigned.add(t['name'])
                r = n.get('recv')
                if r is not None and r.get('k') == 'Var' and not n.get('const') and not is_pure_name(short(n.get('callee'))):
                    assigned.add(r['name'])
            elif k == 'Assign' or (k == 'Un' and n.get('op') in ('++', '--')):
                t = n['a'] if k == 'Assign' else n['e']
                while t.get('k') in ('Index', 'Member'):
                    t = t['base']
                if t.get('k') == 'Un' and t['op'] == '*' and t['e'].get('k') == 'Var':
                    assigned.add('*' + t['e']['name'])
                elif t.get('k') == 'Var':
                    assigned.add(t['name'])
                    if t['name'] in self.TRACK:
                        ok = False
                        return
                else:
                    ok = False      # write through something we do not name: interpret normally
                    return
            elif k == 'Decl':
                for d in n['decls']:
                    assigned.add(d['var']['name'])
            elif k in ('Delete', 'Throw', 'Try'):
                ok = False
                return
            sub_loop = inloop or k in ('For', 'While', 'Do', 'Switch')
            for key, v in n.items():
                if isinstance(v, (dict, list)):
                    rec(v, sub_loop if key in ('body', 'sub') else inloop)
        rec(s, False)
        if ok and s['k'] == 'Switch':
            pass
        res = (frozenset(assigned), returns) if ok else 0
        self._quiet_cache[id(s)] = res
        return res if res != 0 else None

    def summarise(self, s, q, states):
        assigned, returns = q
        out = []
        for st in states:
            st = st.copy()
            for n in assigned:
                if n.startswith('*'):
                    st.env.pop(n, None)
                    st.facts = {f for f in st.facts if not mentions(f[0], n)}
                else:
                    kill(st, n)
            st.step(s['l'], 'Q')
            out.append(st)
        for rstmt in returns:
            for st in out:
                st2 = st.copy()
                self.paths_returned += 1
                self.on_return(rstmt, st2)
        return self.dedup(out)

    # ---- statements -----------------------------------------------------------------------
    def run(self, s, states):
        """Returns (fallthrough states, break states, continue states)."""
        if s is None or not states:
            return states, [], []
        self.on_stmt(s, states)
        k = s['k']
        if self.QUIET and k in ('If', 'Switch', 'For', 'While', 'Do'):
            q = self.quiet_info(s)
            if q is not None:
                return self.summarise(s, q, states), [], []
        if k == 'Block':
            brk, cont = [], []
            for c in s['body']:
                states, b, c2 = self.run(c, states)
                brk += b
                cont += c2
                states = self.dedup(states)
                if not states:
                    break
            return states, brk, cont
        if k == 'Decl':
            for dcl in s['decls']:
                name = dcl['var']['name']
                self.types[name] = dcl['type']
                init = dcl.get('init')
                if init is not None and self.is_cond(init):
                    states = self.assign_split(dcl['var'], init, states)
                    continue
                out = []
                for st in states:
                    st = st.copy()
                    if init is not None:
                        self.effects(init, st)
                        self.assign(dcl['var'], init, st)
                        if init.get('k') == 'Ctor' and init.get('type', '').endswith('ByteString') and len(init.get('args', [])) == 2 \
                                and init.get('sig', '').startswith('const unsigned char *'):
                            st.env['size(%s)' % name] = canon(init['args'][1], st.env)
                    else:
                        kill(st, name)
                    out.append(st)
                states = out
            return states, [], []
        if k == 'Expr':
            e = s['e']
            if e.get('k') == 'Assign' and e['op'] == '=' and e['b'].get('k') == 'Cond' and not getattr(self, 'NO_RETURN_SPLIT', False):
                # `x = c ? a : b;` is `if (c) x = a; else x = b;`
                out = []
                for st in states:
                    for ns, t in self.evalc(e['b']['c'], st):
                        ns = ns.copy() if ns is st else ns
                        ns.step(s['l'], 'T' if t else 'F')
                        e2 = dict(e)
                        e2['b'] = e['b']['t' if t else 'f']
                        s2 = dict(s)
                        s2['e'] = e2
                        o2, _, _ = self.run(s2, [ns])
                        out += o2
                return self.dedup(out), [], []
            if e.get('k') == 'Assign' and e['op'] == '=' and e['a'].get('k') == 'Var' and e['a']['kind'] in ('local', 'param') and self.is_cond(e['b']):
                return self.assign_split(e['a'], e['b'], states), [], []
            if e.get('k') == 'Assign' and e['op'] == '=' and e['a'].get('k') == 'Var' and e['b'].get('k') == 'Call' \
                    and self.types.get(e['a']['name']) == 'bool' and e['a']['name'] in self.TRACK:
                # bOK = f(...): split on the result so that later tests of bOK are path-sensitive
                out = []
                for st in states:
                    st = st.copy()
                    self.effects(e['b'], st)
                    for ns, t in self.atom(canon(e['b'], st.env), st):
                        ns = ns.copy()
                        kill(ns, e['a']['name'])
                        ns.env[e['a']['name']] = 'true' if t else 'false'
                        self.on_assign(e['a'], e['b'], ns)
                        out.append(ns)
                return out, [], []
            if self.is_cond(e) and e.get('k') == 'Bin' and e['op'] in ('&&', '||'):
                return [ns for st in states for ns, _ in self.evalc(e, st)], [], []
            out = []
            for st in states:
                st = st.copy()
                self.effects(e, st)
                out.append(st)
            return out, [], []
        if k == 'Return':
            for st in states:
                st = st.copy()
                if s.get('e') is not None:
                    if s['e'].get('k') == 'Cond' and not getattr(self, 'NO_RETURN_SPLIT', False):
                        # `return c ? a : b;` is `if (c) return a; else return b;`
                        for ns, t in self.evalc(s['e']['c'], st):
                            ns = ns.copy() if ns is st else ns
                            ns.step(s['l'], 'T' if t else 'F')
                            s2 = dict(s)
                            s2['e'] = s['e']['t' if t else 'f']
                            self.run(s2, [ns])
                        continue
                    if self.is_cond(s['e']):
                        for ns, t in self.evalc(s['e'], st):
                            ns = ns.copy()
                            ns.aut['__ret'] = 'true' if t else 'false'
                            self.paths_returned += 1
                            self.on_return(s, ns)
                        continue
                    self.effects(s['e'], st)
                self.paths_returned += 1
                self.on_return(s, st)
            return [], [], []
        if k == 'If':
            T, F = [], []
            for st in states:
                for ns, t in self.evalc(s['c'], st):
                    ns = ns.copy() if ns is st else ns
                    ns.step(s['l'], 'T' if t else 'F')
                    (T if t else F).append(ns)
            t_out, b1, c1 = self.run(s['t'], self.dedup(T))
            if s.get('e'):
                f_out, b2, c2 = self.run(s['e'], self.dedup(F))
            else:
                f_out, b2, c2 = F, [], []
            return self.dedup(t_out + f_out), b1 + b2, c1 + c2
        if k in ('For', 'While', 'Do'):
            if k == 'For' and s.get('init'):
                states, _, _ = self.run(s['init'], states)
            exits, cur = [], states
            seen = set()
            for it in range(self.LOOP_ROUNDS):
                T, F = [], []
                if s.get('c') is not None and not (k == 'Do' and it == 0):
                    for st in cur:
                        for ns, t in self.evalc(s['c'], st):
                            if t:
                                ns = ns.copy() if ns is st else ns
                                ns.step(s['l'], 'L')
                            (T if t else F).append(ns)
                else:
                    T = cur
                exits += F
                T = [st for st in self.dedup(T) if st.key() not in seen]
                for st in T:
                    seen.add(st.key())
                if not T:
                    cur = []
                    break
                body_out, brk, cont = self.run(s['body'], T)
                exits += brk
                nxt = []
                for st in body_out + cont:
                    st = st.copy()
                    if k == 'For' and s.get('inc') is not None:
                        self.effects(s['inc'], st)
                    nxt.append(st)
                cur = self.dedup(nxt)
                if not cur:
                    break
            # states still circulating after the bound: leave through the exit edge
            for st in cur:
                if s.get('c') is not None:
                    for ns, t in self.evalc(s['c'], st):
                        if not t:
                            exits.append(ns)
                else:
                    pass
            return self.dedup(exits), [], []
        if k == 'Switch':
            return self.run_switch(s, states)
        if k == 'Break':
            return [], states, []
        if k == 'Continue':
            return [], [], states
        if k == 'Try':
            out, brk, cont = self.run(s['body'], states)
            for h in s.get('handlers', []):
                # a handler may start from any state inside the body; approximated by the entry states
                ho, hb, hc = self.run(h['body'], [st.copy() for st in states])
                out = out + ho
                brk += hb
                cont += hc
            return self.dedup(out), brk, cont
        return states, [], []

    def switch_segments(self, s):
        body = s['body']['body'] if s['body'] and s['body']['k'] == 'Block' else [s['body']]
        segs = []
        for c in body:
            labels = []
            while c is not None and c['k'] in ('Case', 'Default'):
                if c['k'] == 'Case':
                    labels.append(canon(c['v']))
                    v = c['v']
                    self._label_value[labels[-1]] = v.get('v') if v.get('k') in ('Lit', 'Var') else None
                else:
                    labels.append('default')
                c = c['sub']
            if labels:
                segs.append([labels, [c] if c else []])
            elif segs:
                segs[-1][1].append(c)
        return segs

    _label_value = {}

    def run_switch(self, s, states):
        segs = self.switch_segments(s)
        out, carry, cont_all = [], [], []
        has_default = any('default' in l for l, _ in segs)
        alllabels = [l for ls, _ in segs for l in ls if l != 'default']
        pre = []
        for st in states:
            st = st.copy()
            self.effects(s['c'], st)
            pre.append(st)
        for labels, stmts in segs:
            entry = list(carry)
            for st in pre:
                cc = canon(s['c'], st.env)
                known = None
                if self.cenv is not None:
                    cv = self.ceval(s['c'], st)
                    if cv is not None:
                        hit = [l for l in alllabels if self._label_value.get(l) == cv]
                        known = hit[0] if hit else '#%d' % cv
                if known is not None:
                    pass
                elif CONST_RE.match(cc):
                    known = cc
                else:
                    pre_s = 'EQ(%s,' % cc
                    for a, t in st.facts:
                        if t and a.startswith(pre_s) and a.endswith(')') and CONST_RE.match(a[len(pre_s):-1]):
                            known = a[len(pre_s):-1]
                for lab in labels:
                    if lab != 'default':
                        if known is not None and known != lab:
                            continue
                        if (('EQ(%s,%s)' % (cc, lab)), False) in st.facts:
                            continue
                        ns = st.copy()
                        if known is None:
                            ns.facts.add(('EQ(%s,%s)' % (cc, lab), True))
                            self.on_fact('EQ(%s,%s)' % (cc, lab), True, ns)
                        ns.step(s['l'], 'case ' + lab)
                        entry.append(ns)
                    else:
                        if known is not None and known in alllabels:
                            continue
                        ns = st.copy()
                        if known is None:
                            for l2 in alllabels:
                                ns.facts.add(('EQ(%s,%s)' % (cc, l2), False))
                        ns.step(s['l'], 'default')
                        entry.append(ns)
            ft, brk, cont = self.run({'k': 'Block', 'l': s['l'], 'body': stmts}, self.dedup(entry))
            out += brk
            cont_all += cont
            carry = ft
        out += carry
        if not has_default:
            for st in pre:
                cc = canon(s['c'], st.env)
                if CONST_RE.match(cc) and cc in alllabels:
                    continue
                if self.cenv is not None:
                    cv = self.ceval(s['c'], st)
                    if cv is not None and any(self._label_value.get(l) == cv for l in alllabels):
                        continue
                ns = st.copy()
                for l2 in alllabels:
                    ns.facts.add(('EQ(%s,%s)' % (cc, l2), False))
                ns.step(s['l'], 'no-case')
                out.append(ns)
        return self.dedup(out), [], cont_all

    def go(self, init=None):
        st0 = init or St()
        out, _, _ = self.run(self.fn['body'], [st0])
        for st in out:
            self.on_exit(st)
        return self


def nested_shadowing(fn):
    """Names declared in a scope nested inside a scope that already declares them (the interpreter keys
    variables by name; a function with such shadowing of a tracked variable is reported undecided)."""
    bad = set()

    def rec(s, scopes):
        if not isinstance(s, dict):
            return
        k = s.get('k')
        if k == 'Block':
            scopes = scopes + [set()]
            for c in s['body']:
                rec(c, scopes)
            return
        if k == 'Decl':
            for d in s['decls']:
                n = d['var']['name']
                if any(n in sc for sc in scopes[:-1]):
                    bad.add(n)
                scopes[-1].add(n)
            return
        if k == 'For':
            scopes = scopes + [set()]
            rec(s.get('init'), scopes)
            rec(s.get('body'), scopes)
            return
        for key in ('t', 'e', 'body', 'sub'):
            v = s.get(key)
            if isinstance(v, dict) and key != 'e' or (key == 'e' and k == 'If'):
                rec(v, scopes)
        for h in s.get('handlers', []) if k == 'Try' else []:
            rec(h['body'], scopes)
    params = {p['var']['name'] for p in fn.get('params', [])}
    rec(fn['body'], [params])
    return bad


class Outcomes(Interp):
    """Enumerate the abstract return paths of a function under a finite-domain assignment (cenv) and record,
    per path, the returned value and the ordered events (calls, writes to non-local lvalues)."""
    CAP = 4096

    def __init__(self, fn, prog=None, cenv=None, record_calls=None):
        super().__init__(fn, prog)
        self.cenv = {k: v for k, v in (cenv or {}).items() if isinstance(k, str)}
        self.cenv_rx = [(k, v) for k, v in (cenv or {}).items() if not isinstance(k, str)]
        self.outcomes = []
        self.record_calls = record_calls    # None = all, else set of short names

    def ev(self, st, item):
        st.aut['ev'] = st.aut.get('ev', ()) + (item,)

    interesting = None      # optional finer predicate (call node -> bool) used only for quiet-region summarisation

    def interesting_call(self, e):
        if self.record_calls is None:
            return True
        c = short(e.get('callee')) if e.get('k') == 'Call' else ('new ' + e.get('type', '') if e.get('k') == 'New' else 'ctor ' + e.get('type', ''))
        if c not in self.record_calls:
            return False
        return True if self.interesting is None else bool(self.interesting(e))

    def on_call(self, e, st):
        c = short(e.get('callee')) if e.get('k') == 'Call' else ('new ' + e.get('type', '') if e.get('k') == 'New' else 'ctor ' + e.get('type', ''))
        if c == 'softHSMLog':
            return
        if self.record_calls is not None and c not in self.record_calls:
            return
        parts = []
        if e.get('recv') is not None:
            parts.append(canon(e['recv'], st.env))
        for a in e.get('args', []):
            v = None
            if a is not None and a.get('k') not in ('Lit', 'Var', 'Null', 'Str'):
                v = self.ceval(a, st)
            parts.append(canon(a, st.env) if v is None else str(v))
        self.ev(st, ('call', c, tuple(parts), e.get('l')))

    def on_assign(self, lhs, rhs, st):
        if lhs.get('k') == 'Var' and lhs['kind'] in ('local',):
            return
        mk = self.model_key(lhs, st) if lhs.get('k') != 'Var' else None
        self.ev(st, ('write', mk or canon(lhs), canon(rhs, st.env) if rhs is not None else '?', lhs.get('l')))

    def on_delete(self, e, st):
        if self.record_calls is None or 'delete' in self.record_calls:
            self.ev(st, ('call', 'delete', (canon(e.get('e')),), e.get('l')))

    def on_return(self, s, st):
        if '__ret' in st.aut:
            rv = st.aut['__ret']
        elif s.get('e') is not None:
            v = self.ceval(s['e'], st)
            rv = canon(s['e'], st.env) if v is None else (str(v) if not (s['e'].get('k') == 'Lit' and s['e'].get('m')) else s['e']['m'])
            if s['e'].get('k') == 'Lit' and s['e'].get('b'):
                rv = 'true' if s['e']['v'] else 'false'
        else:
            rv = None
        retv = None
        if rv in ('true', 'false'):
            retv = int(rv == 'true')
        elif s.get('e') is not None:
            retv = self.ceval(s['e'], st)
        self.outcomes.append(dict(ret=rv, retv=retv, events=st.aut.get('ev', ()), facts=frozenset(st.facts), path=st.show_path(), line=s.get('l')))

    def on_exit(self, st):
        self.outcomes.append(dict(ret=None, retv=None, events=st.aut.get('ev', ()), facts=frozenset(st.facts), path=st.show_path(), line=self.fn.get('endline')))
