"""E6 — whole-program call graph with class-hierarchy resolution of virtual calls, reachability."""
from .facts import walk


def build(prog):
    if hasattr(prog, '_cg'):
        return prog._cg
    # virtual dispatch: method name -> implementations in subclasses
    impls = {}
    for f in prog.functions.values():
        if f.get('class'):
            impls.setdefault((f['class'], f['qname'].split('::')[-1]), []).append(f['qname'])
    edges = {}
    for f in prog.functions.values():
        out = edges.setdefault(f['qname'], set())
        nodes = [f['body']] + [i.get('init') for i in f.get('inits', [])]
        for root in nodes:
            for n in walk(root):
                k = n.get('k')
                if k == 'Call' and n.get('callee'):
                    c = n['callee']
                    out.add(c)
                    if n.get('virtual') and '::' in c:
                        cls, m = c.rsplit('::', 1)
                        for sub in prog.subclasses(cls):
                            for q in impls.get((sub, m), []):
                                out.add(q)
                elif k in ('Ctor', 'New') and n.get('type'):
                    t = n['type'].replace('const ', '').strip()
                    out.add('%s::%s' % (t, t.split('::')[-1]))
                elif k == 'Delete':
                    pass
    prog._cg = edges
    return edges


def reach(prog, root, stop=()):
    """Transitive callees of root (qualified names); functions in `stop` are not expanded."""
    edges = build(prog)
    seen, todo = set(), [root]
    while todo:
        q = todo.pop()
        for c in edges.get(q, ()):
            if c not in seen:
                seen.add(c)
                if c not in stop:
                    todo.append(c)
    return seen


def callers(prog, target):
    edges = build(prog)
    return sorted(q for q, cs in edges.items() if target in cs)
