"""C03 — session and login state machine follows the PKCS#11 rules (DESIGN.md §3 C03)."""
import re, itertools
from engine.rulelib import *

EXPLANATION = (
    "Static decision of the guards and effect order of every transition of the session/login state machine, by finite-domain path enumeration of the functions that implement it. "
    "R1: Token::loginSO/loginUser evaluated over {SO logged in} x {user logged in} x {user PIN initialised} x {PIN check result}: the PIN check is reached only when nobody is logged in (and the user PIN exists), "
    "success is returned exactly when the check succeeds. R2: C_Login evaluated over every user type x {read-only session exists} x {re-authentication pending}; SessionManager::openSession over {RW flag} x {SO logged in}; "
    "haveROSession/haveSession over {entry null} x {same slot} x {read-write}. R3: SessionManager::closeSession evaluated over {another session on the same slot} x {sessions on other slots}: the token is logged out exactly "
    "when the closed session was the last one of its slot; closeAllSessions logs out on every successful path. R4: Session::getState over {SO} x {user} x {RW} equals the PKCS#11 state table and reads only the token's login flags "
    "(state is derived, not stored). R5: validate-then-mutate — on every failing path of C_Login, C_OpenSession/openSession, C_InitToken, Token::login* no session is created/removed and no login/logout/PIN mutation happened "
    "(the PIN-count flag update is the named exception). R6: C_InitToken reaches the token initialisation only when no session is open on that slot. The product state space over call histories is not explored "
    "(that would be model checking, another family); every single transition is decided for its whole guard domain.")
ASSUMPTIONS = ['the login state of a token lives only in its SecureDataManager (checked by C01.R4 who-may-write)', 'callees outside /repo/src are uninterpreted', 'std::vector semantics are trusted']
TECHNIQUE = 'custom static analysis over the clang AST: finite-domain path enumeration (all abstract paths for every assignment of the guard predicates) of the transition functions, compared with the PKCS#11 transition table'
LEVEL_TEXT = ('Each transition function is evaluated on all abstract paths for every combination of its guard predicates (exhaustive over those finite domains) and compared with the PKCS#11 rule it implements. '
              'This decides per-transition correctness, which is what the seeded breakages attack; it does not enumerate multi-call histories.')
LEVEL_NOTE = 'trusted: clang front end, normaliser, abstract interpreter; the encoding of the PKCS#11 transition rules in rules/c03.py'


def outcomes(f, prog, cenv, record=None, rounds=2, cap=64):
    o = Outcomes(f, prog, cenv=cenv, record_calls=record)
    o.LOOP_ROUNDS = rounds
    o.CAP = cap
    o.go()
    return o


def ev_calls(oc, name):
    return [e for e in oc['events'] if e[0] == 'call' and e[1] == name]


def r1_login(ctx, prog, rule_id='C03.R1'):
    r = ctx.rule(rule_id, 'the PIN check is reached only when nobody is logged in; success iff the check succeeds; a failing call leaves nobody logged in', floor=40, engine='E1+E3 finite-domain')
    for fname, meth, other in (('Token::loginSO', 'loginSO', 'User'), ('Token::loginUser', 'loginUser', 'SO')):
        f = prog.fn(fname)
        ctx.analysed(f)
        for d in product({'so': [0, 1], 'user': [0, 1], 'blob': [0, 16], 'pinok': [0, 1], 'flags': [1, 0]}):
            cenv = {'sdm': 1, 'isSOLoggedIn(sdm)': d['so'], 'isUserLoggedIn(sdm)': d['user'], re.compile(r'size\(get(User|SO)PINBlob\(sdm\)\)'): d['blob'],
                    re.compile(r'%s@\d+\(sdm,\w+\)' % meth): d['pinok'], re.compile(r'getTokenFlags@\d+\(.*\)'): d['flags']}
            o = outcomes(f, prog, cenv, record={'loginSO', 'loginUser', 'logout', 'setSOPIN', 'setUserPIN'})
            r.paths += len(o.outcomes)
            allowed = not d['so'] and not d['user'] and (meth == 'loginSO' or d['blob'] > 0)
            site = '%s so=%d user=%d userpin=%s pincheck=%d%s' % (meth, d['so'], d['user'], 'set' if d['blob'] else 'unset', d['pinok'], '' if d['flags'] else ' flags-unreadable')
            bad = None
            for oc in o.outcomes:
                chk = ev_calls(oc, meth)
                if not allowed and chk:
                    bad = ('the PIN check %s is reached although %s' % (meth, 'somebody is logged in' if d['so'] or d['user'] else 'the user PIN is not initialised'), oc)
                elif not allowed and may_succeed(oc):
                    bad = ('the call can succeed although it must be refused', oc)
                elif allowed and d['pinok'] and not may_succeed(oc):
                    # stricter than required (e.g. flags unreadable) is not a violation by itself, but a call that fails must not leave the login behind
                    evs = oc['events']
                    i = max([k for k, e in enumerate(evs) if e[0] == 'call' and e[1] == meth] or [-1])
                    if i >= 0 and not any(e[0] == 'call' and e[1] == 'logout' for e in evs[i + 1:]):
                        bad = ('the PIN check succeeded (the token is now logged in) and the call then fails without logging out again: a refused C_Login leaves the %s logged in' % ('SO' if meth == 'loginSO' else 'user'), oc)
                elif allowed and not d['pinok'] and may_succeed(oc):
                    bad = ('the call succeeds although the PIN check failed', oc)
                elif allowed and may_succeed(oc) and not chk:
                    bad = ('the call succeeds without any PIN check', oc)
                if bad:
                    break
            if bad:
                r.violation(fname, site, bad[0], file=f['file'], line=bad[1]['line'], path=bad[1]['path'])
            else:
                r.ok(fname, site, '%d paths' % len(o.outcomes), file=f['file'], line=f['line'])
    r.exhaustive = True


def r2_exclusion(ctx, prog):
    r = ctx.rule('C03.R2', 'RO/SO exclusion and user-type dispatch', floor=20, engine='E1+E3 finite-domain')
    f = prog.fn('SoftHSM::C_Login')
    ctx.analysed(f)
    ut = {n: macro(prog, n) for n in ('CKU_SO', 'CKU_USER', 'CKU_CONTEXT_SPECIFIC')}
    ut['<invalid user type>'] = max(ut.values()) + 5
    ptype = param_name(f, 1)
    sess = [v for v, c in local_from_call(f, 'getSession')][0]
    for uname, uval in ut.items():
        for ro in (0, 1):
            for reauth in (0, 1):
                cenv = {'isInitialised': 1, ptype: uval, re.compile(r'haveROSession\(sessionManager,.*\)'): ro, re.compile(r'getReAuthentication\(\w+\)'): reauth, param_name(f, 2): 1}
                o = outcomes(f, prog, cenv, record={'loginSO', 'loginUser', 'reAuthenticate', 'haveROSession', 'setReAuthentication', 'logout'})
                r.paths += len(o.outcomes)
                site = 'C_Login %s ro-session=%d reauth-pending=%d' % (uname, ro, reauth)
                bad = None
                for oc in o.outcomes:
                    names = [e[1] for e in oc['events'] if e[1] != 'haveROSession']
                    if uname == 'CKU_SO':
                        if ro and ('loginSO' in names or may_succeed(oc)):
                            bad = 'SO login proceeds although a read-only session exists'
                        if 'loginUser' in names or 'reAuthenticate' in names:
                            bad = 'wrong login routine for CKU_SO'
                        for e in ev_calls(oc, 'haveROSession'):
                            if not re.fullmatch(r'getSlotID\(getSlot\(%s\)\)' % sess, e[2][1]):
                                bad = 'the read-only-session test looks at %s, not at the slot of this session' % e[2][1]
                        if not ro and 'loginSO' in names and not ev_calls(oc, 'haveROSession'):
                            bad = 'SO login without the read-only-session test'
                    elif uname == 'CKU_USER':
                        if 'loginSO' in names or 'reAuthenticate' in names:
                            bad = 'wrong login routine for CKU_USER'
                    elif uname == 'CKU_CONTEXT_SPECIFIC':
                        if 'loginSO' in names or 'loginUser' in names:
                            bad = 'context-specific login changes the login state'
                        if not reauth and ('reAuthenticate' in names or may_succeed(oc)):
                            bad = 'context-specific login accepted although no operation awaits re-authentication'
                    else:
                        if names or may_succeed(oc):
                            bad = 'invalid user type is not refused'
                    if bad:
                        r.violation(f['qname'], site, bad, file=f['file'], line=oc['line'], path=oc['path'])
                        break
                if not bad:
                    r.ok(f['qname'], site, '%d paths' % len(o.outcomes), file=f['file'], line=f['line'])
    # openSession
    f = prog.fn('SessionManager::openSession')
    ctx.analysed(f)
    SER, RW = macro(prog, 'CKF_SERIAL_SESSION'), macro(prog, 'CKF_RW_SESSION')
    pflags = param_name(f, 1)
    # the flags are a bit set: whether the session is read-only is decided by CKF_RW_SESSION alone, whatever other bits the application sets (0x1 is the CKF_EXCLUSIVE_SESSION of PKCS#11 v1)
    for rw, so, extra in [(rw, so, extra) for rw in (0, 1) for so in (0, 1) for extra in (0, 1, 8, 0x80000000)]:
        if True:
            cenv = {pflags: SER | (RW if rw else 0) | extra, re.compile(r'isSOLoggedIn\(\w+\)'): so, re.compile(r'isInitialized\(\w+\)'): 1, param_name(f, 4): 1, param_name(f, 0): 1,
                    re.compile(r'getToken\(\w+\)'): 1}
            o = outcomes(f, prog, cenv, record={'new Session', 'push_back', 'setHandle'})
            r.paths += len(o.outcomes)
            site = 'openSession rw=%d so-logged-in=%d%s' % (rw, so, ' other flag bits 0x%x' % extra if extra else '')
            bad = None
            for oc in o.outcomes:
                created = [e for e in oc['events'] if e[1] == 'new Session']
                if not rw and so and (created or may_succeed(oc)):
                    bad = 'a read-only session is opened while the SO is logged in'
                for e in created:
                    if len(e[2]) >= 2 and e[2][1] not in (str(rw), 'true' if rw else 'false'):
                        bad = 'the session is created with read-write=%s for flags rw=%d' % (e[2][1], rw)
                if bad:
                    r.violation(f['qname'], site, bad, file=f['file'], line=oc['line'], path=oc['path'])
                    break
            if not bad:
                r.ok(f['qname'], site, '%d paths' % len(o.outcomes), file=f['file'], line=f['line'])
    # haveROSession / haveSession themselves: decided for every table content by R7 (representation-independent: iterator or index loops alike)


def r3_lastclose(ctx, prog, rule_id='C03.R3'):
    r = ctx.rule(rule_id, 'the token is logged out exactly when its last session closes; close-all always logs out', floor=4, engine='E1+E3 finite-domain')
    f = prog.fn('SessionManager::closeSession')
    ctx.analysed(f)
    hs = param_name(f, 0)
    for other_same, other_diff in ((0, 0), (0, 1), (1, 0)):     # a mixed table adds nothing the three pure ones do not decide
        # the closed session sits at index 4 (handle 5); the iterated entries are described by the domain
        if not other_same and not other_diff:
            ent = {re.compile(r'operator\[\]\(sessions,.*\)'): 1}
            size = 5
        cenv = {hs: 5, 'size(sessions)': 8, re.compile(r'getSlotID\(getSlot\(operator\[\]\(sessions,(sessionID|\(%s-1\)|4)\)\)\)' % hs): 7}
        # entries other than the closed one
        if other_same and not other_diff:
            cenv[re.compile(r'getSlotID\(getSlot\(operator\[\]\(sessions,.*\)\)\)')] = 7
        elif other_diff and not other_same:
            cenv[re.compile(r'getSlotID\(getSlot\(operator\[\]\(sessions,.*\)\)\)')] = 8
        elif other_same and other_diff:
            cenv[re.compile(r'getSlotID\(getSlot\(operator\[\]\(sessions,0\)\)\)')] = 8
            cenv[re.compile(r'getSlotID\(getSlot\(operator\[\]\(sessions,.*\)\)\)')] = 7
        else:
            cenv[re.compile(r'getSlotID\(getSlot\(operator\[\]\(sessions,.*\)\)\)')] = 7
        # null pattern of the table: with no other session every other entry is NULL
        if not other_same and not other_diff:
            cenv[re.compile(r'operator\[\]\(sessions,(sessionID|\(%s-1\)|4)\)' % hs)] = 1
            cenv[re.compile(r'operator\[\]\(sessions,.*\)')] = 0
        else:
            cenv[re.compile(r'operator\[\]\(sessions,.*\)')] = 1
        o = outcomes(f, prog, cenv, record={'logout'}, rounds=3)
        r.paths += len(o.outcomes)
        last = not other_same
        site = 'closeSession other-session-same-slot=%d other-slot-sessions=%d' % (other_same, other_diff)
        succ = [oc for oc in o.outcomes if may_succeed(oc)]
        bad = None
        for oc in succ:
            lo = ev_calls(oc, 'logout')
            if last and not lo:
                bad = ('the last session of the token closes without logging the token out: a later session starts in a logged-in state', oc)
            if not last and lo:
                bad = ('the token is logged out although another session of the same token is still open', oc)
        if not succ:
            r.undecided(f['qname'], site, 'no successful path under this assignment', file=f['file'], line=f['line'])
        elif bad:
            r.violation(f['qname'], site, bad[0], file=f['file'], line=bad[1]['line'], path=bad[1]['path'])
        else:
            r.ok(f['qname'], site, '%d successful paths' % len(succ), file=f['file'], line=f['line'])
    f = prog.fn('SessionManager::closeAllSessions')
    ctx.analysed(f)
    tok = [v for v, c in local_from_call(f, 'getToken') if c.get('recv') is not None and canon(c['recv']) == param_name(f, 0)]
    o = outcomes(f, prog, {param_name(f, 0): 1, re.compile(r'getToken\(\w+\)'): 1}, record={'logout'}, rounds=2)
    r.paths += len(o.outcomes)
    bad = [oc for oc in o.outcomes if may_succeed(oc) and not any(e[2] and e[2][0] in tok for e in ev_calls(oc, 'logout'))]
    if bad:
        r.violation(f['qname'], 'logout on close-all', 'a successful path does not log out the token of the slot whose sessions are closed', file=f['file'], line=bad[0]['line'], path=bad[0]['path'])
    else:
        r.ok(f['qname'], 'logout on close-all', '%d paths' % len(o.outcomes), file=f['file'], line=f['line'])


def r4_state(ctx, prog):
    r = ctx.rule('C03.R4', 'session state is derived from the token login flags and the RW flag exactly as PKCS#11 defines', floor=6, engine='E1 finite-domain')
    f = prog.fn('Session::getState')
    ctx.analysed(f)
    S = {n: macro(prog, n) for n in ('CKS_RO_PUBLIC_SESSION', 'CKS_RO_USER_FUNCTIONS', 'CKS_RW_PUBLIC_SESSION', 'CKS_RW_USER_FUNCTIONS', 'CKS_RW_SO_FUNCTIONS')}
    for so, user, rw in ((s, u, w) for s in (0, 1) for u in (0, 1) for w in (0, 1)):
        if so and user:
            continue
        o = outcomes(f, prog, {re.compile(r'isSOLoggedIn\(token\)'): so, re.compile(r'isUserLoggedIn\(token\)'): user, re.compile(r'isRW\(this\)|isReadWrite'): rw})
        want = 'CKS_RW_SO_FUNCTIONS' if so else ('CKS_R%s_USER_FUNCTIONS' % ('W' if rw else 'O') if user else 'CKS_R%s_PUBLIC_SESSION' % ('W' if rw else 'O'))
        if so and not rw:
            continue       # unreachable by R2 (no RO session while the SO is logged in)
        site = 'getState so=%d user=%d rw=%d' % (so, user, rw)
        got = {oc['retv'] for oc in o.outcomes}
        r.rows += 1
        if got != {S[want]}:
            r.violation(f['qname'], site, 'returns %s, PKCS#11 requires %s' % (sorted(oc['ret'] for oc in o.outcomes), want), file=f['file'], line=o.outcomes[0]['line'], path=o.outcomes[0]['path'])
        else:
            r.ok(f['qname'], site, want, file=f['file'], line=f['line'])
    # derived, not stored: getState reads no field of Session other than the token pointer (and isRW's flag)
    fields = {n['fq'] for n in walk(f['body']) if n.get('k') == 'Member' and n.get('base', {}).get('k') == 'This'}
    extra = {x for x in fields if x not in ('Session::token', 'Session::isReadWrite')}
    if extra:
        r.violation(f['qname'], 'state is derived', 'getState reads session-local fields %s: sessions of one token could report different login states' % sorted(extra), file=f['file'], line=f['line'])
    else:
        r.ok(f['qname'], 'state is derived', 'reads only %s' % sorted(fields), file=f['file'], line=f['line'])
    r.exhaustive = True


MUTATORS = {'loginSO', 'loginUser', 'logout', 'setSOPIN', 'setUserPIN', 'initUserPIN', 'resetToken', 'newToken', 'createToken', 'initToken', 'new Session', 'push_back', 'closeSession', 'closeAllSessions', 'erase', 'clear', 'remask'}


R5_EXCEPTIONS = {
    ('SoftHSM::C_OpenSession', 'CKR_SESSION_HANDLE_INVALID'): 'defensive exit: SessionManager::getSession of the handle openSession has just stored cannot return NULL (sessions[h-1] was assigned on the successful path)',
}


def r5_validate_then_mutate(ctx, prog):
    r = ctx.rule('C03.R5', 'a failing call leaves sessions and login state unchanged (no mutation before a failing exit)', floor=5, engine='E3')
    # (function, mutation events that may precede a failure, reason)
    targets = [('SoftHSM::C_Login', {'loginSO', 'loginUser', 'reAuthenticate'}, 'the callee returned the error itself'),
               ('SoftHSM::C_OpenSession', {'openSession'}, 'the callee returned the error itself'),
               ('SessionManager::openSession', set(), ''),
               ('SoftHSM::C_InitToken', {'initToken'}, 'the callee returned the error itself'),
               ('Token::loginSO', {'loginSO'}, 'a failed PIN check; SecureDataManager::login is checked below'),
               ('Token::loginUser', {'loginUser'}, 'a failed PIN check; SecureDataManager::login is checked below'),
               # re-authentication (CKU_CONTEXT_SPECIFIC) only verifies: it may not call anything that changes the login state, succeed or fail
               ('Token::reAuthenticate', set(), ''),
               ('SecureDataManager::reAuthenticate', set(), '')]
    for fname, allowed, why in targets:
        f = prog.fn(fname)
        ctx.analysed(f)
        o = outcomes(f, prog, {}, record=MUTATORS | allowed, rounds=2, cap=48)
        r.paths += len(o.outcomes)
        bad = None
        for oc in o.outcomes:
            if may_succeed(oc) and not fname.endswith('::reAuthenticate'):
                continue
            muts = [e for e in oc['events'] if e[0] == 'call' and e[1] in MUTATORS and e[1] not in allowed]
            # a failing exit whose error *is* the result of the allowed callee is fine; any other mutation before a failure is not
            if muts:
                bad = (muts[0], oc)
                break
            al = [e for e in oc['events'] if e[0] == 'call' and e[1] in allowed]
            if al and oc['ret'] is not None and oc['ret'].startswith('CKR_') and fname.startswith('SoftHSM::'):
                # constant error after the mutating callee ran: only acceptable if the callee's failure is known on the path
                name = al[-1][1]
                if not any((not t) and a.startswith(name + '@') or (t is False and a.startswith('EQ(%s@' % name)) for a, t in oc['facts']):
                    bad = (al[-1], oc)
                    break
        site = 'failing exits of ' + fname.split('::')[-1]
        if bad and (fname, bad[1]['ret']) in R5_EXCEPTIONS:
            r.excepted(fname, site, R5_EXCEPTIONS[(fname, bad[1]['ret'])], file=f['file'], line=bad[1]['line'])
        elif bad:
            r.violation(fname, site, 'return at line %s fails after %s (line %s) already changed session/login state' % (bad[1]['line'], bad[0][1], bad[0][3]), file=f['file'], line=bad[1]['line'], path=bad[1]['path'])
        else:
            r.ok(fname, site, '%d paths' % len(o.outcomes), file=f['file'], line=f['line'])
    # SecureDataManager::login: a rejected PIN does not leave a key behind (logout() first is the accepted idiom: see C04)
    f = prog.fn('SecureDataManager::login')
    ctx.analysed(f)
    o = outcomes(f, prog, {}, record={'remask', 'logout'})
    bad = [oc for oc in o.outcomes if oc['retv'] == 0 and ev_calls(oc, 'remask')]
    if bad:
        r.violation(f['qname'], 'failing exits of login', 'a path installs the master key (remask) and then reports failure', file=f['file'], line=bad[0]['line'], path=bad[0]['path'])
    else:
        r.ok(f['qname'], 'failing exits of login', '%d paths' % len(o.outcomes), file=f['file'], line=f['line'])


def r6_inittoken(ctx, prog):
    r = ctx.rule('C03.R6', 'C_InitToken is refused while any session is open on the slot', floor=2, engine='E1+E3 finite-domain')
    f = prog.fn('SoftHSM::C_InitToken')
    ctx.analysed(f)
    slot = param_name(f, 0)
    for have in (0, 1):
        o = outcomes(f, prog, {'isInitialised': 1, re.compile(r'haveSession\(sessionManager,%s\)' % slot): have, re.compile(r'getSlot\(slotManager,%s\)' % slot): 1, param_name(f, 1): 1, param_name(f, 2): 8},
                     record={'initToken', 'haveSession', 'haveROSession'})
        r.paths += len(o.outcomes)
        site = 'C_InitToken session-open=%d' % have
        bad = None
        for oc in o.outcomes:
            if have and (ev_calls(oc, 'initToken') or may_succeed(oc)):
                bad = ('the token is (re-)initialised although a session is open on the slot', oc)
            if not have and ev_calls(oc, 'initToken') and not any(e[2][1:2] == (slot,) for e in ev_calls(oc, 'haveSession')):
                bad = ('initToken is reached without asking SessionManager::haveSession(%s)' % slot, oc)
        if bad:
            r.violation(f['qname'], site, bad[0], file=f['file'], line=bad[1]['line'], path=bad[1]['path'])
        else:
            r.ok(f['qname'], site, '%d paths' % len(o.outcomes), file=f['file'], line=f['line'])


# --------------------------------------------------------------------------------------- R7: scans of the session table are complete
def _table_env(vals):
    env = {'size(sessions)': str(len(vals))}
    for i in range(len(vals)):
        env['operator[](sessions,%d)' % i] = 'E%d' % i
    return env


def _table_cenv(vals, extra):
    """vals: per table entry None or (slot number, rw flag)."""
    c = {'#concrete-loops': 1}
    c.update(extra)
    for i, v in enumerate(vals):
        c['E%d' % i] = 0 if v is None else 1
        if v is not None:
            c[re.compile(r'getSlotID(@\d+)?\(getSlot(@\d+)?\(E%d\)\)' % i)] = v[0]
            c[re.compile(r'isRW(@\d+)?\(E%d\)' % i)] = v[1]
    return c


def r7_table_scans(ctx, prog, rule_id='C03.R7'):
    """Finite-domain evaluation over every content of a three-entry session table (each entry empty / a session of this slot / of another slot, RO or RW):
    the scanning functions must compute what their name says for every content, in particular with holes in any position."""
    from engine.interp import St
    r = ctx.rule(rule_id, 'the scans of the session table see every entry: haveSession / haveROSession / last-session test / close-all are correct for every table content', floor=4, engine='E1 finite-domain, concrete small vector')
    kinds = [None, (7, 0), (7, 1), (5, 1), (5, 0)]
    tables3 = [list(t) for t in itertools.product(kinds, repeat=3)]

    def run(fname, vals, extra, record):
        f = prog.fn(fname)
        o = Outcomes(f, prog, cenv=_table_cenv(vals, extra), record_calls=record)
        o.LOOP_ROUNDS = 6
        o.CAP = 256
        o.go(St(env=_table_env(vals)))
        return f, o

    def show(vals):
        return '[' + ', '.join('-' if v is None else ('%s slot %s' % ('this' if v[0] == 7 else 'other', 'RW' if v[1] else 'RO')) for v in vals) + ']'
    # haveSession / haveROSession
    for fname, spec in (('SessionManager::haveSession', lambda vals: any(v is not None and v[0] == 7 for v in vals)),
                        ('SessionManager::haveROSession', lambda vals: any(v is not None and v[0] == 7 and not v[1] for v in vals))):
        bad = None
        n = 0
        for vals in tables3:
            f, o = run(fname, vals, {'slotID': 7}, set())
            r.paths += len(o.outcomes)
            n += 1
            got = {oc['retv'] for oc in o.outcomes}
            if got != {int(spec(vals))}:
                bad = (vals, got, o.outcomes[0] if o.outcomes else None)
                break
        ctx.analysed(f)
        if bad:
            r.violation(fname, 'all table contents', 'for the table %s the function answers %s, expected %s: %s' % (show(bad[0]), sorted(map(str, bad[1])), bool(spec(bad[0])),
                        'C_InitToken / C_Login(SO) decide on this answer'), file=f['file'], line=f['line'], path=bad[2]['path'] if bad[2] else None)
        else:
            r.ok(fname, 'all table contents', '%d tables of three entries' % n, file=f['file'], line=f['line'])
    # closeSession: logout iff no other session of the same slot
    fname = 'SessionManager::closeSession'
    bad = None
    n = 0
    for vals in tables3:
        for k in range(3):
            if vals[k] is None:
                continue
            slot = vals[k][0]
            f, o = run(fname, vals, {'hSession': k + 1}, {'logout'})
            r.paths += len(o.outcomes)
            n += 1
            want = not any(v is not None and v[0] == slot and i != k for i, v in enumerate(vals))
            for oc in o.outcomes:
                did = any(e[0] == 'call' and e[1] == 'logout' for e in oc['events'])
                cleared = any(e[0] == 'write' and e[1] == 'operator[](sessions,%d)' % k and e[2] in ('NULL', '0') for e in oc['events']) or \
                    any(e[0] == 'write' and re.fullmatch(r'operator\[\]\(sessions,(sessionID|%d)\)' % k, e[1]) and e[2] in ('NULL', '0') for e in oc['events'])
                if oc['ret'] in ('CKR_OK', '0') and (did != want or not cleared):
                    bad = (vals, k, did, want, cleared, oc)
            if not o.outcomes or not any(oc['ret'] in ('CKR_OK', '0') for oc in o.outcomes):
                bad = (vals, k, None, want, False, o.outcomes[0] if o.outcomes else None)
            if bad:
                break
        if bad:
            break
    ctx.analysed(f)
    if bad:
        vals, k, did, want, cleared, oc = bad
        r.violation(fname, 'all table contents', 'closing entry %d of the table %s: the token is %s although %s%s' % (
            k, show(vals), 'logged out' if did else 'not logged out', 'no other session of the slot is open' if want else 'another session of the same slot is still open',
            '' if cleared else '; the entry is not cleared'), file=f['file'], line=f['line'], path=oc['path'] if oc else None)
    else:
        r.ok(fname, 'all table contents', '%d (table, closed entry) pairs' % n, file=f['file'], line=f['line'])
    # closeAllSessions: exactly the entries of the slot are cleared, then logout
    fname = 'SessionManager::closeAllSessions'
    bad = None
    n = 0
    for vals in tables3:
        f, o = run(fname, vals, {re.compile(r'getSlotID(@\d+)?\(slot\)'): 7, 'slot': 1, re.compile(r'getToken(@\d+)?\(slot\)'): 1, 'token': 1}, {'logout'})
        r.paths += len(o.outcomes)
        n += 1
        want = {i for i, v in enumerate(vals) if v is not None and v[0] == 7}
        for oc in o.outcomes:
            if oc['ret'] not in ('CKR_OK', '0'):
                continue
            got = {int(m.group(1)) for e in oc['events'] if e[0] == 'write' and e[2] in ('NULL', '0') for m in [re.fullmatch(r'operator\[\]\(sessions,(\d+)\)', e[1])] if m}
            did = any(e[0] == 'call' and e[1] == 'logout' for e in oc['events'])
            if got != want or not did:
                bad = (vals, got, want, did, oc)
        if bad:
            break
    ctx.analysed(f)
    if bad:
        vals, got, want, did, oc = bad
        r.violation(fname, 'all table contents', 'for the table %s the entries %s are closed, expected %s%s' % (show(vals), sorted(got), sorted(want), '' if did else '; the token is not logged out'), file=f['file'], line=f['line'], path=oc['path'])
    else:
        r.ok(fname, 'all table contents', '%d tables of three entries' % n, file=f['file'], line=f['line'])


def run(ctx):
    prog = ctx.prog('ossl-file')
    r1_login(ctx, prog)
    r2_exclusion(ctx, prog)
    r3_lastclose(ctx, prog)
    r4_state(ctx, prog)
    r5_validate_then_mutate(ctx, prog)
    r6_inittoken(ctx, prog)
    r7_table_scans(ctx, prog)
    from rules import c14
    c14.r2_createtoken(ctx, prog, rule_id='C03.R8')
    from rules import c11
    c11.r5_predicates(ctx, prog, rule_id='C03.R9')
    c11.r7_session_ids(ctx, prog, rule_id='C03.R10')
    c14.r3_keying(ctx, prog, rule_id='C03.R11')


MUTANTS = [
    dict(name='reauthenticate-so-by-login', rule='C03.R5', file='src/lib/slot_mgr/Token.cpp', after='CK_RV Token::reAuthenticate(ByteString& pin)',
         old='\t\tif (!sdm->reAuthenticateSO(pin))', new='\t\tif (!sdm->loginSO(pin))'),
    dict(name='createtoken-label-check-after-login', rule='C03.R8', file='src/lib/slot_mgr/Token.cpp', after='CK_RV Token::createToken(',
         edits=[dict(file='src/lib/slot_mgr/Token.cpp', after='CK_RV Token::createToken(', old='\tif (label == NULL_PTR) return CKR_ARGUMENTS_BAD;\n', new=''),
                dict(file='src/lib/slot_mgr/Token.cpp', after='CK_RV Token::createToken(', old='\t\t// Reset the token\n', new='\t\tif (label == NULL_PTR) return CKR_ARGUMENTS_BAD;\n\t\t// Reset the token\n')]),
    dict(name='closesession-scan-stops-at-hole', rule='C03.R7', file='src/lib/session_mgr/SessionManager.cpp', after='CK_RV SessionManager::closeSession(',
         old='\t\tif (sessions[i] == NULL) continue;', new='\t\tif (sessions[i] == NULL) break;'),
    dict(name='havesession-first-live-entry-only', rule='C03.R7', file='src/lib/session_mgr/SessionManager.cpp', after='bool SessionManager::haveSession(',
         old='\t\tif ((*i)->getSlot()->getSlotID() == slotID)\n\t\t{\n\t\t\treturn true;\n\t\t}', new='\t\treturn ((*i)->getSlot()->getSlotID() == slotID);'),
    dict(name='haverosession-skips-after-other-slot', rule='C03.R7', file='src/lib/session_mgr/SessionManager.cpp', after='bool SessionManager::haveROSession(',
         old='\t\tif ((*i)->getSlot()->getSlotID() != slotID) continue;', new='\t\tif ((*i)->getSlot()->getSlotID() != slotID) break;'),
    dict(name='loginso-while-user-logged-in', rule='C03.R1', file='src/lib/slot_mgr/Token.cpp', after='CK_RV Token::loginSO(',
         old='\tif (sdm->isUserLoggedIn()) return CKR_USER_ANOTHER_ALREADY_LOGGED_IN;\n', new=''),
    dict(name='clogin-no-ro-test', rule='C03.R2', file='src/lib/SoftHSM.cpp', after='CK_RV SoftHSM::C_Login(',
         old='\t\t\tif (sessionManager->haveROSession(session->getSlot()->getSlotID())) return CKR_SESSION_READ_ONLY_EXISTS;\n', new=''),
    dict(name='opensession-no-so-test', rule='C03.R2', file='src/lib/session_mgr/SessionManager.cpp',
         old='if ((flags & CKF_RW_SESSION) == 0 && token->isSOLoggedIn()) return CKR_SESSION_READ_WRITE_SO_EXISTS;', new=''),
    dict(name='haverosession-ignores-slot', rule='C03.R7', file='src/lib/session_mgr/SessionManager.cpp', after='bool SessionManager::haveROSession(',
         old='\t\tif ((*i)->getSlot()->getSlotID() != slotID) continue;\n', new=''),
    dict(name='closesession-never-logs-out', rule='C03.R3', file='src/lib/session_mgr/SessionManager.cpp', after='CK_RV SessionManager::closeSession(',
         old='\tif (lastSession)\n\t{\n', new='\tif (lastSession && sessions.size() == 0)\n\t{\n'),
    dict(name='closesession-ignores-slot', rule='C03.R3', file='src/lib/session_mgr/SessionManager.cpp', after='CK_RV SessionManager::closeSession(',
         old='if (sessions[i]->getSlot()->getSlotID() == slotID && i != sessionID)', new='if (i != sessionID)'),
    dict(name='getstate-so-ro', rule='C03.R4', file='src/lib/session_mgr/Session.cpp', after='CK_STATE Session::getState()',
         old='\tif (token->isSOLoggedIn())\n\t{\n\t\treturn CKS_RW_SO_FUNCTIONS;\n\t}\n\n\tif (token->isUserLoggedIn())', new='\tif (token->isUserLoggedIn())'),
    dict(name='inittoken-only-ro-sessions-block', rule='C03.R6', file='src/lib/SoftHSM.cpp', after='CK_RV SoftHSM::C_InitToken(',
         old='if (sessionManager->haveSession(slotID))', new='if (sessionManager->haveROSession(slotID))'),
]
