"""C09 — a call that fails has no effect on objects (DESIGN.md §3 C09)."""
import re
from engine.rulelib import *
from engine import callgraph

EXPLANATION = (
    "Static decision of the structural clauses of C09. R1 (cleanup typestate over all abstract paths): in every function of SoftHSM.cpp that creates an object — directly through the token / the session "
    "object store, or through CreateObject with an output handle — every path from the creation to a return that is not provably CKR_OK passes the destruction of that object (object->destroyObject() on the "
    "object itself, looked up through its still-registered handle). The handle out-parameter idiom, NULL-guarded destroys and the rv/bOK ladders are interpreted path-sensitively; a handle purged before the "
    "look-up yields NULL, so a swapped clean-up order is seen. R2: after a successful startTransaction() every path reaches commitTransaction or abortTransaction (or destroys the object) before returning, "
    "no attribute is stored after an abort, and P11Object::saveTemplate aborts on every failing exit. R3 (sibling agreement): in every OSObject implementation abortTransaction must undo what setAttribute does while a "
    "transaction is open — its mod-set must cover the attribute container setAttribute writes, or setAttribute must not touch the live container inside a transaction. R4: OSToken::createObject registers the new "
    "object only after it was created valid, and every destroyObject implementation is unconditional about the object's validity. Fault sequences at run time are not executed.")
ASSUMPTIONS = ['CreateObject writes its output handle only on success (checked as a sub-rule)', 'objects are identified by the variable / output handle that names them', 'virtual calls are resolved by class-hierarchy analysis']
TECHNIQUE = 'custom static analysis over the clang AST: ESP-style cleanup and transaction typestate on all abstract paths of the ~27 object-creating functions, sibling mod-set agreement of the three OSObject implementations'
LEVEL_TEXT = ('Every abstract path of every object-creating function is checked for destruction-on-failure and transaction pairing; the rollback implementations are compared structurally. '
              'This decides the clean-up clause for all failing exits the code has, which the tests reach only for a handful of templates; actual fault injection is out of scope.')
LEVEL_NOTE = 'trusted: clang front end, normaliser, abstract interpreter (ESP merging keyed on the object states and rv/bOK); alias assumption on OSObject* locals and output handles'

CREATORS = ('createObject',)


class Cleanup(Interp):
    TRACK = ('rv', 'bOK')
    CAP = 96

    def __init__(self, fn, prog):
        super().__init__(fn, prog)
        self.rets = []
        self.pnames = {p['var']['name'] for p in fn['params']}
        self.track_facts = re.compile(r'^\*?\w+$|^EQ\(\*\w+,CK_INVALID_HANDLE\)$')
        self.events = 0

    # --- creation / destruction events
    def on_call(self, e, st):
        if e.get('k') != 'Call':
            return
        c = short(e.get('callee'))
        q = e.get('callee') or ''
        if c == 'CreateObject' and q.startswith('SoftHSM::') and len(e.get('args', [])) >= 4:
            ph = e['args'][3]
            if ph is not None and ph.get('k') == 'Var':
                st.aut['h:' + ph['name']] = 'maybe'
                self.events += 1
        elif q and '::' not in q and any(a is not None and a.get('k') == 'Var' and ('h:' + a['name']) in st.aut for a in e.get('args', [])):
            # a file-local clean-up helper that is handed the output handle: it counts as the destruction if it destroys the object behind that parameter on every path
            for i, a in enumerate(e.get('args', [])):
                if a is not None and a.get('k') == 'Var' and ('h:' + a['name']) in st.aut and i in destroyer_params(self.prog, q, self.fn['file']):
                    st.aut['h:' + a['name']] = 'destroyed'
                    st.aut['purged:' + a['name']] = True
        elif c == 'destroyObject' and q.startswith('HandleManager::') and e.get('args'):
            h = canon(e['args'][0], None)
            if h.startswith('*') and ('h:' + h[1:]) in st.aut:
                st.aut['purged:' + h[1:]] = True
        elif c == 'destroyObject' and e.get('recv') is not None and e['recv'].get('k') == 'Var':
            v = e['recv']['name']
            if st.aut.get('o:' + v) in ('created',):
                st.aut['o:' + v] = 'destroyed'
            src = st.aut.get('from:' + v)
            if src and st.aut.get('h:' + src) in ('created', 'maybe'):
                st.aut['h:' + src] = 'destroyed'

    def on_assign(self, lhs, rhs, st):
        if lhs.get('k') != 'Var' or rhs is None:
            return
        v = lhs['name']
        if rhs.get('k') == 'Call':
            c = short(rhs.get('callee'))
            q = rhs.get('callee') or ''
            if c in CREATORS and (q.startswith('Token::') or q.startswith('SessionObjectStore::') or q.startswith('ObjectStoreToken::')):
                st.aut['o:' + v] = 'created'
                self.events += 1
            elif c == 'getObject' and q.startswith('HandleManager::') and rhs.get('args'):
                h = canon(rhs['args'][0], None)
                if h.startswith('*') and ('h:' + h[1:]) in st.aut:
                    ph = h[1:]
                    if st.aut.get('purged:' + ph):
                        st.env[v] = 'NULL'          # the handle was purged before the look-up
                        st.aut.pop('from:' + v, None)
                    else:
                        st.aut['from:' + v] = ph
                        if st.aut.get('h:' + ph) == 'created':
                            st.facts.add((v, True))   # still registered: the look-up finds it

    def on_fact(self, atom, truth, st):
        if atom.startswith('EQ(CreateObject@'):
            pc = parse_call(atom)
            if pc and pc[1][1] == 'CKR_OK':
                inner = parse_call(pc[1][0])
                if inner and len(inner[1]) >= 5:
                    ph = inner[1][4]       # (this, hSession, template, count, phObject, op)
                    if ('h:' + ph) in st.aut:
                        if truth:
                            st.aut['h:' + ph] = 'created'
                            st.facts.add(('EQ(*%s,CK_INVALID_HANDLE)' % ph, False))
                        else:
                            st.aut['h:' + ph] = 'none'

    def on_return(self, s, st):
        self.rets.append((s, st.copy(), ret_class(s, st), canon(s['e'], st.env) if s.get('e') else None))

    def on_exit(self, st):
        self.exits = getattr(self, 'exits', []) + [st.copy()]


def destroyer_params(prog, q, file):
    """Indices of the CK_OBJECT_HANDLE_PTR parameters of the file-local free function q whose object is destroyed (or absent) at every return of q."""
    memo = prog.__dict__.setdefault('_destroyer_params', {})
    if (q, file) in memo:
        return memo[(q, file)]
    memo[(q, file)] = set()
    gs = [g for g in prog.fns(q) if not g.get('class') and g['file'] == file]
    out = set()
    if len(gs) == 1 and not unanalysable(gs[0]):
        g = gs[0]
        for i, pp in enumerate(g['params']):
            if 'CK_OBJECT_HANDLE_PTR' not in (pp.get('type') or '') or not pp.get('var'):
                continue
            P = pp['var']['name']
            a = Cleanup(g, prog)
            init = St(aut={'h:' + P: 'created'}, facts={('EQ(*%s,CK_INVALID_HANDLE)' % P, False)})
            a.go(init)
            states = [st for s_, st, rc, rcan in a.rets] + list(getattr(a, 'exits', []))
            if states and not any(k == 'h:' + P and v in ('created', 'maybe') for st in states for k, v in st.aut.items()):
                out.add(i)
    memo[(q, file)] = out
    return out


def leaked(st, retcanon):
    """Objects that exist, are not destroyed and not known to be NULL in this state."""
    out = []
    for k, v in st.aut.items():
        if k.startswith('o:') and v == 'created' and (k[2:], False) not in st.facts and st.env.get(k[2:]) not in ('NULL', 'NULL_PTR'):
            out.append(('object ' + k[2:], k[2:]))
        if k.startswith('h:') and v in ('created', 'maybe'):
            if v == 'maybe' and retcanon and retcanon.startswith('CreateObject@'):
                continue
            out.append(('object behind output handle *' + k[2:], k[2:]))
    return out


def r1_cleanup(ctx, prog):
    r = ctx.rule('C09.R1', 'every failing exit after an object was created passes its destruction', floor=24, engine='E3')
    targets = []
    for f in sorted(prog.functions.values(), key=lambda f: (f['file'], f['line'])):
        if f.get('class') != 'SoftHSM':
            continue
        cs = [c for c in calls(f['body']) if (short(c.get('callee')) == 'CreateObject' and (c.get('callee') or '').startswith('SoftHSM::')) or
              (short(c.get('callee')) in CREATORS and (c.get('callee') or '').split('::')[0] in ('Token', 'SessionObjectStore'))]
        if cs:
            targets.append(f)
    for f in targets:
        ctx.analysed(f)
        if not check_analysable(r, f):
            continue
        if not check_shadowing(r, f, ['rv', 'bOK']):
            continue
        a = Cleanup(f, prog).go()
        r.paths += a.paths_returned
        bad = {}
        for s, st, rc, rcan in a.rets:
            if rc == 'OK':
                continue
            for what, name in leaked(st, rcan):
                bad.setdefault(what, []).append((s, st))
        objs = sorted({k for s, st, rc, rcan in a.rets for k in st.aut if k.startswith(('o:', 'h:'))})
        if not objs:
            r.undecided(f['qname'], 'creation', 'creation call present but no abstract path reaches a return after it', file=f['file'], line=f['line'])
        for k in objs:
            what = ('object ' + k[2:]) if k.startswith('o:') else ('object behind output handle *' + k[2:])
            if what in bad:
                exits = sorted({s['l'] for s, st in bad[what]})
                s, st = bad[what][0]
                r.violation(f['qname'], what, 'the %s is still alive at %d failing exit(s) (return at line %s): a call that reports an error leaves the half-built object behind' % (what, len(exits), ', '.join(map(str, exits[:6]))),
                            file=f['file'], line=s['l'], path=st.show_path())
            else:
                r.ok(f['qname'], what, 'destroyed (or never created) on every failing exit', file=f['file'], line=f['line'])
    # sub-rule: CreateObject writes its output handle only right before a successful return
    f = prog.fn('SoftHSM::CreateObject')
    ph = param_name(f, 3)
    o = Outcomes(f, prog, cenv={}, record_calls=set())
    o.CAP = 64
    o.go()
    r.paths += len(o.outcomes)
    bad = [oc for oc in o.outcomes if any(e[0] == 'write' and e[1] == '*' + ph for e in oc['events']) and not may_succeed(oc)]
    bad += [oc for oc in o.outcomes if oc['ret'] == 'CKR_OK' and not any(e[0] == 'write' and e[1] == '*' + ph for e in oc['events'])]
    if bad:
        r.violation(f['qname'], 'output handle written only on success', 'a path writes *%s and then fails, or succeeds without writing it: callers use the handle as the creation witness' % ph, file=f['file'], line=bad[0]['line'], path=bad[0]['path'])
    else:
        r.ok(f['qname'], 'output handle written only on success', '%d paths' % len(o.outcomes), file=f['file'], line=f['line'])


class Txn(Interp):
    TRACK = ('rv', 'bOK')
    CAP = 96

    def __init__(self, fn, prog):
        super().__init__(fn, prog)
        self.rets, self.late = [], []
        self.track_facts = re.compile(r'^\*?\w+$')

    def objname(self, e):
        r = e.get('recv')
        return canon(r) if r is not None else None

    def on_call(self, e, st):
        if e.get('k') != 'Call':
            return
        c = short(e.get('callee'))
        o = self.objname(e)
        if o is None:
            return
        if c == 'startTransaction':
            st.aut['t:' + o] = 'started?'
        elif c == 'commitTransaction' and st.aut.get('t:' + o) in ('open', 'started?'):
            st.aut['t:' + o] = 'closed'
        elif c == 'abortTransaction' and st.aut.get('t:' + o) in ('open', 'started?'):
            st.aut['t:' + o] = 'aborted'
        elif c == 'destroyObject' and ('t:' + o) in st.aut:
            st.aut['t:' + o] = 'destroyed'
        elif c == 'setAttribute' and st.aut.get('t:' + o) == 'aborted':
            self.late.append((e, st.copy(), o))

    def on_fact(self, atom, truth, st):
        if atom.startswith('startTransaction@'):
            pc = parse_call(atom)
            if pc and pc[1]:
                o = pc[1][0]
                if st.aut.get('t:' + o) == 'started?':
                    st.aut['t:' + o] = 'open' if truth else 'none'

    def on_return(self, s, st):
        self.rets.append((s, st.copy(), ret_class(s, st)))


def r2_pairing(ctx, prog, rule_id='C09.R2'):
    r = ctx.rule(rule_id, 'every opened transaction is committed or aborted before the function returns; nothing is stored after an abort', floor=18, engine='E3')
    for f in sorted(prog.functions.values(), key=lambda f: (f['file'], f['line'])):
        if not (f['file'].endswith('SoftHSM.cpp') or f['file'].endswith('P11Objects.cpp') or f['file'].endswith('P11Attributes.cpp')):
            continue
        if not list(calls(f['body'], short='startTransaction')):
            continue
        ctx.analysed(f)
        if not check_analysable(r, f):
            continue
        a = Txn(f, prog).go()
        r.paths += a.paths_returned
        bad = [(s, st, k) for s, st, rc in a.rets for k, v in st.aut.items() if k.startswith('t:') and v in ('open', 'started?')]
        site = 'transactions of %s' % f['qname'].split('::')[-1]
        if bad:
            s, st, k = bad[0]
            r.violation(f['qname'], site, 'return at line %s leaves the transaction on %s open (neither commitTransaction nor abortTransaction nor destroyObject on the path): partial attribute changes stay applied / the object stays locked' % (s['l'], k[2:]),
                        file=f['file'], line=s['l'], path=st.show_path())
        elif a.late:
            e, st, o = a.late[0]
            r.violation(f['qname'], site, 'setAttribute on %s at line %s after its transaction was aborted: the write is applied outside any transaction' % (o, e['l']), file=f['file'], line=e['l'], path=st.show_path())
        else:
            r.ok(f['qname'], site, '%d abstract return paths' % len(a.rets), file=f['file'], line=f['line'])


def pruned_walk(node, assume):
    """walk() that does not enter branches excluded by `assume` ({field name: truth}) when the condition is the bare field or its negation."""
    if not isinstance(node, dict):
        return
    yield node
    if node.get('k') == 'If' and assume:
        c = node['c']
        neg = False
        while c.get('k') == 'Un' and c.get('op') == '!':
            c, neg = c['e'], not neg
        if c.get('k') == 'Member' and c.get('base', {}).get('k') == 'This' and c['field'] in assume:
            truth = assume[c['field']] != neg
            yield from pruned_walk(node['c'], assume)
            yield from pruned_walk(node['t'] if truth else node.get('e'), assume)
            return
    for k, v in node.items():
        if isinstance(v, dict):
            yield from pruned_walk(v, assume)
        elif isinstance(v, list):
            for x in v:
                if isinstance(x, dict):
                    yield from pruned_walk(x, assume)


def writes_of(prog, qname, depth=3, seen=None, assume=None):
    """Fields (fq names) written, transitively, by a function: assignments, non-const method calls on fields, delete of fields.
    assume: {field: truth} — branches that the bare flag excludes are not looked at (what the function writes *while a transaction is open*)."""
    seen = seen if seen is not None else set()
    out = set()
    if qname in seen or depth < 0:
        return out
    seen.add(qname)
    for f in prog.fns(qname):
        # local references bound to (an element of) a field: a write through the reference is a write of the field
        refs = {}
        for n in walk(f['body']):
            if n.get('k') == 'Decl':
                for d in n['decls']:
                    if d.get('type', '').rstrip().endswith('&') and not d.get('type', '').startswith('const ') and d.get('init') is not None:
                        b = d['init']
                        while b is not None and (b.get('k') in ('Index', 'Paren', 'Cast') or (b.get('k') == 'Call' and short(b.get('callee')) == 'operator[]')):
                            b = b.get('base') or b.get('recv') or b.get('e')
                        if b is not None and b.get('k') == 'Member' and b.get('base', {}).get('k') == 'This':
                            refs[d['var']['name']] = b['fq']
        for n in (pruned_walk(f['body'], assume) if assume else walk(f['body'])):
            k = n.get('k')
            if k == 'Assign':
                t = n['a']
                while t.get('k') in ('Index', 'Paren') or (t.get('k') == 'Call' and short(t.get('callee')) == 'operator[]') or (t.get('k') == 'Un' and t.get('op') == '*'):
                    t = t.get('base') or t.get('recv') or t.get('e')
                if t.get('k') == 'Member' and t.get('base', {}).get('k') == 'This':
                    out.add(t['fq'])
                elif t.get('k') == 'Var' and t.get('name') in refs:
                    out.add(refs[t['name']])
            elif k == 'Call':
                rcv = n.get('recv')
                if rcv is not None and rcv.get('k') == 'Member' and rcv.get('base', {}).get('k') == 'This' and not n.get('const') and not is_pure_name(short(n.get('callee'))):
                    out.add(rcv['fq'])
                if n.get('own') and n.get('callee') and (rcv is None or rcv.get('k') == 'This'):
                    out |= writes_of(prog, n['callee'], depth - 1, seen, assume)
                    if n.get('virtual'):
                        pass
            elif k == 'Delete' and n['e'].get('k') == 'Member':
                out.add(n['e']['fq'])
    return out


def r3_rollback(ctx, prog):
    r = ctx.rule('C09.R3', 'abortTransaction undoes what setAttribute did inside the transaction (every OSObject implementation)', floor=2, engine='E7')
    impls = sorted(c for c in prog.subclasses('OSObject') if prog.fns(c + '::setAttribute'))
    for cls in impls:
        setw = writes_of(prog, cls + '::setAttribute', assume={'_transaction': True, 'inTransaction': True})
        abw = writes_of(prog, cls + '::abortTransaction', assume={'_transaction': True, 'inTransaction': True})
        stw = writes_of(prog, cls + '::startTransaction')
        f = prog.fn(cls + '::abortTransaction')
        ctx.analysed(f)
        containers = {w for w in setw if w.split('::')[-1] in ('attributes', '_attributes', '_transaction')}
        site = '%s::abortTransaction vs setAttribute' % cls
        if not containers:
            r.undecided(cls, site, 'setAttribute of %s writes no attribute container field (%s)' % (cls, sorted(setw)), file=f['file'], line=f['line'])
            continue
        # restored: abort writes the container itself (re-read / swap back), or start writes a snapshot field that abort reads back
        restored = containers & abw
        if restored:
            r.ok(cls, site, 'abortTransaction rewrites %s, which setAttribute modifies' % sorted(restored), file=f['file'], line=f['line'])
        else:
            r.violation(cls, site, 'setAttribute modifies %s while a transaction is open, but abortTransaction (mod-set %s) never restores it: a rejected template\'s prefix stays applied to %s objects'
                        % (sorted(containers), sorted(abw) or '{}', cls), file=f['file'], line=f['line'])

        # a snapshot the abort swaps back in must be empty again afterwards (and after a commit): the next transaction fills it entry by entry, and whatever an earlier
        # transaction left in it - the values that were rejected - would be 'restored' by the next abort
        swaps = [c for c in calls(f['body'], short='swap') if c.get('recv') is not None]
        snap = {x['field'] for c in swaps for side in ([c['recv']] + list(c.get('args', []))) if side is not None for x in walk(side) if x.get('k') == 'Member' and x['base'].get('k') == 'This'} - {w.split('::')[-1] for w in containers}
        for sfield in sorted(snap):
            emptiers = set()
            for g in prog.functions.values():
                if g.get('class') == cls and short(g['qname']) not in ('abortTransaction', 'commitTransaction', 'startTransaction'):
                    oo = Outcomes(g, prog, cenv={}, record_calls={'clear'})
                    oo.LOOP_ROUNDS = 1
                    oo.go()
                    if oo.outcomes and all(any(e[0] == 'call' and e[1] == 'clear' and e[2] and e[2][0] == sfield for e in oc['events']) for oc in oo.outcomes):
                        emptiers.add(short(g['qname']))
            for end in ('abortTransaction', 'commitTransaction'):
                g = prog.fn(cls + '::' + end)
                ctx.analysed(g)
                oo = Outcomes(g, prog, cenv={'inTransaction': 1}, record_calls={'clear', 'swap'} | emptiers).go()
                r.paths += len(oo.outcomes)
                site2 = '%s::%s leaves the snapshot %s empty' % (cls, end, sfield)
                bad = None
                done = [oc for oc in oo.outcomes if oc['retv'] == 1 or oc['ret'] in ('true', None)]
                for oc in done:
                    rel = [e for e in oc['events'] if e[0] == 'call' and (e[1] in emptiers or (e[1] in ('clear', 'swap') and any(sfield == a for a in e[2])))]
                    if not rel or rel[-1][1] == 'swap':
                        bad = oc
                        break
                if not done:
                    r.undecided(cls, site2, 'no completing path', file=g['file'], line=g['line'])
                elif bad:
                    r.violation(cls, site2, 'a completed %s leaves entries in %s (nothing empties it after the %s): the next startTransaction adds to that stale snapshot and the next abort restores values that were rejected or attributes that never existed'
                                % (end, sfield, 'swap' if any(e[1] == 'swap' for e in bad['events']) else 'transaction'), file=g['file'], line=bad['line'], path=bad['path'])
                else:
                    r.ok(cls, site2, 'emptied by %s' % (sorted(emptiers) or 'clear'), file=g['file'], line=g['line'])


def r4_store(ctx, prog):
    r = ctx.rule('C09.R4', 'the token registers a new object only after it was created valid; destroyObject works on invalid (half-written) objects too', floor=3, engine='E2')
    f = prog.fn('OSToken::createObject')
    ctx.analysed(f)

    def trig(e, st):
        if e.get('k') == 'Call' and short(e.get('callee')) in ('insert', 'push_back') and e.get('recv') is not None and canon(e['recv']) in ('objects', 'allObjects', 'currentFiles'):
            return 'registration in ' + canon(e['recv'])
        return None
    sf = SiteFacts(f, prog, trigger=trig).go()
    r.paths += sf.paths_returned
    for site, hits in sorted(sf.sites.items()):
        bad = [h for h in hits if not any(t and re.fullmatch(r'isValid(@\d+)?\(\w+\)|\w+\.valid', a) for a, t in h['facts'])]
        if bad:
            r.violation(f['qname'], site, 'the new object is registered with the token on a path where its file was not created valid', file=f['file'], line=bad[0]['line'], path=bad[0]['path'])
        else:
            r.ok(f['qname'], site, '%d abstract states' % len(hits), file=f['file'], line=hits[0]['line'])
    # a creation that fails (the first store of the new file did not work) must not leave the file behind: it would be indexed as an empty object next time
    o = Outcomes(f, prog, cenv={'valid': 1, re.compile(r'newObject(->|\.)valid'): 0}, record_calls={'remove', 'insert'}).go()
    r.paths += len(o.outcomes)
    fail = [oc for oc in o.outcomes if not any(e[0] == 'call' and e[1] == 'insert' for e in oc['events'])]
    left = [oc for oc in fail if not any(e[0] == 'call' and e[1] == 'remove' and any('getFilename' in a for a in e[2]) for e in oc['events'])]
    if not fail:
        r.undecided(f['qname'], 'failed creation removes its files', 'no failing path found', file=f['file'], line=f['line'])
    elif left:
        r.violation(f['qname'], 'failed creation removes its files', 'the object file could not be written and the function gives up without removing the file it created: the call fails, yet the next C_Initialize indexes the empty file as an object',
                    file=f['file'], line=left[0]['line'], path=left[0]['path'])
    else:
        r.ok(f['qname'], 'failed creation removes its files', '%d failing paths' % len(fail), file=f['file'], line=f['line'])
    # destroyObject implementations must not refuse because the object is invalid: clean-up relies on them after a failed write
    for cls in sorted(c for c in prog.subclasses('OSObject') if prog.fns(c + '::destroyObject')):
        g = prog.fn(cls + '::destroyObject')
        ctx.analysed(g)
        # every combination of the state flags the function reads (valid, inTransaction, ...), with the owner pointer set
        flds = sorted({n['field'] for n in walk(g['body']) if n.get('k') == 'Member' and n.get('base', {}).get('k') == 'This'})
        cinfo = prog.classes.get(cls, {})
        ftypes = {fl['name']: fl.get('type', '') for fl in cinfo.get('fields', [])}
        flags = [x for x in flds if ftypes.get(x, '') == 'bool' or x in ('valid', 'inTransaction')]
        owners = [x for x in flds if x not in flags]
        site = '%s::destroyObject in every object state' % cls
        bad = None
        total = 0
        for combo in product({fl: [0, 1] for fl in flags}) if flags else [{}]:
            cenv = dict(combo)
            cenv.update({o_: 1 for o_ in owners})
            cenv[re.compile(r'isValid(@\d+)?\(this\)')] = combo.get('valid', 0)
            o = Outcomes(g, prog, cenv=cenv).go()
            r.paths += len(o.outcomes)
            total += len(o.outcomes)
            acts = [oc for oc in o.outcomes if any(e[0] == 'call' and e[1] in ('deleteObject', 'destroyObject', 'remove', 'deleteStatement', 'dropTables', 'erase') for e in oc['events']) or oc['retv'] == 1]
            if o.outcomes and not acts:
                bad = (combo, o.outcomes[0])
        if bad:
            r.violation(cls, site, 'with %s no path reaches the removal: after a failed write (store() invalidates the object, a failed commit leaves the transaction open) the half-built object can no longer be cleaned up' % (
                ', '.join('%s=%s' % (k, 'true' if v else 'false') for k, v in sorted(bad[0].items())) or 'the owner set'), file=g['file'], line=g['line'], path=bad[1]['path'])
        else:
            r.ok(cls, site, 'flags %s: all %d combinations remove the object' % (flags or '-', 2 ** len(flags)), file=g['file'], line=g['line'])

    # ... and neither may the store they delegate to: <Store>::deleteObject(object) evaluated with the object marked invalid still reaches the removal it reaches for a valid one
    REMOVAL = ('remove', 'erase', 'dropTables', 'deleteStatement', 'destroyObject', 'deleteObject')
    for g in sorted(prog.functions.values(), key=lambda g: (g['file'], g['line'])):
        if short(g['qname']) != 'deleteObject' or g.get('class') in (None, 'SoftHSM') or not g['params'] or 'OSObject' not in (g['params'][0].get('type') or ''):
            continue
        ctx.analysed(g)
        reach = {}
        for ov in (1, 0):
            cenv = {'valid': 1, re.compile(r'\w+(->|\.)valid'): ov, re.compile(r'isValid(@\d+)?\((?!this\b).*\)'): ov}
            o = Outcomes(g, prog, cenv=cenv, record_calls=set(REMOVAL))
            o.LOOP_ROUNDS = 1
            o.go()
            r.paths += len(o.outcomes)
            reach[ov] = [oc for oc in o.outcomes if any(e[0] == 'call' and e[1] in REMOVAL for e in oc['events'])]
        site = '%s removes invalid objects too' % g['qname']
        if not reach[1]:
            r.undecided(g['qname'], site, 'no path reaches a removal even for a valid object', file=g['file'], line=g['line'])
        elif not reach[0]:
            r.violation(g['qname'], site, 'an object that is marked invalid is refused before anything is removed: an object file becomes invalid exactly when writing it failed, so the clean-up after a failed store leaves the half-written file on disk',
                        file=g['file'], line=g['line'])
        else:
            r.ok(g['qname'], site, '%d removing paths for a valid, %d for an invalid object' % (len(reach[1]), len(reach[0])), file=g['file'], line=g['line'])


def r5_cleanup_target(ctx, prog, rule_id='C09.R5'):
    """The failure clean-up of the generate/derive/unwrap functions destroys the object the caller's handle variable refers to.  That is the object of THIS call only if the
    function stored CK_INVALID_HANDLE (or the new handle) there before anything could fail: otherwise a failing call destroys whatever object the application's variable still named."""
    r = ctx.rule(rule_id, 'the failure clean-up destroys only what this call created (the handle slot is reset before the creating call)', floor=12, engine='E3 must-write before use')
    co = prog.fn('SoftHSM::CreateObject')
    ctx.analysed(co)
    hp = [pp['var']['name'] for pp in co['params'] if 'CK_OBJECT_HANDLE_PTR' in (pp.get('type') or '')]
    o = Outcomes(co, prog, cenv={'isInitialised': 1}, record_calls=set())
    o.CAP = 48
    o.LOOP_ROUNDS = 1
    o.go()
    callee_always_writes = bool(hp) and all(any(e[0] == 'write' and e[1] == '*' + hp[0] for e in oc['events']) for oc in o.outcomes if oc['ret'] != 'CKR_ARGUMENTS_BAD')
    for f in sorted(prog.functions.values(), key=lambda g: (g['file'], g['line'])):
        if f.get('class') != 'SoftHSM' or f['qname'] == 'SoftHSM::CreateObject':
            continue
        slots = [pp['var']['name'] for pp in f['params'] if 'CK_OBJECT_HANDLE_PTR' in (pp.get('type') or '')]
        if not slots or not any((c.get('callee') or '').startswith('HandleManager::destroyObject') for c in calls(f['body'])):
            continue
        ctx.analysed(f)
        o = Outcomes(f, prog, cenv={'isInitialised': 1}, record_calls={'CreateObject', 'destroyObject'})
        o.CAP = 32
        o.LOOP_ROUNDS = 1
        o.go()
        r.paths += len(o.outcomes)
        for P in slots:
            site = 'handle slot *%s' % P
            used = False
            bad = None
            for oc in o.outcomes:
                evs = oc['events']
                d = [i for i, e in enumerate(evs) if e[0] == 'call' and e[1] == 'destroyObject' and any(re.search(r'\*%s\b' % re.escape(P), a) for a in e[2])]
                if not d:
                    continue
                used = True
                c = [i for i, e in enumerate(evs) if e[0] == 'call' and e[1] == 'CreateObject' and P in e[2]]
                w = [i for i, e in enumerate(evs) if e[0] == 'write' and e[1] == '*' + P]
                first_risk = c[0] if c else d[0]
                if not callee_always_writes and not (w and w[0] < first_risk):
                    bad = (oc, evs[d[0]])
                    break
            if not used:
                continue
            if bad:
                r.violation(f['qname'], site, 'the clean-up at line %s destroys the object *%s names, but on this path *%s was not set by this call before the object creation could fail: a failing call destroys the object the caller\'s variable still referred to'
                            % (bad[1][3], P, P), file=f['file'], line=bad[1][3], path=bad[0]['path'])
            else:
                r.ok(f['qname'], site, 'reset before the creating call on every path that reaches the clean-up', file=f['file'], line=f['line'])


REJECTIONS = re.compile(r'CKR_(TEMPLATE_\w+|ATTRIBUTE_\w+|KEY_\w+|MECHANISM_\w+|DOMAIN_PARAMS_INVALID|ARGUMENTS_BAD|WRAPPED_KEY_\w+)')


def r6_commit_last(ctx, prog, rule_id='C09.R6'):
    """Whatever can reject a request is decided before the object's transaction is committed: once commitTransaction() has succeeded the new attribute values are on disk, and a
    call that then answers with a rejection code leaves the rejected state durable - visible to other processes at once, and to everybody if the process dies before the clean-up."""
    r = ctx.rule(rule_id, 'no rejection (template / attribute / key / mechanism error) is returned after the transaction of the object was committed', floor=5, engine='E3 typestate')
    for f in sorted(prog.functions.values(), key=lambda f: (f['file'], f['line'])):
        if f['body'] is None or not f['file'].endswith(('SoftHSM.cpp', 'P11Objects.cpp', 'P11Attributes.cpp')):
            continue
        commits = list(calls(f['body'], short='commitTransaction'))
        if not commits or unanalysable(f):
            continue
        if len(commits) > 1:
            continue        # key-pair generation builds two objects one after the other: the second one can only be judged after the first was committed (its clean-up is C09.R1)
        ctx.analysed(f)

        class A(Interp):
            TRACK = ('rv', 'bOK')

            def __init__(self, fn, prog):
                super().__init__(fn, prog)
                self.track_facts = re.compile(r'commitTransaction')
                self.rets = []

            def on_call(self, e, st):
                if e.get('k') == 'Call' and short(e.get('callee')) == 'startTransaction':
                    st.aut.pop('committed', None)

            def on_fact(self, atom, truth, st):
                pc = parse_call(atom)
                inner = atom
                m = re.fullmatch(r'EQ\((.*),(false|0)\)', atom)
                if m:
                    inner, truth = m.group(1), not truth
                if re.match(r'commitTransaction(@\d+)?\(', inner) and truth:
                    st.aut['committed'] = inner

            def on_return(self, s, st):
                self.rets.append((s, st.copy(), canon(s['e'], st.env) if s.get('e') is not None else ''))
        a = A(f, prog).go()
        r.paths += a.paths_returned
        site = 'exits after a successful commit'
        bad = [(s_, st, v) for s_, st, v in a.rets if st.aut.get('committed') and REJECTIONS.fullmatch(v)]
        if bad:
            s_, st, v = bad[0]
            r.violation(f['qname'], site, 'return %s at line %s is reached after %s succeeded: the values of a request that is being rejected are already on disk (another process, or a crash before the clean-up, sees the rejected object)' % (v, s_['l'], st.aut['committed'][:60]),
                        file=f['file'], line=s_['l'], path=st.show_path())
        else:
            r.ok(f['qname'], site, '%d exits, none rejects after the commit' % len(a.rets), file=f['file'], line=f['line'])


def r7_failed_destroy_keeps_object(ctx, prog):
    """C_DestroyObject can fail after all its checks passed: the file of a token object cannot be removed.  "A call that fails has no effect": the handle is dropped only after the
    store reported the object destroyed, and the store invalidates the in-memory object only after the file is gone."""
    r = ctx.rule('C09.R7', 'a failing C_DestroyObject keeps handle and object: both are given up only after the removal succeeded', floor=1, engine='E2 dominance')
    f = prog.fn('SoftHSM::C_DestroyObject')
    ctx.analysed(f)

    def trig(e, st):
        if e.get('k') == 'Call' and e.get('callee') == 'HandleManager::destroyObject':
            return ('forget', e['l'])
        return None
    sf = SiteFacts(f, prog, trigger=trig, track_facts=r'destroyObject').go()
    r.paths += sf.paths_returned
    if not sf.sites:
        r.undecided(f['qname'], 'handle dropped', 'no call of HandleManager::destroyObject found', file=f['file'], line=f['line'])
    for (_, line), hits in sorted(sf.sites.items()):
        bad = [h for h in hits if not any(t and re.match(r'destroyObject(@\d+)?\((?!handleManager)', a) for a, t in h['facts'])]
        site = 'handle dropped@%d' % line
        if bad:
            r.violation(f['qname'], site, 'the handle is forgotten before the object is known to be destroyed: when the store cannot remove the object (its file cannot be deleted) the call fails with the object intact, yet its handle is invalid from then on',
                        file=f['file'], line=line, path=bad[0]['path'])
        else:
            r.ok(f['qname'], site, 'after destroyObject() succeeded', file=f['file'], line=line)
    g = prog.fn('OSToken::deleteObject')
    ctx.analysed(g)

    def trig2(e, st):
        if e.get('k') == 'Call' and short(e.get('callee')) == 'invalidate':
            return ('invalidate', e['l'])
        return None
    sf = SiteFacts(g, prog, trigger=trig2, track_facts=r'remove').go()
    r.paths += sf.paths_returned
    if not sf.sites:
        r.undecided(g['qname'], 'instance invalidated', 'no invalidate() call found', file=g['file'], line=g['line'])
    for (_, line), hits in sorted(sf.sites.items()):
        # a true `remove(...)` fact that is a call of Directory::remove (resolved callee; the receiver may be the member or an alias of it)
        rm = [c for c in calls(g['body'], short='remove')]
        all_dir = bool(rm) and all(c.get('callee') == 'Directory::remove' for c in rm)
        bad = [h for h in hits if not any(t and all_dir and re.match(r'remove(@\d+)?\(', a) for a, t in h['facts'])]
        site = 'instance invalidated@%d' % line
        if bad:
            r.violation(g['qname'], site, 'the in-memory object is invalidated before its file was removed: a removal that fails leaves the object on disk but invisible and unusable in this process', file=g['file'], line=line, path=bad[0]['path'])
        else:
            r.ok(g['qname'], site, 'after the object file was removed', file=g['file'], line=line)


def run(ctx):
    prog = ctx.prog('ossl-file')
    r1_cleanup(ctx, prog)
    r2_pairing(ctx, prog)
    r3_rollback(ctx, prog)
    r4_store(ctx, prog)
    r5_cleanup_target(ctx, prog)
    r6_commit_last(ctx, prog)
    r7_failed_destroy_keeps_object(ctx, prog)


MUTANTS = [
    dict(name='sessionobject-commit-keeps-snapshot', rule='C09.R3', file='src/lib/object_store/SessionObject.cpp', after='bool SessionObject::commitTransaction()',
         old='\tdiscardSavedAttributes();\n', new=''),
    dict(name='generateaes-slot-reset-after-create', rule='C09.R5', file='src/lib/SoftHSM.cpp', after='CK_RV SoftHSM::generateAES',
         old='\t*phKey = CK_INVALID_HANDLE;\n', new=''),
    dict(name='createobject-failure-leaves-file', rule='C09.R4', file='src/lib/object_store/OSToken.cpp', after='OSObject* OSToken::createObject()',
         old='\t\ttokenDir->remove(newObject->getFilename());\n\t\ttokenDir->remove(newObject->getLockname());\n', new=''),
    dict(name='generatedes3-no-cleanup', rule='C09.R1', function='generateDES3', file='src/lib/SoftHSM.cpp', after='CK_RV SoftHSM::generateDES3',
         old='\t\t\tif (oskey) oskey->destroyObject();\n', new=''),
    dict(name='copyobject-savetemplate-failure-keeps-object', rule='C09.R1', function='C_CopyObject', file='src/lib/SoftHSM.cpp', after='rv = newp11object->saveTemplate(token, isPrivate != CK_FALSE, pTemplate, ulCount, OBJECT_OP_COPY);',
         old='\tif (rv != CKR_OK)\n\t{\n\t\tnewobject->destroyObject();\n\t\treturn rv;\n\t}', new='\tif (rv != CKR_OK)\n\t{\n\t\treturn rv;\n\t}'),
    dict(name='unwrap-cleanup-order-swapped', rule='C09.R1', function='C_UnwrapKey', file='src/lib/SoftHSM.cpp', after='CK_RV SoftHSM::C_UnwrapKey',
         old='\t\t\tOSObject* obj = (OSObject*)handleManager->getObject(*hKey);\n\t\t\thandleManager->destroyObject(*hKey);', new='\t\t\thandleManager->destroyObject(*hKey);\n\t\t\tOSObject* obj = (OSObject*)handleManager->getObject(*hKey);'),
    dict(name='savetemplate-exit-without-abort', rule='C09.R2', function='saveTemplate', file='src/lib/P11Objects.cpp', after='CK_RV P11Object::saveTemplate',
         old='\t\t\tosobject->abortTransaction();\n\t\t\treturn CKR_ATTRIBUTE_TYPE_INVALID;', new='\t\t\treturn CKR_ATTRIBUTE_TYPE_INVALID;'),
    dict(name='objectfile-destroy-refuses-invalid', rule='C09.R4', file='src/lib/object_store/ObjectFile.cpp', after='bool ObjectFile::destroyObject()',
         old='{\n', new='{\n\tif (!valid) return false;\n'),
    dict(name='sessionobject-abort-keeps-changes', rule='C09.R3', file='src/lib/object_store/SessionObject.cpp', after='bool SessionObject::abortTransaction()',
         old='\tattributes.swap(savedAttributes);\n\tdiscardSavedAttributes();', new='\tdiscardSavedAttributes();'),
]
