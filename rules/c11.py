"""C11 — handles are never reused and die exactly with what they denote (DESIGN.md §3 C11)."""
import re
from engine.rulelib import *
from engine import callgraph
from rules import common_handles as ch

EXPLANATION = (
    "Static decision of the structural clauses of C11. R1 (who-may-write): HandleManager::handleCounter is only ever pre-incremented (and zeroed in the constructor) and every insertion into "
    "the handle map is keyed by that pre-increment. R2 (pairing): C_CloseSession, C_CloseAllSessions, C_Logout and C_DestroyObject are enumerated path by path: every path that can succeed performs "
    "the handle purge, the session-object purge and the state change, each with the session / slot / handle of this very call; any other entry point from which Token::logout is reachable in the call graph "
    "must purge as well. R3: every use of a handle-derived object is dominated by non-NULL and isValid() (non-NULL for objects the call created itself). R4: every handle registration outside HandleManager "
    "passes the object's own privacy flag, the token/session variant that matches its CKA_TOKEN, this call's session and this session's slot. R5: the purge predicates of HandleManager are evaluated over the "
    "finite domain {handle kind} x {same slot} x {same session} x {private}: an entry is erased exactly when the property says so, and object handles leave both maps together. "
    "Histories (checking every handle after every call) are a runtime quantity and are not executed.")
ASSUMPTIONS = ['std::map semantics of insert/erase are trusted', 'objects are identified by the local variable that names them', 'the call graph resolves virtual calls by class-hierarchy analysis']
TECHNIQUE = 'custom static analysis over the clang AST: who-may-write set and expression shape of the handle counter, path enumeration of the four invalidating entry points, call-graph reachability, dominating-fact dataflow at handle uses and registrations, finite-domain evaluation of the purge predicates'
LEVEL_TEXT = ('All writes of the counter, all successful paths of the invalidating entry points, all handle-use and registration sites and the full finite domain of each purge predicate are decided on the current source; '
              'this is the structural part of C11 — which handles are alive after a given history is not computed.')
LEVEL_NOTE = 'trusted: clang front end, normaliser, abstract interpreter; libstdc++ container semantics; alias assumption on OSObject* locals'


def r1_counter(ctx, prog):
    r = ctx.rule('C11.R1', 'the handle counter is only pre-incremented and every new handle is that pre-incremented value', floor=5, engine='E5')
    for f in prog.functions.values():
        nodes = [f['body']] + [i.get('init') for i in f.get('inits', [])]
        for root in nodes:
            for n in walk(root):
                k = n.get('k')
                tgt = None
                if k == 'Assign' and n['a'].get('k') == 'Member' and n['a'].get('fq') == 'HandleManager::handleCounter':
                    val = canon(n['b'])
                    if n['op'] == '=' and val == '0' and f.get('mkind') == 'ctor':
                        r.ok(f['qname'], 'handleCounter = 0', 'initialised in the constructor', file=f['file'], line=n['l'])
                    else:
                        r.violation(f['qname'], 'handleCounter %s %s' % (n['op'], val), 'the handle counter is assigned outside the constructor / not by pre-increment: handles can be issued twice', file=f['file'], line=n['l'])
                if k == 'Un' and n['op'] in ('++', '--') and n['e'].get('k') == 'Member' and n['e'].get('fq') == 'HandleManager::handleCounter':
                    if n['op'] == '++' and not n.get('post'):
                        r.ok(f['qname'], '++handleCounter@%s' % f['qname'].split('::')[-1], 'pre-increment', file=f['file'], line=n['l'])
                    else:
                        r.violation(f['qname'], '%shandleCounter%s' % ('' if n.get('post') else n['op'], n['op'] if n.get('post') else ''),
                                    'the handle counter is %s: a handle value can be issued twice' % ('decremented' if n['op'] == '--' else 'post-incremented (the old value is used as the key)'), file=f['file'], line=n['l'])
                # insertions into handles
                if k == 'Assign' and n['a'].get('k') == 'Call' and short(n['a'].get('callee')) == 'operator[]' and n['a'].get('recv', {}).get('fq') == 'HandleManager::handles':
                    idx = canon(n['a']['args'][0])
                    if idx == '++handleCounter':
                        r.ok(f['qname'], 'handles[++handleCounter]', 'new entry keyed by the pre-incremented counter', file=f['file'], line=n['l'])
                    else:
                        r.violation(f['qname'], 'handles[%s]' % idx, 'a handle-map entry is created under a key that is not the freshly incremented counter', file=f['file'], line=n['l'])
    # returned handle of the add* functions: the counter (new) or the handle already registered for the same object
    for name in ('HandleManager::addSession', 'HandleManager::addSessionObject', 'HandleManager::addTokenObject'):
        f = prog.fn(name)
        ctx.analysed(f)
        o = Outcomes(f, prog, cenv={}).go()
        r.paths += len(o.outcomes)
        def registered_value(v):
            return v in ('handleCounter', 'CK_INVALID_HANDLE') or bool(re.fullmatch(r'operator->\(.*\)\.second', v or ''))

        def filled_by_helper(v):
            # a local handed by reference to a file-local helper: fine if everything the helper stores there is the registered handle or CK_INVALID_HANDLE
            for c in calls(f['body']):
                q = c.get('callee') or ''
                gs = [g for g in prog.fns(q) if not g.get('class') and g['file'] == f['file']] if q and '::' not in q else []
                if len(gs) != 1:
                    continue
                for i, a in enumerate(c.get('args', [])):
                    if a is not None and a.get('k') == 'Var' and a['name'] == v and i < len(gs[0]['params']) and '&' in (gs[0]['params'][i].get('type') or ''):
                        pn = gs[0]['params'][i]['var']['name']
                        ws = [canon(n['b']) for n in walk(gs[0]['body']) if n.get('k') == 'Assign' and n['a'].get('k') == 'Var' and n['a']['name'] == pn]
                        return bool(ws) and all(registered_value(w) for w in ws)
            return False
        bad = [oc for oc in o.outcomes if not registered_value(oc['ret']) and not filled_by_helper(oc['ret'])]
        bad += [oc for oc in o.outcomes if oc['ret'] == 'handleCounter' and not any(e[0] == 'call' and e[1] == 'operator[]' and e[2][:2] == ('handles', '++handleCounter') for e in oc['events'])]
        if bad:
            r.violation(name, 'returned handle', 'a path returns %s, which is neither the freshly incremented counter nor the handle already registered for this object' % bad[0]['ret'], file=f['file'], line=bad[0]['line'], path=bad[0]['path'])
        else:
            r.ok(name, 'returned handle', '%d paths' % len(o.outcomes), file=f['file'], line=f['line'])


PAIRING = {
    # entry point: [(description, short callee, receiver field, [arg canon patterns])]
    'SoftHSM::C_CloseSession': [('handle purge', 'sessionClosed', 'handleManager', [r'{p0}']), ('session-object purge', 'sessionClosed', 'sessionObjectStore', [r'{p0}']),
                                ('session close', 'closeSession', 'sessionManager', [r'getHandle\({session}\)'])],
    'SoftHSM::C_CloseAllSessions': [('handle purge', 'allSessionsClosed', 'handleManager', [r'{p0}', r'.*']), ('session-object purge', 'allSessionsClosed', 'sessionObjectStore', [r'{p0}']),
                                    ('session close', 'closeAllSessions', 'sessionManager', [r'{slot}'])],
    'SoftHSM::C_Logout': [('logout', 'logout', '{token}', []), ('handle purge', 'tokenLoggedOut', 'handleManager', [r'getSlotID\(getSlot\({session}\)\)|getSlotID\({sslot}\)']),
                          ('session-object purge', 'tokenLoggedOut', 'sessionObjectStore', [r'getSlotID\(getSlot\({session}\)\)|getSlotID\({sslot}\)'])],
    'SoftHSM::C_DestroyObject': [('handle purge', 'destroyObject', 'handleManager', [r'{p1}']), ('object destruction', 'destroyObject', '{object}', [])],
}


def provenance(f):
    """Names of the locals obtained from this call's own session / slot / token / object."""
    d = {'p0': param_name(f, 0), 'p1': param_name(f, 1) if len(f['params']) > 1 else '\0'}
    names = {'session': '\0', 'slot': '\0', 'token': '\0', 'object': '\0', 'sslot': '\0'}
    for v, c in local_from_call(f, 'getSession'):
        if canon(c['args'][0]) == d['p0']:
            names['session'] = v
    for v, c in local_from_call(f, 'getSlot'):
        if c.get('args') and canon(c['args'][0]) == d['p0']:
            names['slot'] = v                      # slotManager->getSlot(slotID)
        elif c.get('recv') is not None and canon(c['recv']) == names['session']:
            names['sslot'] = v                     # session->getSlot()
    for v, c in local_from_call(f, 'getToken'):
        if c.get('recv') is not None and canon(c['recv']) in (names['session'], names['slot']):
            names['token'] = v
    for v, c in local_from_call(f, 'getObject'):
        if canon(c['args'][0]) == d['p1']:
            names['object'] = v
    d.update(names)
    return {k: re.escape(v) for k, v in d.items()}


def r2_pairing(ctx, prog):
    r = ctx.rule('C11.R2', 'every successful path of an invalidating entry point purges handles and session objects for this session/slot/handle', floor=11, engine='E3+E6')
    for q, reqs in PAIRING.items():
        f = prog.fn(q)
        ctx.analysed(f)
        if not check_analysable(r, f):
            continue
        names = provenance(f)
        wanted = {c for _, c, _, _ in reqs}
        o = Outcomes(f, prog, cenv={}, record_calls=wanted).go()
        r.paths += len(o.outcomes)
        succ = [oc for oc in o.outcomes if may_succeed(oc)]
        if not succ:
            r.undecided(q, 'successful paths', 'no path that can return CKR_OK was found', file=f['file'], line=f['line'])
            continue
        for desc, callee, recv, argpats in reqs:
            rrx = re.compile(recv.format(**names))
            arx = [re.compile(p.format(**names)) for p in argpats]
            bad = None
            for oc in succ:
                ok = False
                for e in oc['events']:
                    if e[0] == 'call' and e[1] == callee and e[2] and rrx.fullmatch(e[2][0]):
                        args = e[2][1:]
                        if all(i < len(args) and arx[i].fullmatch(args[i]) for i in range(len(arx)) if arx[i].pattern != '.*'):
                            ok = True
                if not ok:
                    bad = oc
                    break
            site = '%s: %s' % (desc, callee)
            if bad:
                r.violation(q, site, 'a path that can return CKR_OK (return at line %s) does not perform the %s (%s on %s with this call\'s %s)' % (bad['line'], desc, callee, recv.format(**{k: k for k in names}), '/'.join(argpats) or 'object'),
                            file=f['file'], line=bad['line'], path=bad['path'])
            else:
                r.ok(q, site, '%d successful paths' % len(succ), file=f['file'], line=f['line'])
    # general form: whoever can reach Token::logout must purge
    hp = {'HandleManager::tokenLoggedOut', 'HandleManager::allSessionsClosed', 'HandleManager::sessionClosed'}
    sp = {'SessionObjectStore::tokenLoggedOut', 'SessionObjectStore::allSessionsClosed', 'SessionObjectStore::sessionClosed'}
    n = 0
    for f in prog.functions.values():
        if f.get('class') == 'SoftHSM' and f['qname'].startswith('SoftHSM::C_'):
            n += 1
            rs = callgraph.reach(prog, f['qname'])
            if 'Token::logout' in rs:
                site = 'reaches Token::logout'
                if f['qname'] in PAIRING:
                    r.ok(f['qname'], site, 'pairing checked path by path above', file=f['file'], line=f['line'])
                elif rs & hp and rs & sp:
                    r.ok(f['qname'], site, 'reaches a handle purge and a session-object purge', file=f['file'], line=f['line'])
                else:
                    r.violation(f['qname'], site, 'this entry point can log the token out but reaches no %s' % ('handle purge' if not rs & hp else 'session-object purge'), file=f['file'], line=f['line'])
    r.info('%d SoftHSM::C_* entry points examined for reachability of Token::logout' % n)


def r3_validate(ctx, prog, rule_id='C11.R3'):
    r = ctx.rule(rule_id, 'every use of a handle-derived object is dominated by a NULL test and isValid()', floor=60, engine='E2')
    for f in sorted(prog.functions.values(), key=lambda f: (f['file'], f['line'])):
        if f.get('class') != 'SoftHSM' or not handle_objects(f):
            continue
        ctx.analysed(f)
        if not check_analysable(r, f):
            continue
        res = ch.analyse(prog, f)
        r.paths += res[0]['paths'] if res else 0
        for o in res:
            var = o['var']
            own = set(o['kinds']) == {'own'}
            for site, hits in sorted(o['uses'].items()):
                bad = None
                for h in hits:
                    if (var, True) not in h['facts']:
                        bad = ('is not known to be non-NULL', h)
                    elif not own and ('isValid(%s)' % var, True) not in h['facts']:
                        bad = ('was not validated with isValid()', h)
                    if bad:
                        break
                if bad:
                    r.violation(f['qname'], site, 'object %s (from handle %s) %s on a path reaching this use: a stale or foreign handle is dereferenced' % (var, o['handles'][0][0], bad[0]),
                                file=f['file'], line=bad[1]['line'], path=bad[1]['path'])
                else:
                    r.ok(f['qname'], site, '%d abstract states' % len(hits), file=f['file'], line=hits[0]['line'])


def r4_registration(ctx, prog):
    r = ctx.rule('C11.R4', 'handles are registered with the object\'s own privacy flag, matching token/session variant, this session and this slot', floor=6, engine='E2')
    for f in sorted(prog.functions.values(), key=lambda f: (f['file'], f['line'])):
        if f.get('class') != 'SoftHSM':
            continue
        sites = [c for c in calls(f['body']) if short(c.get('callee')) in ('addTokenObject', 'addSessionObject')]
        if not sites:
            continue
        ctx.analysed(f)

        def trig(e, st):
            if e.get('k') == 'Call' and short(e.get('callee')) in ('addTokenObject', 'addSessionObject'):
                return (short(e['callee']), tuple(canon(a, st.env) for a in e['args']))
            return None
        sf = SiteFacts(f, prog, trigger=trig, track_facts=r'^EQ\(haveWrite|CKA_TOKEN|^\w+$').go()
        r.paths += sf.paths_returned
        names = provenance(f)
        per_site = {}
        for (callee, args), hits in sf.sites.items():
            per_site.setdefault(callee, []).append((args, hits))
        for callee, lst in sorted(per_site.items()):
            bad = None
            for args, hits in lst:
                slot, priv, obj = args[0], args[-2], args[-1]
                hsess = args[1] if callee == 'addSessionObject' else None
                for h in hits:
                    # candidate (token flag, private flag) pairs: from the haveWrite fact, or from the object itself
                    cands = []
                    for a, t in h['facts']:
                        pc = parse_call(a) if t and a.startswith('EQ(haveWrite(') else None
                        if pc and pc[1][1] == 'CKR_OK':
                            hw = parse_call(pc[1][0])
                            if hw and len(hw[1]) == 3:
                                cands.append((hw[1][1], hw[1][2]))
                    cands.append((re.compile(r'getBooleanValue\(%s,CKA_TOKEN,\w+\)' % re.escape(obj)), re.compile(r'getBooleanValue\(%s,CKA_PRIVATE,\w+\)' % re.escape(obj))))
                    ok = False
                    for T, Pv in cands:
                        def m(pat, s):
                            return bool(pat.fullmatch(s)) if hasattr(pat, 'fullmatch') else pat == s
                        pcore = re.sub(r'^\((.*)!=CK_FALSE\)$', r'\1', priv)
                        if not m(Pv, pcore):
                            continue
                        want = callee == 'addTokenObject'
                        if any(t == want and m(T, a) for a, t in h['facts']):
                            ok = True
                    why = None
                    if not ok:
                        why = 'the privacy flag %s / the token-or-session choice is not derived from this object\'s own CKA_PRIVATE / CKA_TOKEN (or the flags checked by haveWrite)' % priv
                    elif not re.fullmatch(r'getSlotID\((%s|%s)\)' % (names['sslot'], names['slot']) + '|getSlotID\(getSlot\(%s\)\)' % names['session'], slot) and not slot_ok(f, slot, names):
                        why = 'slot argument %s is not the slot of this call\'s session' % slot
                    elif hsess is not None and hsess != param_name(f, 0):
                        why = 'session argument %s is not this call\'s session handle' % hsess
                    if why:
                        bad = (why, h)
                        break
                if bad:
                    break
            if bad:
                r.violation(f['qname'], callee, bad[0] + ': the handle would survive (or die with) the wrong logout/close', file=f['file'], line=bad[1]['line'], path=bad[1]['path'])
            else:
                r.ok(f['qname'], callee, '%d abstract states' % sum(len(h) for _, h in lst), file=f['file'], line=lst[0][1][0]['line'])


def slot_ok(f, slot, names):
    # a scalar local holding slot->getSlotID() is substituted already; accept a Slot* local obtained from the session
    for v, c in local_from_call(f, 'getSlot'):
        if slot == 'getSlotID(%s)' % v and c.get('recv') is not None and re.fullmatch(names['session'], canon(c['recv'])):
            return True
    return False


def r5_predicates(ctx, prog, rule_id='C11.R5'):
    r = ctx.rule(rule_id, 'purge predicates erase exactly the affected handles, object handles leave both maps together', floor=20, engine='E1+E3 finite-domain path enumeration')
    KS, KO = macro(prog, 'CKH_SESSION'), macro(prog, 'CKH_OBJECT')
    SLOT, HS = 7, 41

    def run(fname, dom, expect, extra=None):
        f = prog.fn(fname)
        ctx.analysed(f)
        for d in product(dom):
            cenv = dict(extra or {})
            cenv.update({re.compile(r'.*\.kind'): d['kind'], re.compile(r'.*\.slotID'): SLOT if d.get('sameslot', 1) else SLOT + 1, 'slotID': SLOT,
                    re.compile(r'.*\.hSession'): HS if d.get('samesession', 1) else HS + 1, 'hSession': HS, re.compile(r'.*\.isPrivate'): d.get('private', 0)})
            o = Outcomes(f, prog, cenv=cenv, record_calls={'erase', 'allSessionsClosed'})
            o.LOOP_ROUNDS = 2
            o.go()
            r.paths += len(o.outcomes)
            want = expect(d)
            site = '%s kind=%s %s' % (fname.split('::')[1], 'OBJECT' if d['kind'] == KO else 'SESSION', ' '.join('%s=%d' % (k, v) for k, v in sorted(d.items()) if k != 'kind'))
            bad = None
            for oc in o.outcomes:
                he = [e for e in oc['events'] if e[1] == 'erase' and e[2][0] == 'handles' and e[3] >= loopline[fname]]
                oe = [e for e in oc['events'] if e[1] == 'erase' and e[2][0] == 'objects' and e[3] >= loopline[fname]]
                if want and not he and looped(oc, fname):
                    bad = ('an affected entry is not erased from the handle map', oc)
                elif not want and he:
                    bad = ('an unaffected entry is erased from the handle map', oc)
                elif he and d['kind'] == KO and not oe:
                    bad = ('an object handle is erased from the handle map but stays in the object map', oc)
                if bad:
                    break
            if bad:
                r.violation(fname, site, '%s (entry with %s)' % (bad[0], site), file=f['file'], line=bad[1]['line'], path=bad[1]['path'])
            elif want and not any(e[1] == 'erase' and e[2][0] == 'handles' and e[3] >= loopline[fname] for oc in o.outcomes for e in oc['events']):
                # nothing is erased on any path: the iterations leave no trace, the states merge and no path shows the loop marker
                if o.outcomes and loopline[fname]:
                    r.violation(fname, site, 'an affected entry is not erased from the handle map on any path (entry with %s)' % site, file=f['file'], line=loopline[fname])
                else:
                    r.undecided(fname, site, 'no path / no loop over the handle map found', file=f['file'], line=f['line'])
            else:
                r.ok(fname, site, '%d paths; expected %s' % (len(o.outcomes), 'erase' if want else 'keep'), file=f['file'], line=f['line'])
    # line of the loop in each function (events before it — e.g. erasing the session's own entry — are not about the iterated entry)
    loopline = {}
    for fname in ('HandleManager::tokenLoggedOut', 'HandleManager::allSessionsClosed', 'HandleManager::sessionClosed', 'HandleManager::destroyObject'):
        f = prog.fn(fname)
        ls = [n['l'] for n in walk(f['body']) if n.get('k') in ('For', 'While')]
        loopline[fname] = ls[0] if ls else 0

    def looped(oc, fname):
        # the path went through at least one loop iteration
        return ('%d:L' % loopline[fname]) in oc['path']
    run('HandleManager::tokenLoggedOut', {'kind': [KS, KO], 'sameslot': [0, 1], 'private': [0, 1]}, lambda d: d['kind'] == KO and d['sameslot'] and d['private'])
    run('HandleManager::allSessionsClosed', {'kind': [KS, KO], 'sameslot': [0, 1]}, lambda d: bool(d['sameslot']), extra={'isLocked': 1})
    run('HandleManager::sessionClosed', {'kind': [KS, KO], 'sameslot': [0, 1], 'samesession': [0, 1]}, lambda d: d['kind'] == KO and d['samesession'],
        extra={re.compile(r'operator==\(find(@\d+)?\(.*\),end\(handles\)\)'): 0, re.compile(r'operator->\(find(@\d+)?\(.*\)\)\.second\.kind'): KS,
               re.compile(r'operator->\(find(@\d+)?\(.*\)\)\.second\.slotID'): SLOT})
    # destroyObject: erases iff found and an object
    f = prog.fn('HandleManager::destroyObject')
    for found in (0, 1):
        for kind in (KS, KO):
            o = Outcomes(f, prog, cenv={re.compile(r'operator!=\(.*,end\(handles\)\)'): found, re.compile(r'.*\.kind'): kind}, record_calls={'erase'}).go()
            r.paths += len(o.outcomes)
            want = bool(found and kind == KO)
            site = 'destroyObject found=%d kind=%s' % (found, 'OBJECT' if kind == KO else 'SESSION')
            bad = None
            for oc in o.outcomes:
                he = [e for e in oc['events'] if e[2][0] == 'handles']
                oe = [e for e in oc['events'] if e[2][0] == 'objects']
                if bool(he) != want or bool(oe) != want:
                    bad = oc
            if bad:
                r.violation(f['qname'], site, 'expected %s of both map entries, the path erases handles:%d objects:%d' % ('erasure' if want else 'no erasure', len(he), len(oe)), file=f['file'], line=bad['line'], path=bad['path'])
            else:
                r.ok(f['qname'], site, 'as required', file=f['file'], line=f['line'])
    # SessionObject purge predicates: truth tables over (same slot, same session, private)
    for fname, want in (('SessionObject::removeOnSessionClose', lambda d: bool(d['samesession'])),
                        ('SessionObject::removeOnAllSessionsClose', lambda d: bool(d['sameslot'])),
                        ('SessionObject::removeOnTokenLogout', lambda d: bool(d['sameslot'] and d['private']))):
        g = prog.fn(fname)
        ctx.analysed(g)
        pn = param_name(g, 0)
        for d in product({'sameslot': [0, 1], 'samesession': [0, 1], 'private': [0, 1]}):
            cenv = {'slotID': SLOT, 'hSession': HS, 'isPrivate': d['private'], pn: (SLOT if d['sameslot'] else SLOT + 1) if 'Slot' in g['params'][0]['type'].replace('CK_SLOT_ID', 'Slot') else (HS if d['samesession'] else HS + 1)}
            o = Outcomes(g, prog, cenv=cenv, record_calls={'discardAttributes'}).go()
            r.paths += len(o.outcomes)
            got = {oc['retv'] for oc in o.outcomes}
            inval = [any(e[0] == 'write' and e[1].endswith('valid') and e[2] in ('false', '0') for e in oc['events']) for oc in o.outcomes]
            site = '%s slot=%d session=%d private=%d' % (fname.split('::')[1], d['sameslot'], d['samesession'], d['private'])
            w = want(d)
            if got != {int(w)} or (w and not all(inval)):
                r.violation(fname, site, 'answers %s, expected %s: %s' % (sorted(map(str, got)), w, 'the session object survives the event that must destroy it (it is found again through a new session)' if w else 'an object that must stay is destroyed'),
                            file=g['file'], line=g['line'], path=o.outcomes[0]['path'] if o.outcomes else None)
            else:
                r.ok(fname, site, 'as required', file=g['file'], line=g['line'])
    # sessionClosed: the session's own handle is erased and the last close purges the slot
    f = prog.fn('HandleManager::sessionClosed')
    o = Outcomes(f, prog, cenv={re.compile(r'operator==\(find(@\d+)?\(.*\),end\(handles\)\)'): 0, re.compile(r'.*\.kind'): KS, re.compile(r'operator->\(find(@\d+)?\(.*\)\)\.second\.slotID'): SLOT,
                                re.compile(r'.*\.slotID'): SLOT + 1, 'hSession': HS, 'slotID': SLOT,
                                re.compile(r'.*\.hSession'): HS + 1}, record_calls={'erase', 'allSessionsClosed'})
    o.LOOP_ROUNDS = 2
    o.go()
    # here the looked-up entry is a session (kind KS) and every iterated entry is a session of another slot: this was the last session of its slot
    bad = [oc for oc in o.outcomes if not any(e[1] == 'erase' and e[2][0] == 'handles' and e[3] < loopline['HandleManager::sessionClosed'] for e in oc['events'])]
    if not o.outcomes:
        r.undecided(f['qname'], 'own session handle', 'no path returns under the finite-domain assignment', file=f['file'], line=f['line'])
        return
    if bad:
        r.violation(f['qname'], 'own session handle', 'the closed session\'s own handle is not erased', file=f['file'], line=bad[0]['line'], path=bad[0]['path'])
    else:
        r.ok(f['qname'], 'own session handle', 'erased before the sweep', file=f['file'], line=f['line'])
    bad = [oc for oc in o.outcomes if not any(e[1] == 'allSessionsClosed' for e in oc['events'])]
    if any('slotID' in a for oc in o.outcomes for a, _ in oc['facts']):
        r.undecided(f['qname'], 'last session of the slot', 'the comparison of the closed session\'s slot with the iterated entry is not decided by the finite-domain assignment (local renamed?)', file=f['file'], line=f['line'])
    elif bad:
        r.violation(f['qname'], 'last session of the slot', 'closing the last session of a slot does not purge the slot\'s remaining handles', file=f['file'], line=bad[0]['line'], path=bad[0]['path'])
    else:
        r.ok(f['qname'], 'last session of the slot', 'allSessionsClosed is called when no other session of the slot is open', file=f['file'], line=f['line'])


def r6_store_key(ctx, prog, rule_id='C11.R6'):
    """Session objects are destroyed by SessionObjectStore::sessionClosed(hSession) with the handle C_CloseSession received.  They are found again only if they were created under that
    same handle: every SessionObjectStore::createObject call passes the CK_SESSION_HANDLE parameter of the API call (not an internal session number)."""
    r = ctx.rule(rule_id, 'session objects are created under the session handle that C_CloseSession will present', floor=2, engine='E2 value following')
    closers = [c for g in prog.functions.values() if g.get('class') == 'SoftHSM' for c in calls(g['body']) if (c.get('callee') or '').startswith('SessionObjectStore::sessionClosed')]
    for g in sorted(prog.functions.values(), key=lambda g: (g['file'], g['line'])):
        if g.get('class') != 'SoftHSM':
            continue
        hs = [pp['var']['name'] for pp in g['params'] if (pp.get('type') or '') == 'CK_SESSION_HANDLE']
        for c in calls(g['body']):
            q = c.get('callee') or ''
            if q.startswith('SessionObjectStore::sessionClosed'):
                ctx.analysed(g)
                a = canon(c['args'][0])
                if hs and a == hs[0]:
                    r.ok(g['qname'], 'sessionClosed', a, file=g['file'], line=c['l'])
                else:
                    r.violation(g['qname'], 'sessionClosed', 'the store is told that session %s closed, which is not the handle this call received (%s)' % (a, hs[0] if hs else '-'), file=g['file'], line=c['l'])
        if not any((c.get('callee') or '').startswith('SessionObjectStore::createObject') for c in calls(g['body'])):
            continue
        ctx.analysed(g)
        o = Outcomes(g, prog, cenv={'isInitialised': 1}, record_calls={'createObject'})
        o.CAP = 48
        o.LOOP_ROUNDS = 1
        o.go()
        r.paths += len(o.outcomes)
        evs = sorted({e for oc in o.outcomes for e in oc['events'] if e[0] == 'call' and e[1] == 'createObject' and len(e[2]) == 4}, key=lambda e: e[3])
        site = 'SessionObjectStore::createObject'
        if not evs:
            r.undecided(g['qname'], site, 'call not reached', file=g['file'], line=g['line'])
            continue
        bad = [e for e in evs if not hs or e[2][2] != hs[0]]
        if bad:
            r.violation(g['qname'], site, 'the session object is created under %s instead of the session handle of this call (%s): SessionObjectStore::sessionClosed(hSession) will not find it when the session closes, the object outlives its session'
                        % (bad[0][2][2], hs[0] if hs else '-'), file=g['file'], line=bad[0][3])
        else:
            r.ok(g['qname'], site, 'created under %s' % hs[0], file=g['file'], line=evs[0][3])


def r7_session_ids(ctx, prog, rule_id='C11.R7'):
    """A session handle is the position of the Session in SessionManager's table plus one: getSession(h) returns entry h-1.  openSession must therefore give a new session exactly the
    number of the entry it was stored in, for every pattern of free and used entries (holes left by closed sessions included) - otherwise the new handle denotes another, open session."""
    import itertools
    from engine.interp import St
    from rules.c03 import _table_env, _table_cenv
    r = ctx.rule(rule_id, 'a new session gets the number of the table entry it is stored in; getSession reads that entry', floor=10, engine='E1 finite-domain, concrete small vector')
    f = prog.fn('SessionManager::openSession')
    ctx.analysed(f)
    for occ in itertools.product([0, 1], repeat=3):
        vals = [(7, 1) if x else None for x in occ]
        cenv = _table_cenv(vals, {param_name(f, 4): 1, param_name(f, 0): 1, param_name(f, 1): 6, re.compile(r'getToken(@\d+)?\(\w+\)'): 1,
                                  re.compile(r'isInitialized(@\d+)?\(\w+\)'): 1, re.compile(r'isSOLoggedIn(@\d+)?\(\w+\)'): 0})
        o = Outcomes(f, prog, cenv=cenv, record_calls={'setHandle', 'push_back'})
        o.LOOP_ROUNDS = 6
        o.CAP = 256
        o.go(St(env=_table_env(vals)))
        r.paths += len(o.outcomes)
        site = 'openSession, table %s' % ''.join('S' if x else '-' for x in occ)
        okp = [oc for oc in o.outcomes if oc['ret'] == 'CKR_OK']
        bad = None
        for oc in okp:
            pos = None
            for e in oc['events']:
                m = re.fullmatch(r'operator\[\]\(sessions,(\d+)\)', e[1]) if e[0] == 'write' else None
                if m:
                    pos = int(m.group(1))
                elif e[0] == 'call' and e[1] == 'push_back':
                    pos = len(vals)
            hs = [e[2][1] for e in oc['events'] if e[0] == 'call' and e[1] == 'setHandle']
            free = [i for i, x in enumerate(occ) if not x]
            if pos is None or not hs:
                bad = ('undecided', 'the stored position / the number given to the session was not seen', oc)
            elif not str(hs[-1]).isdigit():
                bad = ('undecided', 'the number given to the session is not concrete: %s' % hs[-1], oc)
            elif int(hs[-1]) != pos + 1:
                bad = ('violated', 'the session is stored in entry %d of the table but is given the number %s: its handle denotes entry %d - %s' % (
                    pos, hs[-1], int(hs[-1]) - 1, 'another, open session' if int(hs[-1]) - 1 < len(occ) and occ[int(hs[-1]) - 1] else 'not the new session'), oc)
            elif pos < len(occ) and occ[pos]:
                bad = ('violated', 'the new session overwrites the used entry %d' % pos, oc)
            if bad:
                break
        if not okp:
            r.undecided(f['qname'], site, 'no successful path', file=f['file'], line=f['line'])
        elif bad and bad[0] == 'undecided':
            r.undecided(f['qname'], site, bad[1], file=f['file'], line=bad[2]['line'])
        elif bad:
            r.violation(f['qname'], site, bad[1], file=f['file'], line=bad[2]['line'], path=bad[2]['path'])
        else:
            r.ok(f['qname'], site, '%d successful paths' % len(okp), file=f['file'], line=f['line'])
    g = prog.fn('SessionManager::getSession')
    ctx.analysed(g)
    vals = [(7, 1)] * 3
    for h in (1, 2, 3):
        o = Outcomes(g, prog, cenv=_table_cenv(vals, {param_name(g, 0): h}), record_calls=set())
        o.LOOP_ROUNDS = 6
        env0 = _table_env(vals)
        env0[param_name(g, 0)] = str(h)
        o.go(St(env=env0))
        r.paths += len(o.outcomes)
        rets = set()
        for oc in o.outcomes:
            x = str(oc['ret'])
            m = re.fullmatch(r'operator\[\]\(sessions,\(?(\d+)-(\d+)\)?\)', x)
            rets.add('E%d' % (int(m.group(1)) - int(m.group(2))) if m else x)
        site = 'getSession(%d)' % h
        if rets == {'E%d' % (h - 1)}:
            r.ok(g['qname'], site, 'entry %d' % (h - 1), file=g['file'], line=g['line'])
        elif all(re.fullmatch(r'E\d+|NULL|0|nullptr', x) for x in rets):
            r.violation(g['qname'], site, 'returns %s instead of entry %d' % (sorted(rets), h - 1), file=g['file'], line=g['line'])
        else:
            r.undecided(g['qname'], site, 'returned value not concrete: %s' % sorted(rets), file=g['file'], line=g['line'])


def r8_store_events(ctx, prog):
    """SessionObjectStore reacts to three events; each must remove exactly the objects its own predicate names (the predicates' truth tables are C11.R5):
    session closed -> removeOnSessionClose, all sessions closed -> removeOnAllSessionsClose, logout -> removeOnTokenLogout.  Decided by evaluating each handler with the three
    predicates forced: it removes an object iff ITS predicate says so, whatever the other two say."""
    r = ctx.rule('C11.R8', 'each SessionObjectStore event handler removes the objects its own predicate selects', floor=3, engine='E1 finite-domain evaluation')
    pairs = {'sessionClosed': 'removeOnSessionClose', 'allSessionsClosed': 'removeOnAllSessionsClose', 'tokenLoggedOut': 'removeOnTokenLogout'}
    for ev, pred in sorted(pairs.items()):
        f = prog.fn('SessionObjectStore::' + ev)
        ctx.analysed(f)
        res = {}
        for mine in (1, 0):
            cenv = {re.compile(r'%s(@\d+)?\(.*\)' % p): (mine if p == pred else 1 - mine) for p in pairs.values()}
            o = Outcomes(f, prog, cenv=cenv, record_calls={'erase', 'invalidate', 'deleteObject'})
            o.LOOP_ROUNDS = 1
            o.go()
            r.paths += len(o.outcomes)
            res[mine] = [oc for oc in o.outcomes if any(e[0] == 'call' for e in oc['events'])]
        site = '%s removes by %s' % (ev, pred)
        if res[1] and not res[0]:
            r.ok(f['qname'], site, '%d removing paths when the predicate holds, none when only the others hold' % len(res[1]), file=f['file'], line=f['line'])
        elif not res[1] and not res[0]:
            r.undecided(f['qname'], site, 'no removal seen under either assignment (predicate inlined?)', file=f['file'], line=f['line'])
        else:
            r.violation(f['qname'], site, '%s: the handler %s' % (ev, 'removes objects that only another event\'s predicate selects, and keeps those its own predicate (%s) selects: the wrong set of session objects survives' % pred
                                                              if not res[1] else 'also removes objects its own predicate (%s) does not select' % pred),
                        file=f['file'], line=(res[0] or res[1])[0]['line'], path=(res[0] or res[1])[0]['path'])


def r9_records_immutable(ctx, prog, rule_id='C11.R9'):
    """"A valid handle always denotes the same session or object": the record behind an issued handle (kind, slot, owning session, object, privacy) is written once, on the local
    Handle that is then inserted under a fresh number - never through an element of the handle table.  Re-binding a record (e.g. to the session that looked the object up last) makes the
    handle die with the wrong session."""
    r = ctx.rule(rule_id, 'the record behind an issued handle is never modified: Handle fields are written only on a local that is inserted under a new number', floor=2, engine='E5 ownership (who may write)')
    fields = {f_['name'] for f_ in (prog.classes.get('Handle', {}).get('fields') or [])} or {'kind', 'slotID', 'hSession', 'object', 'isPrivate'}
    n = 0
    for f in sorted(prog.functions.values(), key=lambda f: (f['file'], f['line'])):
        if f['body'] is None or f.get('class') == 'Handle':
            continue
        locals_ = {}
        for x in walk(f['body']):
            if x.get('k') == 'Decl':
                for d in x['decls']:
                    locals_[d['var']['name']] = d['type']
        for x in walk(f['body']):
            if x.get('k') == 'Assign' and x['a'].get('k') == 'Member' and x['a']['field'] in fields and (x['a'].get('fq') or '').startswith('Handle::'):
                base = x['a']['base']
                site = 'write of Handle::%s@%d' % (x['a']['field'], x['l'])
                n += 1
                ctx.analysed(f)
                if base.get('k') == 'Var' and locals_.get(base['name'], '').replace('const ', '').strip() == 'Handle':
                    r.ok(f['qname'], site, 'on the local %s before it is inserted' % base['name'], file=f['file'], line=x['l'])
                else:
                    r.violation(f['qname'], site, 'the field %s of a record that is already in the handle table (%s) is changed: the issued handle now denotes something else (it dies with another session / passes another privacy test)' % (x['a']['field'], canon(base)[:60]),
                                file=f['file'], line=x['l'])
    if n == 0:
        r.undecided('HandleManager', 'writes of Handle fields', 'no assignment to a field of Handle was found (the extractor no longer resolves Handle::field?)', file='', line=0)


def run(ctx):
    prog = ctx.prog('ossl-file')
    r1_counter(ctx, prog)
    r2_pairing(ctx, prog)
    r3_validate(ctx, prog)
    r4_registration(ctx, prog)
    r5_predicates(ctx, prog)
    r6_store_key(ctx, prog)
    r7_session_ids(ctx, prog)
    r8_store_events(ctx, prog)
    r9_records_immutable(ctx, prog)
    from rules import c08
    c08.r5_gates(ctx, prog, rule_id='C11.R10')


MUTANTS = [
    dict(name='addtokenobject-updates-privacy-of-known-handle', rule='C11.R9', file='src/lib/handle_mgr/HandleManager.cpp', after='CK_OBJECT_HANDLE HandleManager::addTokenObject(',
         old='\t\t} else\n\t\t\treturn oit->second;', new='\t\t}\n\t\thit->second.isPrivate = isPrivate;\n\t\treturn oit->second;'),
    dict(name='createobject-session-object-under-internal-handle', rule='C11.R6', file='src/lib/SoftHSM.cpp', after='CK_RV SoftHSM::CreateObject(',
         old='object = sessionObjectStore->createObject(slot->getSlotID(), hSession, isPrivate != CK_FALSE);', new='object = sessionObjectStore->createObject(slot->getSlotID(), session->getHandle(), isPrivate != CK_FALSE);'),
    dict(name='counter-decrement-on-destroy', rule='C11.R1', file='src/lib/handle_mgr/HandleManager.cpp', after='void HandleManager::destroyObject(',
         old='\t\thandles.erase(it);\n', new='\t\thandles.erase(it);\n\t\tif (hObject == handleCounter) --handleCounter;\n'),
    dict(name='closesession-no-sessionobject-purge', rule='C11.R2', file='src/lib/SoftHSM.cpp', old='\tsessionObjectStore->sessionClosed(hSession);\n', new=''),
    dict(name='logout-purges-wrong-slot', rule='C11.R2', file='src/lib/SoftHSM.cpp', after='CK_RV SoftHSM::C_Logout(',
         old='\thandleManager->tokenLoggedOut(slotID);', new='\thandleManager->tokenLoggedOut(hSession);'),
    dict(name='getattributevalue-no-isvalid', rule='C11.R3', file='src/lib/SoftHSM.cpp', after='CK_RV SoftHSM::C_GetAttributeValue(',
         old='if (object == NULL_PTR || !object->isValid()) return CKR_OBJECT_HANDLE_INVALID;', new='if (object == NULL_PTR) return CKR_OBJECT_HANDLE_INVALID;'),
    dict(name='find-registers-as-public', rule='C11.R4', file='src/lib/SoftHSM.cpp', after='CK_RV SoftHSM::C_FindObjectsInit(',
         old='hObject = handleManager->addTokenObject(slotID,isPrivate,*it);', new='hObject = handleManager->addTokenObject(slotID,false,*it);'),
    dict(name='copy-registers-old-privacy', rule='C11.R4', file='src/lib/SoftHSM.cpp', after='CK_RV SoftHSM::C_CopyObject(',
         old='*phNewObject = handleManager->addTokenObject(slot->getSlotID(), isPrivate != CK_FALSE, newobject);', new='*phNewObject = handleManager->addTokenObject(slot->getSlotID(), wasPrivate != CK_FALSE, newobject);'),
    dict(name='logout-purge-ignores-slot', rule='C11.R5', file='src/lib/handle_mgr/HandleManager.cpp',
         old='if (CKH_OBJECT == h.kind && slotID == h.slotID && h.isPrivate) {', new='if (CKH_OBJECT == h.kind && h.isPrivate) {'),
    dict(name='sessionclosed-keeps-object-map-entry', rule='C11.R5', file='src/lib/handle_mgr/HandleManager.cpp', after='void HandleManager::sessionClosed(',
         old='\t\t\t\tobjects.erase(it->second.object);\n', new=''),
]
