"""Shared analysis for C01.R1 / C11.R3: every place where a caller-supplied object handle becomes an OSObject*,
and the facts that dominate each later use of that object."""
import re
from engine.rulelib import *

BENIGN_ATTRS = ('CKA_TOKEN', 'CKA_PRIVATE')


def classify_handle(fn, hexpr):
    """'param' (caller's handle), 'mechparam' (handle read from a mechanism parameter), 'own' (output handle of this call)."""
    pnames = {p['var']['name']: p['type'] for p in fn['params']}
    if hexpr in pnames:
        return 'param'
    if hexpr.startswith('*') and hexpr[1:] in pnames and 'HANDLE' in pnames[hexpr[1:]]:
        return 'own'
    if hexpr.startswith('*'):
        return 'mechparam'
    return 'other'


def is_benign_use(e, var):
    """isValid(), getBooleanValue(CKA_TOKEN|CKA_PRIVATE): the probes the access check itself needs."""
    if e.get('k') != 'Call':
        return False
    r = e.get('recv')
    if r is None or r.get('k') != 'Var' or r['name'] != var:
        return False
    c = short(e.get('callee'))
    if c == 'isValid':
        return True
    if c == 'getBooleanValue' and e.get('args') and e['args'][0].get('k') == 'Lit' and e['args'][0].get('m') in BENIGN_ATTRS:
        return True
    return False


def uses_var(e, var):
    r = e.get('recv')
    if r is not None and r.get('k') == 'Var' and r['name'] == var:
        return True
    for a in e.get('args', []):
        if a is not None and a.get('k') == 'Var' and a['name'] == var:
            return True
    return False


class HandleUse(SiteFacts):
    TRACK = ('rv', 'bOK')


def analyse(prog, fn):
    """Returns [dict(var, handle, kind, getline, uses={site: [hit]})] for fn."""
    ho = handle_objects(fn)
    out = []
    if not ho:
        return out
    vars_ = {}
    for h, lst in ho.items():
        for v, line in lst:
            vars_.setdefault(v, []).append((h, line))

    def trig(e, st):
        if e.get('k') != 'Call' or short(e.get('callee')) == 'softHSMLog':
            return None
        for v in vars_:
            if uses_var(e, v) and not is_benign_use(e, v):
                return (v, 'use of %s by %s' % (v, short(e.get('callee'))))
        return None
    sf = HandleUse(fn, prog, trigger=trig, track_facts=r'^(EQ\(have(Read|Write)|isValid\(|\w+$|EQ\(\w+\.mechanism,)').go()
    for v, hl in vars_.items():
        uses = {k[1]: hits for k, hits in sf.sites.items() if k[0] == v}
        out.append(dict(var=v, handles=hl, kinds=[classify_handle(fn, h) for h, _ in hl], uses=uses, paths=sf.paths_returned))
    return out


def access_fact_rx(var, kind='(Read|Write)'):
    return re.compile(r'EQ\(have%s\(getState\((\w+)\),getBooleanValue\(%s,CKA_TOKEN,\w+\),getBooleanValue\(%s,CKA_PRIVATE,\w+\)\),CKR_OK\)' % (kind, re.escape(var), re.escape(var)))


def valid_facts(var, facts):
    return (var, True) in facts and ('isValid(%s)' % var, True) in facts
