"""C13 — wrap, unwrap, derive (DESIGN.md §3 C13; very narrow: ordering, tables and dataflow shape only)."""
import re
from engine.rulelib import *
from engine import tables
from rules.c16 import FactOutcomes, fact_of
from rules import c10

EXPLANATION = (
    "Values of wrapped blobs and derived keys and their conformance to RFC 3394/5649, PKCS#1, PKCS#8 are runtime statements and are NOT decided (not claimed). Decided are structural necessary conditions. "
    "R1 (reject before create): in C_UnwrapKey no object is created unless UnwrapKeySym/UnwrapKeyAsym returned CKR_OK on that path. R2 (templates): a mismatch decision of the CKA_WRAP_TEMPLATE loop in C_WrapKey / the CKA_UNWRAP_TEMPLATE loop in "
    "C_UnwrapKey never reaches the wrapping / unwrapping step. R3 (cipher tables): every EVP cipher getter returned by OSSLAES/OSSLDES::getCipher and getWrapCipher carries, in its name, the key size of the switch case and the mode of the branch it is "
    "returned under (EVP_aes_<bits>_<mode>, des/des_ede/des_ede3 for 56/112/168), enumerated over the finite domain mode x key size; the Botan algorithm names likewise. R4 (truncation siblings): deriveDH, deriveECDH and deriveEDDSA shorten the shared secret "
    "by removing bytes from the leading end (split(size - len)), as PKCS#11 specifies for these mechanisms; deriveSymmetric keeps the leading bytes. R5 (check value belongs to the key): wherever a CKA_CHECK_VALUE is computed, the object whose "
    "getKeyCheckValue() is called has the dynamic type that belongs to the key type of that branch (no cast of a SymmetricKey allocation to AESKey/DESKey: the call is virtual and dispatches to the allocation type) and was loaded, by setKeyBits on "
    "that path, with the very bytes that are stored as CKA_VALUE. R6 (history attributes of unwrapped/derived keys) is C08.R4.")
ASSUMPTIONS = ['OpenSSL cipher getter names say what they return', 'ByteString::split(n) keeps the bytes from offset n on, resize(n) keeps the first n', 'abstract paths: loops unrolled once, then summarised']
TECHNIQUE = 'custom static analysis over the clang AST: must-pass-through on enumerated paths, finite-domain enumeration of cipher selection against a naming table, sibling agreement of truncation, allocation-type vs cast and value-flow check for check values'
LEVEL_TEXT = ('All abstract paths of C_WrapKey/C_UnwrapKey, the complete mode x key-size domain of the cipher selectors of both back ends, and every getKeyCheckValue call site are covered. Necessary conditions only; no blob or key value is computed.')
LEVEL_NOTE = 'trusted: clang front end, normaliser, abstract interpreter; the naming table of OpenSSL/Botan ciphers in rules/c13.py'


def all_outcomes(f, prog, cenv, record, rounds=1, cap=512, fact_rx=None):
    o = FactOutcomes(f, prog, cenv=cenv, record_calls=record)
    if fact_rx is not None:
        o.FACT_RX = re.compile(fact_rx)
    o.LOOP_ROUNDS = rounds
    o.CAP = cap
    o.go()
    return o


def r1_reject_before_create(ctx, prog):
    r = ctx.rule('C13.R1', 'C_UnwrapKey creates the key object only after the unwrap primitive succeeded', floor=1, engine='E3')
    f = prog.fn('SoftHSM::C_UnwrapKey')
    ctx.analysed(f)
    o = all_outcomes(f, prog, {}, {'UnwrapKeySym', 'UnwrapKeyAsym', 'CreateObject'})
    r.paths += len(o.outcomes)
    bad, n = None, 0
    for oc in o.outcomes:
        evs = oc['events']
        co = [i for i, e in enumerate(evs) if e[0] == 'call' and e[1] == 'CreateObject']
        if not co:
            continue
        n += 1
        uw = [(i, e) for i, e in enumerate(evs) if e[0] == 'call' and e[1] in ('UnwrapKeySym', 'UnwrapKeyAsym') and i < co[0]]
        t = fact_of(oc, uw[-1][1][1], uw[-1][1][3], uw[-1][0]) if uw else None
        if not (isinstance(t, tuple) and t[1] in ('CKR_OK', '0') and t[2] is True):
            bad = oc
    if bad:
        r.violation(f['qname'], 'CreateObject', 'the object is created on a path where the unwrap primitive did not return CKR_OK: a malformed or truncated blob leaves an object behind', file=f['file'], line=bad['line'], path=bad['path'])
    elif n == 0:
        r.undecided(f['qname'], 'CreateObject', 'no creating path found', file=f['file'], line=f['line'])
    else:
        r.ok(f['qname'], 'CreateObject', '%d creating paths, each after CKR_OK from the unwrap step' % n, file=f['file'], line=f['line'])


def r2_templates(ctx, prog):
    r = ctx.rule('C13.R2', 'a wrap / unwrap template mismatch never reaches the wrapping / unwrapping step; the wrap template is compared with the key being wrapped', floor=3, engine='E3')
    for q, attr, steps, mism in (
            ('SoftHSM::C_WrapKey', 'CKA_WRAP_TEMPLATE', {'WrapKeySym', 'WrapKeyAsym'},
             [(r'attributeExists(@\d+)?\(key,.*first.*\)', False), (r'peekValue@\d+\(', False), (r'operator!=(@\d+)?\(v1,v2\)', True), (r'operator==(@\d+)?\(v1,v2\)', False)]),
            ('SoftHSM::C_UnwrapKey', 'CKA_UNWRAP_TEMPLATE', {'UnwrapKeySym', 'UnwrapKeyAsym'},
             [(r'EQ\(.*ulValueLen,size\(value\)\)', False), (r'memcmp@\d+\(', True), (r'EQ\(memcmp@\d+\(.*\),0\)', False)])):
        f = prog.fn(q)
        ctx.analysed(f)
        av = macro(prog, attr)
        cenv = {re.compile(r'attributeExists(@\d+)?\(\w+,%s\)' % attr): 1, re.compile(r'attributeExists(@\d+)?\(\w+,%d\)' % av): 1, re.compile(r'isAttributeMapAttribute(@\d+)?\(\w+\)'): 1}
        o = all_outcomes(f, prog, cenv, steps | {'peekValue', 'memcmp'}, fact_rx='|'.join('(?:%s)' % rx for rx, _ in mism))
        r.paths += len(o.outcomes)
        bad, nmis, nreach = None, 0, 0
        for oc in o.outcomes:
            evs = oc['events']
            st = [i for i, e in enumerate(evs) if e[0] == 'call' and e[1] in steps]
            mm = [i for i, e in enumerate(evs) if e[0] == 'fact' and any(re.match(rx, e[1]) and e[2] is truth for rx, truth in mism)]
            if mm:
                nmis += 1
                if st and st[0] > mm[0]:
                    bad = (oc, evs[mm[0]][1])
            if st:
                nreach += 1
        if q == 'SoftHSM::C_WrapKey':
            # whose attributes are compared with the template: those of the key that is being wrapped (the object of the hKey argument), entry by entry
            ho = handle_objects(f)
            kobj = ho[param_name(f, 3)][0][0]
            keyvars = {d['var']['name'] for n in walk(f['body']) if n.get('k') == 'Decl' for d in n['decls'] if d.get('init') is not None and re.search(r'(\.|->|\)\.)first\b', canon(d['init']))}
            per_entry = [c for c in calls(f['body']) if short(c.get('callee')) in ('getAttribute', 'attributeExists') and c.get('recv') is not None and c.get('args')
                         and ('first' in canon(c['args'][0]) or (c['args'][0].get('k') == 'Var' and c['args'][0]['name'] in keyvars))]
            wrong = [c for c in per_entry if canon(c['recv']) != kobj]
            site2 = '%s entries are compared with the wrapped key' % attr
            if not per_entry:
                r.undecided(q, site2, 'no per-entry attribute read found in the template loop', file=f['file'], line=f['line'])
            elif wrong:
                r.violation(q, site2, 'the template entry is compared with %s of %s, not of the key being wrapped (%s): a key that violates the wrapping key\'s CKA_WRAP_TEMPLATE is wrapped all the same' % (
                    short(wrong[0]['callee']), canon(wrong[0]['recv']), kobj), file=f['file'], line=wrong[0]['l'])
            else:
                r.ok(q, site2, '%d reads, all on %s' % (len(per_entry), kobj), file=f['file'], line=per_entry[0]['l'])
        site = '%s loop' % attr
        if bad:
            r.violation(q, site, 'the comparison %s decides "mismatch" and the path still reaches %s: the template restriction is not honoured' % (bad[1][:80], '/'.join(sorted(steps))), file=f['file'], line=bad[0]['line'], path=bad[0]['path'])
        elif nmis == 0 or nreach == 0:
            r.undecided(q, site, 'mismatch paths: %d, paths reaching the step: %d — the loop\'s comparisons were not recognised' % (nmis, nreach), file=f['file'], line=f['line'])
        else:
            r.ok(q, site, '%d mismatch paths, none reaches the step; %d paths do' % (nmis, nreach), file=f['file'], line=f['line'])


DES_NAMES = {56: 'des', 112: 'des_ede', 168: 'des_ede3'}
MODE_NAMES = {'CBC': 'cbc', 'ECB': 'ecb', 'CTR': 'ctr', 'GCM': 'gcm', 'OFB': 'ofb', 'CFB': 'cfb', 'AES_KEYWRAP': 'wrap', 'AES_KEYWRAP_PAD': 'wrap_pad'}


def enum_values(prog, en):
    for k, e in prog.enums.items():
        if e['qname'] == en:
            return {m['name']: m['v'] for m in e['enumerators']}
    raise AnalysisBroken('enum %s not found' % en)


def r3_cipher_tables(ctx, po, pb, rule_id='C13.R3'):
    r = ctx.rule(rule_id, 'the cipher selected for a (mode, key size) pair is the cipher of that mode and size', floor=30, engine='E1 finite-domain')
    sm, sw = enum_values(po, 'SymMode::Type'), enum_values(po, 'SymWrap::Type')
    jobs = [('OSSLAES::getCipher', 'aes', sm, (128, 192, 256), 'currentCipherMode', r'getBitLen(@\d+)?\(currentKey\)', {'currentKey': 1}),
            ('OSSLAES::getWrapCipher', 'aes', sw, (128, 192, 256), 'mode', r'getBitLen(@\d+)?\(key\)', {'key': 1}),
            ('OSSLDES::getCipher', 'des', sm, (56, 112, 168), 'currentCipherMode', r'getBitLen(@\d+)?\(currentKey\)', {'currentKey': 1})]
    for q, alg, modes, sizes, modevar, bitrx, extra in jobs:
        f = po.fn(q)
        ctx.analysed(f)
        for mname, mv in sorted(modes.items()):
            if mname == 'Unknown':
                continue
            for bits in sizes:
                cenv = dict(extra)
                cenv[modevar] = mv
                cenv[re.compile(bitrx)] = bits
                o = all_outcomes(f, po, cenv, set())
                rets = {oc['ret'] for oc in o.outcomes}
                site = '%s mode=%s bits=%d' % (q.split('::')[-1], mname, bits)
                if len(rets) != 1:
                    r.undecided(q, site, 'not a single outcome: %s' % sorted(map(str, rets))[:3], file=f['file'], line=f['line'])
                    continue
                ret = rets.pop()
                m = re.match(r'(EVP_\w+?)(@\d+)?\(\)$', ret or '')
                if not m:
                    if ret in ('NULL', '0', 'nullptr'):
                        if mname in MODE_NAMES and ((alg == 'aes' and mname in ('CBC', 'ECB', 'CTR', 'GCM', 'AES_KEYWRAP', 'AES_KEYWRAP_PAD')) or (alg == 'des' and mname in ('CBC', 'ECB', 'OFB', 'CFB'))):
                            r.violation(q, site, 'no cipher is returned for a supported combination', file=f['file'], line=f['line'])
                        else:
                            r.ok(q, site, 'not supported (NULL)', file=f['file'], line=f['line'])
                    else:
                        r.undecided(q, site, 'unrecognised result %s' % ret, file=f['file'], line=f['line'])
                    continue
                want = 'EVP_%s_%s' % ('aes_%d' % bits if alg == 'aes' else DES_NAMES[bits], MODE_NAMES.get(mname, '?'))
                if re.sub(r'_cfb64$', '_cfb', m.group(1)) == want:      # EVP_des_*_cfb is OpenSSL's macro for the 64-bit feedback variant
                    r.ok(q, site, want, file=f['file'], line=f['line'])
                else:
                    r.violation(q, site, '%s() is selected where %s() belongs: data is processed with a cipher of another key size or mode — round trips inside the token still work, the result is not what the mechanism specifies' % (m.group(1), want),
                                file=f['file'], line=f['line'])
    # Botan: the algorithm name assigned under `case <bits>` carries the same number
    for q in ('BotanAES::getCipher', 'BotanAES::wrapKey', 'BotanAES::unwrapKey', 'BotanDES::getCipher'):
        fs = pb.fns(q)
        for f in fs:
            ctx.analysed(f)
            for n in walk(f['body']):
                if n.get('k') != 'Switch':
                    continue
                for labels, body in tables.switch_cases(n):
                    nums = [int(l) for l in labels if l is not None and re.fullmatch(r'\d+', str(l))]
                    strs = [x.get('s', '') for s in body for x in walk(s) if x.get('k') == 'Str' and re.search(r'AES-\d+', x.get('s', ''))]
                    for bits in nums:
                        for s_ in strs:
                            site = '%s case %d' % (q.split('::')[-1], bits)
                            if re.search(r'AES-%d\b' % bits, s_):
                                r.ok(q, site, s_, file=f['file'], line=n['l'])
                            else:
                                r.violation(q, site, 'the Botan algorithm name "%s" is used for %d-bit keys' % (s_, bits), file=f['file'], line=n['l'])


def r4_truncation(ctx, prog, rule_id='C13.R4'):
    r = ctx.rule(rule_id, 'asymmetric derivations drop the leading bytes of the shared secret, the symmetric derivation the trailing ones', floor=4, engine='E7')
    want = {'SoftHSM::deriveDH': 'tail', 'SoftHSM::deriveECDH': 'tail', 'SoftHSM::deriveEDDSA': 'tail', 'SoftHSM::deriveSymmetric': 'head'}
    for q, w in sorted(want.items()):
        f = prog.fn(q)
        ctx.analysed(f)
        kinds = []
        for c in calls(f['body']):
            if c.get('recv') is None or canon(c['recv']) != 'secretValue':
                continue
            s = short(c.get('callee'))
            a = canon(c['args'][0]) if c.get('args') else ''
            if s == 'split' and re.fullmatch(r'\(?size\(secretValue\)-byteLen\)?', a):
                kinds.append(('tail', c['l']))
            elif s == 'resize' and a == 'byteLen':
                kinds.append(('head', c['l']))
            elif s in ('split', 'resize', 'erase', 'substr', 'wipe'):
                kinds.append(('other:%s(%s)' % (s, a), c['l']))
        site = 'truncation of secretValue'
        if not kinds:
            r.undecided(q, site, 'no truncation of secretValue found', file=f['file'], line=f['line'])
        elif all(k == w for k, _ in kinds):
            r.ok(q, site, 'keeps the %s' % ('trailing bytes (leading end removed)' if w == 'tail' else 'leading bytes'), file=f['file'], line=kinds[0][1])
        else:
            k, line = [x for x in kinds if x[0] != w][0]
            r.violation(q, site, 'the secret is shortened with %s: PKCS#11 takes the %s bytes of the shared secret for this mechanism (its sibling derivations do)' % (
                'resize(byteLen), which keeps the leading' if k == 'head' else k, 'trailing' if w == 'tail' else 'leading'), file=f['file'], line=line)


KEYCLASS = {'CKK_AES': 'AESKey', 'CKK_DES': 'DESKey', 'CKK_DES2': 'DESKey', 'CKK_DES3': 'DESKey', 'CKK_GENERIC_SECRET': 'SymmetricKey'}


def r5_check_values(ctx, prog):
    r = ctx.rule('C13.R5', 'a check value is computed by the key class of the key type, from the bytes stored as CKA_VALUE', floor=10, engine='E5')
    for f in sorted(prog.functions.values(), key=lambda f: (f['file'], f['line'])):
        cs = [c for c in calls(f['body'], short='getKeyCheckValue') if c.get('recv') is not None]
        if not cs or f.get('class') in ('SymmetricKey', 'AESKey', 'DESKey'):
            continue
        ctx.analysed(f)
        # allocation types of pointer locals and declared types of object locals
        alloc, decl = {}, {}
        for p in f.get('params', []):
            if p.get('var'):
                decl[p['var']['name']] = p['type']
        for n in walk(f['body']):
            if n.get('k') == 'Decl':
                for d in n['decls']:
                    decl[d['var']['name']] = d.get('type', '')
                    i = d.get('init')
                    if i is not None and i.get('k') == 'New':
                        alloc[d['var']['name']] = i.get('type', '').replace('class ', '')
            elif n.get('k') == 'Assign' and n['a'].get('k') == 'Var' and n['b'].get('k') == 'New':
                alloc[n['a']['name']] = n['b'].get('type', '').replace('class ', '')
            elif n.get('k') == 'Call' and short(n.get('callee')) == 'deriveKey':
                for a in n.get('args', []):
                    if a.get('k') == 'Un' and a.get('op') == '&' and a['e'].get('k') == 'Var':
                        alloc[a['e']['name']] = 'SymmetricKey'       # every back end's deriveKey allocates `new SymmetricKey`
        for c in cs:
            rc = c['recv']
            cast = rc.get('cast') or (rc.get('type') if rc.get('k') == 'Cast' else None)
            base = rc
            while base.get('k') in ('Cast', 'Paren') and base.get('e') is not None:
                base = base['e']
            name = base.get('name') if base.get('k') == 'Var' else canon(base)
            dyn = alloc.get(name) or re.sub(r'\b(const|class)\b|[*&\s]', '', decl.get(name, ''))
            site = 'getKeyCheckValue on %s@%d' % (name, cs.index(c))
            stat = re.sub(r'\b(const|class)\b|[*&\s]', '', cast) if cast else dyn
            if cast and stat != dyn and dyn:
                r.violation(f['qname'], site, 'the receiver is a %s cast to %s: getKeyCheckValue() is virtual, so the %s algorithm runs whatever the cast says, and the check value is not the %s check value of the key' % (dyn, stat, dyn, stat),
                            file=f['file'], line=c['l'])
                continue
            # the enclosing switch case on the key type must name the class
            enc = None
            for n in walk(f['body']):
                if n.get('k') == 'Switch':
                    for labels, body in tables.switch_cases(n):
                        if any(x is c for s in body for x in walk(s)):
                            enc = [l for l in labels if l in KEYCLASS]
            if enc:
                wantc = {KEYCLASS[l] for l in enc}
                if dyn and dyn not in wantc:
                    r.violation(f['qname'], site, 'under case %s the check value is computed by a %s object (expected %s)' % ('/'.join(enc), dyn, '/'.join(sorted(wantc))), file=f['file'], line=c['l'])
                    continue
            # value flow: some setKeyBits(<x>) on the same object in this function (or the object is a parameter / holds generated key material)
            sk = [k for k in calls(f['body'], short='setKeyBits') if k.get('recv') is not None and canon(k['recv']).lstrip('*') == name]
            gen = any(short(k.get('callee')) in ('generateKey', 'reconstructKey') and any(name in canon(a) for a in k.get('args', [])) for k in calls(f['body']))
            if sk or gen or name in [p['var']['name'] for p in f.get('params', []) if p.get('var')]:
                r.ok(f['qname'], site, '%s object%s' % (dyn or '?', ', loaded by setKeyBits(%s)' % canon(sk[0]['args'][0]) if sk else ''), file=f['file'], line=c['l'])
            else:
                r.violation(f['qname'], site, 'the %s object is never loaded with the key value in this function (no setKeyBits / generateKey on it): the check value is taken over other bytes than the stored CKA_VALUE' % (dyn or 'key'),
                            file=f['file'], line=c['l'])


def r2b_template_scan(ctx, prog):
    """The unwrap-template check compares *every* entry of the caller's template that has a restricted type (saveTemplate applies entries in order, the last one wins):
    the scan over the caller's entries may leave the loop only by rejecting."""
    r = ctx.rule('C13.R2b', 'the CKA_UNWRAP_TEMPLATE check scans the whole caller template: the scan is left early only by rejecting the template', floor=1, engine='E2')
    f = prog.fn('SoftHSM::C_UnwrapKey')
    ctx.analysed(f)
    outer = [n for n in walk(f['body']) if n.get('k') == 'If' and 'CKA_UNWRAP_TEMPLATE' in canon(n['c'])]
    if not outer:
        r.undecided(f['qname'], 'scan of the caller template', 'the CKA_UNWRAP_TEMPLATE block was not found', file=f['file'], line=f['line'])
        return
    loops = [n for n in walk(outer[0]['t']) if n.get('k') == 'For']
    inner = [n for n in loops if any(x.get('k') == 'Bin' and x.get('op') == '==' and 'type' in canon(x) and 'first' in canon(x) for x in walk(n['body'])) and not any(m is not n and m.get('k') == 'For' for m in walk(n['body']))]
    if len(inner) != 1:
        r.undecided(f['qname'], 'scan of the caller template', '%d candidate scan loops' % len(inner), file=f['file'], line=outer[0]['l'])
        return
    lp = inner[0]
    bad = None
    for x in walk(lp['body']):
        if x.get('k') == 'Break':
            bad = (x, 'break')
        elif x.get('k') == 'Return' and canon(x.get('e')) not in ('CKR_TEMPLATE_INCONSISTENT',):
            bad = (x, 'return %s' % canon(x.get('e')))
    compares = any(x.get('k') == 'Call' and short(x.get('callee')) in ('memcmp', 'operator!=', 'operator==') for x in walk(lp['body']))
    if bad:
        r.violation(f['qname'], 'scan of the caller template', 'the scan over the caller\'s entries is left by `%s` (line %s): a later entry of the same attribute type — which is the one saveTemplate finally applies — is never compared with the unwrap template' % (bad[1], bad[0]['l']),
                    file=f['file'], line=bad[0]['l'])
    elif not compares:
        r.violation(f['qname'], 'scan of the caller template', 'the scan no longer compares values', file=f['file'], line=lp['l'])
    else:
        r.ok(f['qname'], 'scan of the caller template', 'full scan; only rejecting exits', file=f['file'], line=lp['l'])


BLOCK = {'CKM_AES_CBC': 16, 'CKM_AES_CBC_PAD': 16, 'CKM_DES3_CBC': 8, 'CKM_DES3_CBC_PAD': 8}


def r5b_check_value_source(ctx, prog):
    """The check value of a derived key is computed over the very bytes that become its CKA_VALUE (after truncation and the DES parity fix): the byte string handed to the check-value
    helper is the plaintext that is encrypted into, or assigned to, the value stored with setAttribute(CKA_VALUE, .)."""
    r = ctx.rule('C13.R5b', 'the check value of a derived key is computed over the bytes that are stored as its CKA_VALUE', floor=4, engine='E5 value following (plaintext -> stored value)')
    cka_value = macro(prog, 'CKA_VALUE')
    # the check-value helper, by what it does: a free function that loads one of its parameters into a key object (setKeyBits) and asks that object for its check value
    helpers = {}
    for g in prog.functions.values():
        if g.get('class') or g['body'] is None or not list(calls(g['body'], short='getKeyCheckValue')):
            continue
        pn = [pp['var']['name'] if pp.get('var') else None for pp in g.get('params', [])]
        for k2 in calls(g['body'], short='setKeyBits'):
            if k2.get('args') and k2['args'][0].get('k') == 'Var' and k2['args'][0]['name'] in pn:
                helpers[g['qname']] = pn.index(k2['args'][0]['name'])
    for f in sorted(prog.functions.values(), key=lambda f: (f['file'], f['line'])):
        if f['body'] is None:
            continue
        ks = [c for c in calls(f['body']) if c.get('callee') in helpers]
        if not ks:
            continue
        ctx.analysed(f)
        def unwrap(e):
            while e is not None and ((e.get('k') == 'Ctor' and len(e.get('args', [])) == 1) or (e.get('k') in ('Cast', 'Paren') and e.get('e') is not None)):
                e = e['args'][0] if e.get('k') == 'Ctor' else e['e']
            return e
        stored = {canon(unwrap(c['args'][1])) for c in calls(f['body'], short='setAttribute') if len(c.get('args', [])) >= 2 and tables.const_eval(c['args'][0]) == cka_value}
        plain = set()
        for c in calls(f['body'], short='encrypt'):
            if len(c.get('args', [])) >= 2 and canon(c['args'][1]) in stored:
                plain.add(canon(c['args'][0]))
        for n in walk(f['body']):
            if n.get('k') == 'Call' and short(n.get('callee') or '') == 'operator=' and n.get('recv') is not None and canon(n['recv']) in stored and n.get('args'):
                plain.add(canon(n['args'][0]))
            elif n.get('k') == 'Assign' and canon(n['a']) in stored:
                plain.add(canon(n['b']))
        for i, c in enumerate(ks):
            site = 'check value source@%d' % i
            ai = helpers[c['callee']]
            src = canon(c['args'][ai]) if len(c.get('args', [])) > ai else '?'
            if not stored or not plain:
                r.undecided(f['qname'], site, 'the value stored as CKA_VALUE could not be followed to its plaintext', file=f['file'], line=c['l'])
            elif src in plain:
                r.ok(f['qname'], site, 'computed over %s, the plaintext of the stored value' % src, file=f['file'], line=c['l'])
            else:
                r.violation(f['qname'], site, 'the check value is computed over %s, but the key value that is stored is %s: a key shorter than the secret (or parity-adjusted) gets the check value of other bytes' % (src, '/'.join(sorted(plain))),
                            file=f['file'], line=c['l'])


def r5c_supplied_check_value(ctx, prog):
    """C_UnwrapKey builds the object from the caller's template *before* the unwrapped bytes are stored.  A CKA_CHECK_VALUE in that template must not travel with the other entries
    (the attribute layer would compare it with the check value of a still empty key: the right value is refused, the check value of the empty string accepted and stored); it is
    held back and compared with the check value of the unwrapped value (R5b decides which bytes that is computed over)."""
    r = ctx.rule('C13.R5c', 'a CKA_CHECK_VALUE supplied to C_UnwrapKey does not reach the object before its value is stored', floor=1, engine='E1 finite-domain evaluation of the template copy loop')
    f = prog.fn('SoftHSM::C_UnwrapKey')
    ctx.analysed(f)
    pt, pc_ = param_name(f, 5), param_name(f, 6)
    kcv, secret = macro(prog, 'CKA_CHECK_VALUE'), macro(prog, 'CKO_SECRET_KEY')
    arrays = {d['var']['name'] for n in walk(f['body']) if n.get('k') == 'Decl' for d in n['decls'] if re.match(r'CK_ATTRIBUTE\s*\[', d.get('type', '').replace('struct ', ''))}
    o = Outcomes(f, prog, cenv={pc_: 1, '#concrete-loops': 1, re.compile(r'%s\[\w+\]\.type' % re.escape(pt)): kcv, 'objClass': secret, 'isInitialised': 1})
    o.CAP = 96
    o.LOOP_ROUNDS = 1
    o.go()
    r.paths += len(o.outcomes)
    copied = [(oc, e) for oc in o.outcomes for e in oc['events'] if e[0] == 'write' and any(re.match(r'%s\[' % re.escape(a), e[1]) for a in arrays) and re.search(r'%s\[' % re.escape(pt), str(e[2] if len(e) > 2 else ''))]
    site = 'template entry CKA_CHECK_VALUE of a secret key'
    if not o.outcomes:
        r.undecided(f['qname'], site, 'no path', file=f['file'], line=f['line'])
    elif copied:
        oc, e = copied[0]
        r.violation(f['qname'], site, 'the caller\'s CKA_CHECK_VALUE entry is copied into the attribute array the object is created from (%s): it is compared with the check value of the still empty key - the correct check value is refused and the check value of the empty string is accepted and stored' % e[1],
                    file=f['file'], line=e[3] if len(e) > 3 else f['line'], path=oc['path'])
    else:
        r.ok(f['qname'], site, '%d paths, the entry is held back' % len(o.outcomes), file=f['file'], line=f['line'])


def r6_caller_iv(ctx, prog):
    r = ctx.rule('C13.R6', 'CBC wrapping and unwrapping run under the caller\'s IV: the IV handed to the cipher has the block size and is copied from the mechanism parameter', floor=4, engine='E8 finite-domain')
    for q, init in (('SoftHSM::WrapKeySym', 'encryptInit'), ('SoftHSM::UnwrapKeySym', 'decryptInit')):
        f = prog.fn(q)
        ctx.analysed(f)
        pm = param_name(f, 0)
        accepted = set()
        for n in walk(f['body']):
            if n.get('k') == 'Switch' and canon(n['c']).endswith('mechanism'):
                for labels, body in tables.switch_cases(n):
                    accepted |= {l for l in labels if l in BLOCK}
        for mech in sorted(accepted):
            def trig(e, st):
                return (init, e['l']) if e.get('k') == 'Call' and short(e.get('callee')) == init else None
            sf = SiteFacts(f, prog, trigger=trig, cenv={'%s.mechanism' % pm: macro(prog, mech), '%s->mechanism' % pm: macro(prog, mech)}).go()
            r.paths += sf.paths_returned
            site = '%s under %s' % (init, mech)
            hits = [(line, h) for (_, line), hs in sf.sites.items() for h in hs]
            if not hits:
                r.ok(q, site, 'the cipher is never started for this mechanism here', file=f['file'], line=f['line'])
                continue
            bad = None
            for line, h in hits:
                c = [c for c in calls(f['body'], short=init) if c['l'] == line][0]
                ivarg = canon(c['args'][2]) if len(c.get('args', [])) > 2 else None
                sz = h['env'].get('size(%s)' % ivarg)
                if sz is not None and sz in h['env']:
                    sz = h['env'][sz]
                szv = h['env'].get(str(sz), sz)
                if str(szv) != str(BLOCK[mech]):
                    bad = (line, 'the IV %s given to %s has size %s (block size %d)' % (ivarg, init, szv, BLOCK[mech]), h['path'])
            copies = [c for c in calls(f['body'], short='memcpy') if len(c.get('args', [])) == 3 and 'pParameter' in canon(c['args'][1]) and 'iv' in canon(c['args'][0])]
            if bad:
                r.violation(q, site, bad[1] + ': the cipher falls back to an all-zero IV and the caller\'s IV is ignored — the blob is not CBC under the IV the application supplied', file=f['file'], line=bad[0], path=bad[2])
            elif not copies:
                r.violation(q, site, 'no copy of the mechanism parameter into the IV was found', file=f['file'], line=f['line'])
            else:
                r.ok(q, site, 'IV of %d bytes copied from pParameter' % BLOCK[mech], file=f['file'], line=hits[0][0])


# --------------------------------------------------------------------------------------- R8: padding check covers every padding byte
def linform(e, env=None):
    """Linear form {symbol: coeff, 1: const} of an integer expression tree (+, -, literals, variables, size()); None if not linear."""
    k = e.get('k')
    if k == 'Lit':
        return {1: e.get('v', 0)}
    if k == 'Var':
        return {e['name']: 1}
    if k in ('Paren', 'Cast') and e.get('e') is not None:
        return linform(e['e'])
    if k == 'Bin' and e.get('op') in ('+', '-'):
        a, b = linform(e['a']), linform(e['b'])
        if a is None or b is None:
            return None
        out = dict(a)
        for s_, c in b.items():
            out[s_] = out.get(s_, 0) + (c if e['op'] == '+' else -c)
        return {s_: c for s_, c in out.items() if c != 0 or s_ == 1}
    if k == 'Call':
        return {canon(e): 1}
    return None


def lsub(a, b):
    out = dict(a)
    for s_, c in b.items():
        out[s_] = out.get(s_, 0) - c
    return {s_: c for s_, c in out.items() if c != 0}


def subst(form, sym, repl):
    """form[sym := repl]"""
    out = {s_: c for s_, c in form.items() if s_ != sym}
    k = form.get(sym, 0)
    for s_, c in repl.items():
        out[s_] = out.get(s_, 0) + k * c
    return {s_: c for s_, c in out.items() if c != 0}


def r8_unpad_coverage(ctx, prog):
    r = ctx.rule('C13.R8', 'PKCS#7 unpadding compares every padding byte: the checked index range is [len - pad, len - 1] (the last byte, which defines pad, may be left out)', floor=1, engine='E8 index ranges')
    f = prog.fn('SoftHSM::RFC5652Unpad')
    ctx.analysed(f)
    buf = param_name(f, 0)
    # len = size(buf), pad = buf[len-1]
    lenv = padv = None
    for n in walk(f['body']):
        if n.get('k') == 'Decl':
            for d in n['decls']:
                i = d.get('init')
                if i is None:
                    continue
                if canon(i) == 'size(%s)' % buf:
                    lenv = d['var']['name']
                elif lenv and canon(i) in ('operator[](%s,(%s-1))' % (buf, lenv), '%s[(%s-1)]' % (buf, lenv)):
                    padv = d['var']['name']
    loops = [n for n in walk(f['body']) if n.get('k') in ('For', 'While')]
    site = 'padding loop'
    if not lenv or not padv or len(loops) != 1 or loops[0].get('k') != 'For':
        r.undecided(f['qname'], site, 'the shape len=size(buf); pad=buf[len-1]; one for-loop was not found (len=%s pad=%s loops=%d)' % (lenv, padv, len(loops)), file=f['file'], line=f['line'])
        return
    lp = loops[0]
    try:
        d = lp['init']['decls'][0] if lp['init'].get('k') == 'Decl' else None
        iv = d['var']['name'] if d else lp['init']['e']['a']['name']
        start = linform(d['init'] if d else lp['init']['e']['b'])
        c = lp['c']
        assert c.get('k') == 'Bin' and c['op'] in ('<', '<=') and c['a'].get('k') == 'Var' and c['a']['name'] == iv
        end = linform(c['b'])              # exclusive bound for <
        if c['op'] == '<=':
            end = dict(end)
            end[1] = end.get(1, 0) + 1
        inc = canon(lp['inc'])
        assert inc in ('++%s' % iv, '%s++' % iv, '(%s+=1)' % iv)
        idx = [x['args'][0] if x.get('k') == 'Call' else x['idx'] for x in walk(lp['body'])
               if (x.get('k') == 'Call' and short(x.get('callee')) == 'operator[]' and x.get('recv') is not None and canon(x['recv']) == buf) or (x.get('k') == 'Index' and canon(x['base']) == buf)]
        cmp_ok = any(x.get('k') == 'Bin' and x.get('op') in ('!=', '==') and padv in canon(x) and buf in canon(x) for x in walk(lp['body']))
        rej = any(x.get('k') == 'Return' and canon(x.get('e')) in ('false', '0') for x in walk(lp['body']))
        assert idx and cmp_ok and rej
        fi = linform(idx[0])
        assert start is not None and end is not None and fi is not None and abs(fi.get(iv, 0)) == 1
    except (AssertionError, KeyError, TypeError, IndexError):
        r.undecided(f['qname'], site, 'the loop is not of the form for (i = a; i < b; i++) with a comparison of %s[f(i)] against %s that rejects' % (buf, padv), file=f['file'], line=lp.get('l'))
        return
    last = dict(end)
    last[1] = last.get(1, 0) - 1
    e1, e2 = subst(fi, iv, start), subst(fi, iv, last)          # index at the first and at the last iteration
    lo_want = {lenv: 1, padv: -1}
    hi_want_min = {lenv: 1, 1: -2}
    cands = [(e1, e2), (e2, e1)]
    ok = False
    for lo, hi in cands:
        dlo, dhi = lsub(lo, lo_want), lsub(hi, hi_want_min)
        if set(dlo) <= {1} and set(dhi) <= {1} and dlo.get(1, 0) <= 0 and dhi.get(1, 0) >= 0:
            ok = True
    def show(fm):
        return ' '.join('%+d*%s' % (c, s_) if s_ != 1 else '%+d' % c for s_, c in sorted(fm.items(), key=str)) or '0'
    if ok:
        r.ok(f['qname'], site, 'indices %s .. %s cover [len-pad, len-2]' % (show(e1), show(e2)), file=f['file'], line=lp['l'])
    else:
        r.violation(f['qname'], site, 'the loop inspects the indices from %s to %s (len=%s, pad=%s), which does not cover [len-pad, len-2]: a blob whose padding is malformed in an uninspected byte is accepted and a key object is created from it' % (
            show(e1), show(e2), lenv, padv), file=f['file'], line=lp['l'])


def r9_branch_agreement(ctx, prog, rule_id='C13.R9'):
    """Key components are stored through a two-armed idiom: token->encrypt(source, x) when the object is private, x = source otherwise; x is then stored under one attribute.
    Both arms must take every x from the same source (same accessor of the same object) - a slip in one arm stores, say, dP as CKA_EXPONENT_2 for public objects only."""
    r = ctx.rule(rule_id, 'the encrypted and the plain arm of every component store read the same source for the same component', floor=80, engine='E7 sibling agreement')
    for f in sorted(prog.functions.values(), key=lambda g: (g['file'], g['line'])):
        if f.get('class') != 'SoftHSM':
            continue
        enc, plain = {}, {}
        for n in walk(f['body']):
            if n.get('k') != 'Call':
                continue
            c = short(n.get('callee'))
            a = n.get('args', [])
            if c in ('encrypt', 'decrypt') and (n.get('callee') or '').startswith('Token::') and len(a) == 2 and a[1] is not None and a[1].get('k') == 'Var' and a[0] is not None and a[0].get('k') == 'Call':
                enc.setdefault(a[1]['name'], []).append((canon(a[0]), n['l']))
            elif c == 'operator=' and n.get('recv') is not None and n['recv'].get('k') == 'Var' and len(a) == 1 and a[0] is not None and a[0].get('k') == 'Call' and a[0].get('recv') is not None:
                plain.setdefault(n['recv']['name'], []).append((canon(a[0]), n['l']))
        both = sorted(set(enc) & set(plain))
        if not both:
            continue
        ctx.analysed(f)
        for x in both:
            es, ps = {v for v, _ in enc[x]}, {v for v, _ in plain[x]}
            site = 'component %s' % x
            # a plain assignment that is not the other arm of the idiom (e.g. a default value assigned before) does not take part: only accessor calls on an object also read in the encrypted arm
            def obj_of(v):
                pc = parse_call(v)
                return pc[1][0] if pc and pc[1] else None
            objs = {obj_of(v) for v in es}
            ps2 = {v for v in ps if obj_of(v) in objs}
            if not ps2:
                continue
            if es == ps2:
                r.ok(f['qname'], site, sorted(es)[0], file=f['file'], line=enc[x][0][1])
            else:
                line = [l for v, l in plain[x] if v in ps2 - es] or [l for v, l in enc[x] if v in es - ps2]
                r.violation(f['qname'], site, 'the arm for private objects fills %s from %s, the arm for public objects from %s: the stored component depends on CKA_PRIVATE' % (x, '/'.join(sorted(es)), '/'.join(sorted(ps2))),
                            file=f['file'], line=line[0])


def r10_complete_fill(ctx, prog, rule_id='C13.R10'):
    """IVs, AAD, peer public values and derivation data are taken from the caller by 'x.resize(n); memcpy(&x[0], source, m)'.  The value handed on is the caller's value only if
    m == n on every path: a shorter copy leaves the tail of x zero (an IV whose second half is ignored), a longer one writes past the buffer."""
    r = ctx.rule(rule_id, 'a buffer sized for the caller\'s value is filled completely: memcpy length == the size it was just given', floor=30, engine='E3 path enumeration, value comparison')
    for f in sorted(prog.functions.values(), key=lambda g: (g['file'], g['line'])):
        if f.get('class') != 'SoftHSM':
            continue
        ms = [c for c in calls(f['body'], short='memcpy') if len(c.get('args', [])) == 3 and canon(c['args'][0]).startswith('&')]
        if not ms:
            continue
        ctx.analysed(f)
        o = Outcomes(f, prog, cenv={'isInitialised': 1}, record_calls={'resize', 'memcpy', 'wipe'})
        o.CAP = 64
        o.LOOP_ROUNDS = 1
        o.go()
        r.paths += len(o.outcomes)
        res = {}
        for oc in o.outcomes:
            evs = oc['events']
            for i, e in enumerate(evs):
                if e[0] == 'call' and e[1] == 'memcpy' and e[2][0].startswith('&'):
                    m = re.fullmatch(r'&operator\[\]\((\w+),0\)', e[2][0])
                    if not m:
                        continue
                    x = m.group(1)
                    rs = [p for p in evs[:i] if p[0] == 'call' and p[1] in ('resize', 'wipe') and p[2] and p[2][0] == x and len(p[2]) > 1]
                    if rs:
                        res.setdefault(e[3], set()).add((x, e[2][2], rs[-1][2][1], rs[-1][3], oc['path']))
        for line, hits in sorted(res.items()):
            x = sorted(hits)[0][0]
            site = 'memcpy into %s@%d' % (x, line)
            bad = [h for h in hits if h[1] != h[2]]
            if bad:
                h = bad[0]
                r.violation(f['qname'], site, '%s is sized to %s bytes (line %s) but %s bytes are copied into it: %s' % (
                    x, h[2], h[3], h[1], 'the rest of the buffer stays zero, the value handed on is not the caller\'s' if not (h[1].isdigit() and h[2].isdigit()) or int(h[1]) < int(h[2]) else 'the copy runs past the buffer'),
                    file=f['file'], line=line, path=h[4])
            else:
                r.ok(f['qname'], site, '%s bytes' % sorted(hits)[0][1], file=f['file'], line=line)


def r13_unwrapped_key_marks(ctx, prog):
    """An unwrapped key is "marked not local, not never-extractable, not always-sensitive" - whatever its class.  C_UnwrapKey is evaluated for a secret key and for a private key:
    every path that commits the object has stored CKA_LOCAL, CKA_ALWAYS_SENSITIVE and CKA_NEVER_EXTRACTABLE as false before."""
    r = ctx.rule('C13.R13', 'every unwrapped key - secret or private - is stored with CKA_LOCAL, CKA_ALWAYS_SENSITIVE and CKA_NEVER_EXTRACTABLE false', floor=2, engine='E1+E3 finite-domain evaluation over the object class')
    f = prog.fn('SoftHSM::C_UnwrapKey')
    ctx.analysed(f)
    want = {macro(prog, n): n for n in ('CKA_LOCAL', 'CKA_ALWAYS_SENSITIVE', 'CKA_NEVER_EXTRACTABLE')}
    for cname, ktype in (('CKO_SECRET_KEY', 'CKK_AES'), ('CKO_PRIVATE_KEY', 'CKK_RSA'), ('CKO_PRIVATE_KEY', 'CKK_EC')):
        o = all_outcomes(f, prog, {'isInitialised': 1, 'objClass': macro(prog, cname), 'keyType': macro(prog, ktype), param_name(f, 6): 0}, {'setAttribute', 'commitTransaction'}, cap=256)
        r.paths += len(o.outcomes)
        site = 'unwrapping a %s (%s)' % (cname, ktype)
        commits = [oc for oc in o.outcomes if any(e[0] == 'call' and e[1] == 'commitTransaction' for e in oc['events'])]
        bad = None
        for oc in commits:
            stored = {}
            for e in oc['events']:
                if e[0] == 'call' and e[1] == 'setAttribute' and len(e[2]) >= 3:
                    m = re.search(r'\((?:false|0)\)$|^(false|0)$', e[2][2])
                    for v, n in want.items():
                        if e[2][1] in (n, str(v)):
                            stored[n] = bool(m)
            missing = [n for n in want.values() if not stored.get(n)]
            if missing:
                bad = (oc, missing)
                break
        if not commits:
            r.undecided(f['qname'], site, 'no path commits the object under the assignment', file=f['file'], line=f['line'])
        elif bad:
            r.violation(f['qname'], site, 'a path commits the unwrapped key without having stored %s = false: the key keeps the default of its class (a private key stays CKA_NEVER_EXTRACTABLE / CKA_ALWAYS_SENSITIVE = true although it came from outside the token)' % ', '.join(bad[1]),
                        file=f['file'], line=bad[0]['line'], path=bad[0]['path'])
        else:
            r.ok(f['qname'], site, '%d committing paths' % len(commits), file=f['file'], line=f['line'])


def run(ctx):
    po = ctx.prog('ossl-file')
    pb = ctx.prog('botan-file')
    r1_reject_before_create(ctx, po)
    r2_templates(ctx, po)
    r2b_template_scan(ctx, po)
    from rules import c06
    c06.r6b_attribute_reads(ctx, po, rule_id='C13.R2c')
    r3_cipher_tables(ctx, po, pb)
    r4_truncation(ctx, po)
    r5_check_values(ctx, po)
    r5b_check_value_source(ctx, po)
    r5c_supplied_check_value(ctx, po)
    r6_caller_iv(ctx, po)
    c10.r3_stripped_length(ctx, [('ossl-file', po), ('botan-file', pb)], rule_id='C13.R7')
    c10.r10_secret_measure(ctx, [('ossl-file', po), ('botan-file', pb)], rule_id='C13.R11')
    r8_unpad_coverage(ctx, po)
    r9_branch_agreement(ctx, po)
    r10_complete_fill(ctx, po)
    r13_unwrapped_key_marks(ctx, po)
    from rules import c05
    c05.r1c_fresh_holders(ctx, po, rule_id='C13.R12')


MUTANTS = [
    dict(name='symdecryptinit-ctr-iv-half-copied', rule='C13.R10', file='src/lib/SoftHSM.cpp', after='CK_RV SoftHSM::SymDecryptInit(',
         old='memcpy(&iv[0], CK_AES_CTR_PARAMS_PTR(pMechanism->pParameter)->cb, 16);', new='memcpy(&iv[0], CK_AES_CTR_PARAMS_PTR(pMechanism->pParameter)->cb, 8);'),
    dict(name='getrsaprivatekey-public-arm-reads-prime1-twice', rule='C13.R9', file='src/lib/SoftHSM.cpp', after='CK_RV SoftHSM::getRSAPrivateKey(',
         old='prime2 = key->getByteStringValue(CKA_PRIME_2);', new='prime2 = key->getByteStringValue(CKA_PRIME_1);'),
    dict(name='unwrap-template-scan-stops-at-first-entry', rule='C13.R2b', file='src/lib/SoftHSM.cpp', after='// Apply the unwrap template',
         old='\t\t\t\t\t\tif (memcmp(attr->pValue, value.const_byte_str(), value.size()) != 0)\n\t\t\t\t\t\t{\n\t\t\t\t\t\t\treturn CKR_TEMPLATE_INCONSISTENT;\n\t\t\t\t\t\t}\n',
         new='\t\t\t\t\t\tif (memcmp(attr->pValue, value.const_byte_str(), value.size()) != 0)\n\t\t\t\t\t\t{\n\t\t\t\t\t\t\treturn CKR_TEMPLATE_INCONSISTENT;\n\t\t\t\t\t\t}\n\t\t\t\t\t\tbreak;\n'),
    dict(name='unpad-skips-first-padding-byte', rule='C13.R8', file='src/lib/SoftHSM.cpp', after='bool SoftHSM::RFC5652Unpad(',
         old='\tfor(auto i = wrappedlen-padbyte; i<wrappedlen; i++)', new='\tfor(auto i = wrappedlen-padbyte+1; i<wrappedlen; i++)'),
    dict(name='wrap-aes-cbc-blocksize-zero', rule='C13.R6', file='src/lib/SoftHSM.cpp', after='CK_RV SoftHSM::WrapKeySym',
         old='\t\tcase CKM_AES_CBC:\n\t\t\tblocksize = 16;\n', new='\t\tcase CKM_AES_CBC:\n'),
    dict(name='unwrap-creates-despite-failure', rule='C13.R1', file='src/lib/SoftHSM.cpp', after='CK_RV SoftHSM::C_UnwrapKey',
         old='\t\trv = UnwrapKeySym(pMechanism, wrapped, token, unwrapKey, keydata);', new='\t\t(void) UnwrapKeySym(pMechanism, wrapped, token, unwrapKey, keydata);'),
    dict(name='wrap-template-mismatch-ignored', rule='C13.R2', file='src/lib/SoftHSM.cpp', after='// Verify the wrap template attribute',
         old='\t\t\t\tif (!it->second.peekValue(v2) || (v1 != v2))\n\t\t\t\t{\n\t\t\t\t\treturn CKR_KEY_NOT_WRAPPABLE;\n\t\t\t\t}',
         new='\t\t\t\tif (!it->second.peekValue(v2) || (v1 != v2))\n\t\t\t\t{\n\t\t\t\t\tDEBUG_MSG("template mismatch");\n\t\t\t\t}'),
    dict(name='aes256-wrap-pad-uses-192', rule='C13.R3', file='src/lib/crypto/OSSLAES.cpp', old='\t\t\t\treturn EVP_aes_256_wrap_pad();', new='\t\t\t\treturn EVP_aes_192_wrap_pad();'),
    dict(name='aes-ctr-returns-cbc', rule='C13.R3', file='src/lib/crypto/OSSLAES.cpp', old='\t\t\t\treturn EVP_aes_128_ctr();', new='\t\t\t\treturn EVP_aes_128_cbc();'),
    dict(name='ecdh-truncates-like-symmetric', rule='C13.R4', file='src/lib/SoftHSM.cpp', after='CK_RV SoftHSM::deriveECDH',
         old='\t\t\t\t\tsecretValue.split(secretValue.size() - byteLen);', new='\t\t\t\t\tsecretValue.resize(byteLen);'),
    dict(name='derived-kcv-by-cast', rule='C13.R5', file='src/lib/SoftHSM.cpp', after='static bool getDerivedKeyCheckValue(',
         old='\t\t\taes.setKeyBits(keyValue);\n\t\t\taes.setBitLen(keyValue.size() * 8);\n\t\t\tcheckValue = aes.getKeyCheckValue();',
         new='\t\t\tgeneric.setKeyBits(keyValue);\n\t\t\tgeneric.setBitLen(keyValue.size() * 8);\n\t\t\tcheckValue = ((AESKey*)&generic)->getKeyCheckValue();'),
]
