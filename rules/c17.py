"""C17 — no input makes the library crash, corrupt memory or kill the host process (DESIGN.md §3 C17; narrow)."""
import re
import os
from engine.rulelib import *
from engine import tables, callgraph, bounds

EXPLANATION = (
    "\"No crash for any input\" as a whole is sanitizer/fuzzing territory and is NOT decided. Decided are structural necessary conditions. R1: every store into a fixed-size local array through a running index (the 32-slot template arrays) "
    "is preceded by the guard idiom `count > capacity - used` (or an in-loop bound) with at most one store per loop iteration. R2: every memcpy/strncpy/memset into a fixed-size field of a caller structure writes a number of bytes that the "
    "dominating facts entail to be <= the field's extent (difference-bound entailment; strlen of an snprintf-filled local and resize() are the only lemmas). R3: every unsigned subtraction that is used as an allocation size, index or copy "
    "length (resize, wipe, substr, split, new[], memcpy, operator[]) has its `subtrahend <= minuend` obligation entailed on every abstract path, or is an individually listed library invariant. R4: a length read from a file reaches resize()/new only "
    "after a bound against the file. R5: all 68 exported entry points are a single try/catch(...) barrier and the function list has them in order. R6: inventory of process-terminating constructs reachable in the library (exit, abort, throw, assert) — new ones are reported. "
    "R7: a pointer local that is NULL on a path (because the out-parameter call that should fill it is known to have failed there) is never dereferenced on that path; the result of a repository function that can return NULL is tested before it "
    "reaches a NULL-intolerant sink. R8: nothing handed to the session is freed again. R9: the slot table is changed only where slots are created. R10: P11Attribute::retrieve never copies more than the size it checked, for every (fixed size, stored kind) pair. "
    "R11: the OSSL:: conversion helpers test their pointer parameters before handing them to OpenSSL (an unknown curve gives no group). R12: a key whose component is empty or missing (C_CreateObject accepts it, an object file can hold it) gives no crypto-library key object - "
    "every user of getOSSLKey()/getBotanKey() tests the answer before the library sees it (both back ends), the builders hand possibly-NULL big numbers only to NULL-tolerant functions and do not ignore a refusing RSA_set0_key. Memory safety inside OpenSSL/libstdc++ and NULL handling of caller pointers beyond these idioms are not decided.")
ASSUMPTIONS = ['bool-returning functions with a T** out-parameter leave it untouched when they return false (repo idiom)', 'snprintf(buf, n, ...) leaves strlen(buf) <= n-1', 'the listed library invariants (OpenSSL bignum sizes bounded by the group size)']
TECHNIQUE = 'custom static analysis over the clang AST: idiom-checked bounded array fills, difference-bound entailment for fixed-field writes and unsigned subtractions, exception-barrier and terminating-call inventory, path-sensitive definite-NULL-dereference analysis'
LEVEL_TEXT = ('Every instance of the enumerated crash-relevant constructs (27 array fills, fixed-field copies, ~35 unsigned subtractions feeding sizes, file-length allocations, 68 exports, out-parameter pointers) carries a discharged obligation on all abstract paths. '
              'This is a narrow, necessary part of C17; it does not replace sanitizer-backed fuzzing and says so.')
LEVEL_NOTE = 'trusted: clang front end, normaliser, abstract interpreter, the lemma set of engine/bounds.py; the individually listed library invariants'


# --------------------------------------------------------------------------------------- R1
def max_stores(s, arrs):
    """Maximum number of stores `arr[k++] = ...` (arr in arrs) on any path through statement s (If/Switch = alternatives)."""
    if s is None:
        return 0
    k = s.get('k')
    if k == 'Block':
        return sum(max_stores(c, arrs) for c in s['body'])
    if k == 'If':
        return max(max_stores(s['t'], arrs), max_stores(s.get('e'), arrs))
    if k == 'Switch':
        best, cur = 0, 0
        body = s['body']['body'] if s['body'] and s['body']['k'] == 'Block' else [s['body']]
        for c in body:
            n = c
            while n is not None and n.get('k') in ('Case', 'Default'):
                n = n['sub']
                cur = cur          # fall-through accumulates
            cur += max_stores(n, arrs)
            if any(x.get('k') in ('Break', 'Continue', 'Return') for x in walk(n)) or c is body[-1]:
                best = max(best, cur)
                cur = 0
        return max(best, cur)
    if k in ('For', 'While', 'Do'):
        return 99 if max_stores(s.get('body'), arrs) else 0
    n = 0
    for x in walk(s):
        if x.get('k') == 'Assign' and x['a'].get('k') == 'Index' and x['a']['base'].get('k') == 'Var' and x['a']['base']['name'] in arrs:
            n += 1
    return n


def const_locals(f):
    out = {}
    for n in walk(f['body']):
        if n.get('k') == 'Decl':
            for d in n['decls']:
                if d['type'].startswith('const ') and d.get('init') is not None:
                    v = tables.const_eval(d['init'])
                    if v is not None:
                        out[d['var']['name']] = v
    return out


def r1_arrays(ctx, prog):
    r = ctx.rule('C17.R1', 'fills of fixed-size local arrays are bounded by the guard idiom', floor=20, engine='E8 idioms')
    for f in sorted(prog.functions.values(), key=lambda f: (f['file'], f['line'])):
        if not f['file'].endswith('SoftHSM.cpp'):
            continue
        arrays = {}
        for n in walk(f['body']):
            if n.get('k') == 'Decl':
                for d in n['decls']:
                    if d.get('extent') and d['type'].startswith('CK_ATTRIBUTE['):
                        arrays[d['var']['name']] = d['extent']
        if not arrays:
            continue
        consts = const_locals(f)
        ctx.analysed(f)

        def scan(block, before, inloop=False):
            """Walk statement lists; `before` = statements of enclosing blocks that precede (dominate) the current one."""
            if block is None:
                return
            stmts = block['body'] if block.get('k') == 'Block' else [block]
            for i, s in enumerate(stmts):
                dom = before + stmts[:i]
                if s.get('k') == 'For':
                    stores = [x for x in walk(s['body']) if x.get('k') == 'Assign' and x['a'].get('k') == 'Index' and x['a']['base'].get('k') == 'Var' and x['a']['base']['name'] in arrays]
                    if stores:
                        check_loop(s, stores, dom)
                    else:
                        scan(s['body'], dom, inloop)
                elif s.get('k') == 'If':
                    scan(s['t'], dom, inloop)
                    scan(s.get('e'), dom, inloop)
                elif s.get('k') in ('While', 'Do', 'Switch', 'Try'):
                    scan(s.get('body'), dom, inloop)
                elif s.get('k') == 'Block':
                    scan(s, dom, inloop)
                else:
                    for x in walk(s):
                        if x.get('k') == 'Assign' and x['a'].get('k') == 'Index' and x['a']['base'].get('k') == 'Var' and x['a']['base']['name'] in arrays:
                            idx = x['a']['idx']
                            v = tables.const_eval(idx, consts)
                            site = 'store into %s outside a loop' % x['a']['base']['name']
                            if v is not None and v < arrays[x['a']['base']['name']]:
                                r.ok(f['qname'], site + '@%s' % x['l'], 'constant index %d' % v, file=f['file'], line=x['l'])
                            else:
                                r.undecided(f['qname'], site, 'index %s of a store outside a loop is not constant' % canon(idx), file=f['file'], line=x['l'])

        def check_loop(loop, stores, dom):
            by_arr = {}
            for x in stores:
                by_arr.setdefault(x['a']['base']['name'], []).append(x)
            # loop bound `i < N`
            N = None
            for b in walk(loop.get('c')):
                if b.get('k') == 'Bin' and b['op'] == '<' and b['b'].get('k') == 'Var':
                    N = b['b']['name']
            cond_has_rv = any(b.get('k') == 'Bin' and b['op'] == '==' and canon(b['b']) == 'CKR_OK' for b in walk(loop.get('c')))
            for arr, xs in sorted(by_arr.items()):
                cap = arrays[arr]
                site = 'fill of %s[%d]' % (arr, cap)
                idxv = xs[0]['a']['idx']
                kname = idxv['e']['name'] if idxv.get('k') == 'Un' and idxv['e'].get('k') == 'Var' else (idxv.get('name') if idxv.get('k') == 'Var' else None)
                if N is None or kname is None:
                    r.undecided(f['qname'], site, 'loop bound or index variable not of the `i < N` / `arr[k++]` shape', file=f['file'], line=loop['l'])
                    continue
                per_iter = max_stores(loop['body'], set(by_arr) if len(by_arr) > 1 and partition_idiom(by_arr, N, dom, consts, cap) else {arr})
                # (B) in-loop bound
                inloop = any(g.get('k') == 'If' and any(b.get('k') == 'Bin' and b['op'] in ('>=', '>') and canon(b['a']) == kname for b in walk(g['c'])) and any(y.get('k') in ('Break', 'Return') for y in walk(g['t']))
                             for g in walk(loop['body']))
                guard = find_guard(dom, N, kname, cap, consts, cond_has_rv)
                append = append_idiom(f, loop, arr, kname, N, consts, cap)
                if per_iter > 1:
                    r.violation(f['qname'], site, 'up to %d stores into %s per loop iteration: the guard on the element count does not bound the index' % (per_iter, arr), file=f['file'], line=xs[0]['l'])
                elif guard or inloop or append:
                    r.ok(f['qname'], site, 'guard: %s' % (guard or ('in-loop bound' if inloop else append)), file=f['file'], line=xs[0]['l'])
                else:
                    r.violation(f['qname'], site, 'the loop stores %s[%s++] for every of the caller\'s %s template entries but no guard `%s > %d - %s` (with the loop conditioned on it) dominates it: more than %d entries overflow the stack array'
                                % (arr, kname, N, N, cap, kname, cap), file=f['file'], line=xs[0]['l'])
        scan(f['body'], [])


def find_guard(dom, N, k, cap, consts, cond_has_rv):
    for g in dom:
        # ternary form: rv = (N > cap - k) ? CKR_x : CKR_OK;
        if g.get('k') == 'Expr' and g['e'].get('k') == 'Assign' and canon(g['e']['a']) == 'rv' and g['e']['b'].get('k') == 'Cond' and cond_has_rv:
            c = g['e']['b']
            for b in walk(c['c']):
                if b.get('k') == 'Bin' and b['op'] == '>' and canon(b['a']) == N and b['b'].get('k') == 'Bin' and b['b']['op'] == '-' and tables.const_eval(b['b']['a'], consts) == cap and canon(b['b']['b']) == k \
                        and canon(c['t']).startswith('CKR_') and canon(c['t']) != 'CKR_OK':
                    return '%s > %d - %s (ternary rv + conditioned loop)' % (N, cap, k)
        if g.get('k') != 'If':
            continue
        for b in walk(g['c']):
            if b.get('k') == 'Bin' and b['op'] == '>' and b['a'].get('k') == 'Var' and b['a']['name'] == N:
                rhs = b['b']
                ok = False
                if rhs.get('k') == 'Bin' and rhs['op'] == '-' and tables.const_eval(rhs['a'], consts) == cap and canon(rhs['b']) == k:
                    ok = True
                elif tables.const_eval(rhs, consts) == cap and k is not None:
                    ok = 'count-only'
                if not ok:
                    continue
                returns = any(x.get('k') == 'Return' for x in walk(g['t']))
                sets_rv = any(x.get('k') == 'Assign' and canon(x['a']) == 'rv' and canon(x['b']).startswith('CKR_') and canon(x['b']) != 'CKR_OK' for x in walk(g['t']))
                if returns or (sets_rv and cond_has_rv):
                    if ok == 'count-only':
                        return None if not _starts_at_zero(dom, k) else '%s > %d with %s starting at 0' % (N, cap, k)
                    return '%s > %d - %s (%s)' % (N, cap, k, 'return' if returns else 'rv + conditioned loop')
    return None


def _starts_at_zero(dom, k):
    for s in dom:
        if s.get('k') == 'Decl':
            for d in s['decls']:
                if d['var']['name'] == k and d.get('init') is not None and tables.const_eval(d['init']) == 0:
                    return True
    return False


def partition_idiom(by_arr, N, dom, consts, cap):
    """Two arrays fed from one loop in exclusive branches with `N > cap -> return` before: the counters sum to <= N <= cap."""
    ks = []
    for arr, xs in by_arr.items():
        idx = xs[0]['a']['idx']
        if not (idx.get('k') == 'Un' and idx['e'].get('k') == 'Var'):
            return False
        ks.append(idx['e']['name'])
    if not all(_starts_at_zero(dom, k) for k in ks):
        return False
    return any(g.get('k') == 'If' and any(b.get('k') == 'Bin' and b['op'] == '>' and canon(b['a']) == N and tables.const_eval(b['b'], consts) == cap for b in walk(g['c'])) and any(x.get('k') == 'Return' for x in walk(g['t'])) for g in dom)


def append_idiom(f, loop, arr, k, N, consts, cap):
    """`for (i < kB) A[kA++] = B[i]` after a partition loop that filled A and B from one template of <= cap entries."""
    for n in walk(f['body']):
        if n.get('k') == 'For' and n is not loop:
            stores = {}
            for x in walk(n['body']):
                if x.get('k') == 'Assign' and x['a'].get('k') == 'Index' and x['a']['base'].get('k') == 'Var':
                    idx = x['a']['idx']
                    if idx.get('k') == 'Un' and idx['e'].get('k') == 'Var':
                        stores[idx['e']['name']] = x['a']['base']['name']
            if k in stores and N in stores and stores[k] == arr and max_stores(n['body'], set(stores.values())) <= 1 and n['l'] < loop['l']:
                return 'partition then append (%s + %s <= template count <= %d)' % (k, N, cap)
    return None


# --------------------------------------------------------------------------------------- R2
def field_extent(prog, member):
    fq = member.get('fq', '')
    cls, _, fld = fq.rpartition('::')
    c = prog.classes.get(cls)
    if c:
        for fl in c['fields']:
            if fl['name'] == fld:
                m = re.search(r'\[(\d+)\]$', fl['type'])
                if m:
                    return int(m.group(1))
    return None


class FixedCopies(SiteFacts):
    pass


def r2_fields(ctx, prog):
    r = ctx.rule('C17.R2', 'writes into fixed-size fields of caller structures stay within the field', floor=12, engine='E8')
    for f in sorted(prog.functions.values(), key=lambda f: (f['file'], f['line'])):
        ptrs = {p['var']['name'] for p in f['params'] if p['type'].endswith('*') or p['type'].endswith('_PTR')}
        sites = [c for c in calls(f['body']) if short(c.get('callee')) in ('memcpy', 'memset', 'strncpy', 'memmove') and c['args'] and c['args'][0].get('k') == 'Member'
                 and c['args'][0].get('base', {}).get('k') == 'Var' and c['args'][0]['base']['name'] in ptrs]
        if not sites:
            continue
        ctx.analysed(f)
        snp = {}
        for c in calls(f['body'], short='snprintf'):
            if c['args'][0].get('k') == 'Var':
                v = tables.const_eval(c['args'][1])
                if v is not None:
                    snp[c['args'][0]['name']] = v

        def trig(e, st):
            if e in sites:
                return (short(e['callee']), canon(e['args'][0]), e['l'])
            return None
        sf = SiteFacts(f, prog, trigger=lambda e, st: (short(e['callee']), canon(e['args'][0]), e['l'], canon(e['args'][2], st.env)) if any(e is s for s in sites) else None, track_facts=r'^LT\(')
        sf.go()
        r.paths += sf.paths_returned
        for (fn, dst, line, n), hits in sorted(sf.sites.items()):
            site_call = [s for s in sites if s['l'] == line][0]
            ext = field_extent(prog, site_call['args'][0])
            site = '%s into %s' % (fn, dst)
            if ext is None:
                r.undecided(f['qname'], site, 'extent of the destination field unknown', file=f['file'], line=line)
                continue
            bad = None
            for h in hits:
                nn = h_n = n
                m = re.fullmatch(r'strlen@\d+\((\w+)\)', nn)
                if m and m.group(1) in snp:
                    nn = str(snp[m.group(1)] - 1)
                if not bounds.entails_le(nn, str(ext), h['facts'], h['env']):
                    bad = h
            if bad and (f['qname'], dst) in R2_EXCEPTIONS and R2_EXCEPTIONS[(f['qname'], dst)][0](prog, f, ext):
                r.excepted(f['qname'], site, R2_EXCEPTIONS[(f['qname'], dst)][1], file=f['file'], line=line)
            elif bad:
                r.violation(f['qname'], site, '%s bytes are written into the %d-byte field %s and nothing on this path entails %s <= %d: a longer value overruns the caller\'s structure' % (n, ext, dst, n, ext), file=f['file'], line=line, path=bad['path'])
            else:
                r.ok(f['qname'], site, 'n=%s <= %d' % (n, ext), file=f['file'], line=line)


def slot_description_bounded(prog, f, ext):
    """Slot::getSlotInfo formats "<literal>" << std::hex << slotID into the 64-byte description: literal length + 16 hex digits."""
    total = 0
    ints = 0
    for c in calls(f['body']):
        if short(c.get('callee')) == 'operator<<':
            for a in c.get('args', []):
                if a is not None and a.get('k') == 'Str':
                    total += len(a.get('s', ''))
                elif a is not None and a.get('k') == 'Member' and a.get('field') == 'slotID':
                    ints += 1
    return ints <= 1 and total + 16 * ints <= ext and total > 0


R2_EXCEPTIONS = {('Slot::getSlotInfo', 'info.slotDescription'): (slot_description_bounded, 'the description is a string literal plus one unsigned long in hex (<= 16 digits): validated literal length + 16 <= 64')}


# --------------------------------------------------------------------------------------- R3
SIZE_SINKS = {'resize', 'wipe', 'substr', 'split', 'memcpy', 'memset', 'memmove', 'strncpy', 'operator[]', 'reserve', 'assign'}
# library invariants: operands are sizes of OpenSSL bignums bounded by the group order / field size (not caller or file input)
R3_EXCEPTIONS = {
    'OSSLDSA::sign': 'r,s are reduced modulo q: BN_num_bytes(r|s) <= BN_num_bytes(q)', 'OSSLDSA::signFinal': 'as OSSLDSA::sign', 'OSSLECDSA::sign': 'r,s are reduced modulo the group order',
    'OSSLDH::deriveKey': 'DH_compute_key returns at most DH_size bytes', 'OSSLECDH::deriveKey': 'ECDH_compute_key returns at most the field size', 'OSSLEDDSA::deriveKey': 'EVP_PKEY_derive returns the announced length',
    'OSSLAES::wrapUnwrapKey': 'the cipher block size is >= 1, so size + 2*blocksize - 1 cannot wrap', 'OSSLEVPSymmetricAlgorithm::encryptUpdate': 'the cipher block size is >= 1',
    'OSSLEVPSymmetricAlgorithm::decryptUpdate': 'the cipher block size is >= 1',
    'OSSLDSA::verify': 'signature length was compared with 2*order length first', 'OSSLECDSA::verify': 'signature length was compared with 2*order length first', 'OSSLDSA::verifyFinal': 'as OSSLDSA::verify',
}


def reported_vars(f):
    """Locals whose value flows (through plain assignments and arithmetic) into a store through a pointer parameter (*pulLen = size): the lengths a call reports."""
    ptrs = {p['var']['name'] for p in f.get('params', []) if p.get('var') and ('*' in p['type'] or 'PTR' in p['type'])}
    rep = set()
    for _ in range(5):
        n0 = len(rep)
        for n in walk(f['body']):
            tgt, rhs = None, None
            if n.get('k') == 'Assign':
                a = n['a']
                if a.get('k') == 'Un' and a.get('op') == '*' and a['e'].get('k') == 'Var' and a['e']['name'] in ptrs:
                    tgt = 'OUT'
                elif a.get('k') == 'Var' and a['name'] in rep:
                    tgt = a['name']
                rhs = n['b']
                if tgt:
                    rep |= {x['name'] for x in walk(rhs) if x.get('k') == 'Var' and x.get('kind') == 'local'}
            elif n.get('k') == 'Decl':
                for d in n['decls']:
                    if d['var']['name'] in rep and d.get('init') is not None:
                        rep |= {x['name'] for x in walk(d['init']) if x.get('k') == 'Var' and x.get('kind') == 'local'}
        if len(rep) == n0:
            break
    return rep


def r3_underflow(ctx, prog, rule_id='C17.R3', text='unsigned subtractions that feed sizes, indices or lengths cannot wrap', floor=15, only=None, mode='sizes'):
    r = ctx.rule(rule_id, text, floor=floor, engine='E8')
    for f in sorted(prog.functions.values(), key=lambda f: (f['file'], f['line'])):
        if only is not None and f['qname'] not in only:
            continue
        subs = []
        if mode == 'reported':
            rep = reported_vars(f)
            for c in walk(f['body']):
                tgt, rhs = None, None
                if c.get('k') == 'Assign' and ((c['a'].get('k') == 'Var' and c['a']['name'] in rep) or (c['a'].get('k') == 'Un' and c['a'].get('op') == '*')):
                    tgt, rhs = c, c['b']
                    for b in walk(rhs):
                        if b.get('k') == 'Bin' and b['op'] == '-' and b.get('uns'):
                            subs.append((c, b))
                elif c.get('k') == 'Decl':
                    for d in c['decls']:
                        if d['var']['name'] in rep and d.get('init') is not None:
                            for b in walk(d['init']):
                                if b.get('k') == 'Bin' and b['op'] == '-' and b.get('uns'):
                                    subs.append((c, b))
        for c in (walk(f['body']) if mode == 'sizes' else ()):
            if c.get('k') in ('Call',) and short(c.get('callee')) in SIZE_SINKS:
                args = list(c.get('args', []))
                if short(c.get('callee')) == 'substr' and (c.get('callee') or '').startswith('std::'):
                    args = args[:1]        # std::string::substr clamps its count argument; only the position can throw
                for a in args:
                    for b in walk(a):
                        if b.get('k') == 'Bin' and b['op'] == '-' and b.get('uns'):
                            subs.append((c, b))
            elif c.get('k') == 'Index':
                for b in walk(c['idx']):
                    if b.get('k') == 'Bin' and b['op'] == '-' and b.get('uns'):
                        subs.append((c, b))
            elif c.get('k') == 'New' and c.get('size') is not None:
                for b in walk(c['size']):
                    if b.get('k') == 'Bin' and b['op'] == '-' and b.get('uns'):
                        subs.append((c, b))
        if not subs:
            continue
        ctx.analysed(f)
        if unanalysable(f):
            continue
        ids = {id(b): (c, b) for c, b in subs}

        class U(Interp):
            TRACK = ('rv', 'bOK')
            CAP = 48
            track_facts = re.compile(r'^LT\(|^EQ\(')

            def __init__(s2, fn, prog):
                super().__init__(fn, prog)
                s2.hits = {}

            def visit(s2, e, st):
                for n in walk(e):
                    if id(n) in ids:
                        a, b = canon(n['a'], st.env), canon(n['b'], st.env)
                        s2.hits.setdefault(id(n), []).append((a, b, frozenset(st.facts), dict(st.env), st.show_path()))

            def pre_call(s2, e, st):
                if e.get('k') in ('Call', 'New') and (short(e.get('callee')) in SIZE_SINKS or e.get('k') == 'New'):
                    s2.visit(e, st)

            def on_call(s2, e, st):
                if e.get('k') == 'New':
                    s2.visit(e, st)

            def on_assign(s2, lhs, rhs, st):
                s2.visit(lhs, st)
                if rhs is not None:
                    s2.visit(rhs, st)

            def effects(s2, e, st):
                if isinstance(e, dict):
                    for n in walk(e):
                        if n.get('k') == 'Index' and id(n.get('idx')) is not None:
                            for b in walk(n['idx']):
                                if id(b) in ids:
                                    a_, b_ = canon(b['a'], st.env), canon(b['b'], st.env)
                                    s2.hits.setdefault(id(b), []).append((a_, b_, frozenset(st.facts), dict(st.env), st.show_path()))
                super().effects(e, st)

            def on_stmt(s2, s, states):
                if s.get('k') == 'Decl':
                    for d in s['decls']:
                        if d.get('init') is not None:
                            for st in states[:8]:
                                s2.visit(d['init'], st)
                if s.get('k') == 'Return' and s.get('e') is not None:
                    for st in states[:8]:
                        s2.visit(s['e'], st)
        u = U(f, prog).go()
        r.paths += u.paths_returned
        for c, b in subs:
            a0, b0 = canon(b['a']), canon(b['b'])
            sink = short(c.get('callee')) if c.get('k') == 'Call' else ('index' if c.get('k') == 'Index' else ('reported length' if c.get('k') in ('Assign', 'Decl') else 'new[]'))
            site = '%s - %s used by %s' % (a0, b0, sink)
            hits = u.hits.get(id(b), [])
            bad = None
            for a, bb, fa, env, path in hits:
                if not (bounds.entails_le(bb, a, fa, env) or lemma_le(bb, a, fa)):
                    bad = (a, bb, path)
            if re.fullmatch(r'-?\d+', b0) and int(b0) <= 1 and sink in ('index', 'operator[]') and not bad:
                pass
            if not hits:
                if tables.const_eval(b['b']) == 0:
                    r.ok(f['qname'], site, 'subtracts zero', file=f['file'], line=b['l'])
                else:
                    r.undecided(f['qname'], site, 'the site was not reached by the path analysis', file=f['file'], line=b['l'])
            elif bad and f['qname'] in R3_EXCEPTIONS:
                r.excepted(f['qname'], site, 'library invariant: ' + R3_EXCEPTIONS[f['qname']], file=f['file'], line=b['l'])
            elif bad:
                r.violation(f['qname'], site, 'nothing on this path entails %s <= %s: if it is larger the unsigned difference wraps to a huge %s' % (bad[1], bad[0], 'size (allocation failure -> exception -> exit)' if sink in ('resize', 'wipe', 'new[]', 'reserve') else (
                    'length that the call reports to the application (a size query answers with it, and no real buffer is ever large enough)' if sink == 'reported length' else 'length/index (out-of-bounds access)')),
                            file=f['file'], line=b['l'], path=bad[2])
            else:
                r.ok(f['qname'], site, '%d abstract states' % len(hits), file=f['file'], line=b['l'])


def lemma_le(b, a, facts):
    """Extra lemmas for R3: x % c <= x ; c <= x when x % c == 0 and x != 0 ; byte value <= blocksize from a dominating `> blocksize` rejection."""
    b, a = bounds.strip_parens(b), bounds.strip_parens(a)
    sb = bounds.split_binop(b, '%')
    if sb and bounds.strip_parens(sb[0]) == a:
        return True
    if re.fullmatch(r'-?\d+', b) and int(b) <= 0:
        return True
    # std::string::find(x, from) returns a position >= from (or npos, which the loop condition excludes)
    pc = parse_call(a)
    if pc and pc[0] == 'find' and len(pc[1]) == 3 and bounds.strip_parens(pc[1][2]) == b:
        return True
    # c <= x  from  (x % c) == 0  and  x != 0
    for atom, t in facts:
        if not t and atom == a:
            return False
    mod0 = any((not t and atom == '(%s%%%s)' % (a, b)) or (t and atom == 'EQ((%s%%%s),0)' % (a, b)) for atom, t in facts)
    nonzero = any((t and atom == a) or (not t and atom == 'EQ(%s,0)' % a) for atom, t in facts)
    if mod0 and nonzero:
        return True
    return False


# --------------------------------------------------------------------------------------- R4
def r4_file_lengths(ctx, prog):
    r = ctx.rule('C17.R4', 'a length read from a file is bounded by the file before it sizes a buffer; the bound is right for every unsigned length', floor=9, engine='E2')
    for f in sorted(prog.methods_of('File'), key=lambda f: f['line']):
        lens = [(v, c) for v, c in [(d['var']['name'], None) for n in walk(f['body']) if n.get('k') == 'Decl' for d in n['decls']] if False]
        reads = [c for c in calls(f['body'], short='readULong') if c['args'] and c['args'][0].get('k') == 'Var']
        sizes = [c for c in calls(f['body']) if short(c.get('callee')) in ('resize', 'reserve') and c['args'] and c['args'][0].get('k') == 'Var' and any(c['args'][0]['name'] == x['args'][0]['name'] for x in reads)]
        if not sizes:
            continue
        ctx.analysed(f)

        def trig(e, st):
            return ('resize', e['l']) if any(e is s for s in sizes) else None
        sf = SiteFacts(f, prog, trigger=trig).go()
        r.paths += sf.paths_returned
        for (_, line), hits in sorted(sf.sites.items()):
            c = [s for s in sizes if s['l'] == line][0]
            lv = c['args'][0]['name']
            site = 'resize(%s) with a length read from the file' % lv
            bad = [h for h in hits if not any(t and re.fullmatch(r'\w+(@\d+)?\(.*\b%s\b.*\)' % lv, a) and not a.startswith(('readULong', 'EQ(', 'LT(')) for a, t in h['facts'])
                   and not any(a.startswith('LT(') and lv in a for a, t in h['facts'])]
            if bad:
                r.violation(f['qname'], site, 'the length %s comes straight from the file and sizes the buffer without any bound: a corrupt length field makes the allocation throw (the exception barrier then calls exit) or exhausts memory' % lv, file=f['file'], line=line, path=bad[0]['path'])
            else:
                r.ok(f['qname'], site, 'bounded first', file=f['file'], line=line)

    # the bound itself: the file-local helper that compares a length with what is left of the file answers 'len <= remaining' for EVERY unsigned length, also beyond LONG_MAX
    helpers = set()
    for f in prog.methods_of('File'):
        for c in calls(f['body']):
            gs = prog.fns(c['callee']) if c.get('callee') and '::' not in c['callee'] else []
            g = gs[0] if len(gs) == 1 else None
            if g is not None and not g.get('class') and g['file'] == f['file'] and [pp for pp in g['params'] if 'FILE' in (pp.get('type') or '')] and len(g['params']) == 2:
                helpers.add(g['qname'])
    for q in sorted(helpers):
        g = prog.fn(q)
        ctx.analysed(g)
        ft = sorted({c['l'] for c in calls(g['body'], short='ftell')})
        ln = [pp['var']['name'] for pp in g['params'] if 'FILE' not in (pp.get('type') or '')][0]
        if len(ft) != 2:
            r.undecided(q, 'bound helper', 'expected two ftell calls (position, end), found %d' % len(ft), file=g['file'], line=g['line'])
            continue
        CUR, END = 10, 110
        for v in (0, 100, 101, 2 ** 63 - 1, 2 ** 63, 2 ** 63 + 5, 2 ** 64 - 1):
            cenv = {re.compile(r'ftell@%d\(.*\)' % ft[0]): CUR, re.compile(r'ftell@%d\(.*\)' % ft[1]): END, re.compile(r'fseek(@\d+)?\(.*\)'): 0, ln: v}
            o = Outcomes(g, prog, cenv=cenv, record_calls=set()).go()
            r.paths += len(o.outcomes)
            got = {oc['retv'] if oc['retv'] is not None else (1 if oc['ret'] == 'true' else 0 if oc['ret'] == 'false' else None) for oc in o.outcomes}
            site = 'bound helper: length %d, %d bytes left' % (v, END - CUR)
            want = int(v <= END - CUR)
            if None in got or not got:
                r.undecided(q, site, 'result not concrete', file=g['file'], line=g['line'])
            elif got != {want}:
                r.violation(q, site, 'answers %s for a length of %d with %d bytes left in the file: %s' % ('"fits"' if 1 in got else '"does not fit"', v, END - CUR,
                            'a corrupt length field with the top bit set sizes the buffer (the allocation throws inside C_Initialize and the exception barrier ends the process)' if want == 0 else 'valid files are rejected'),
                            file=g['file'], line=g['line'])
            else:
                r.ok(q, site, 'fits' if want else 'does not fit', file=g['file'], line=g['line'])


# --------------------------------------------------------------------------------------- R5 / R6
def r5_barrier(ctx, prog):
    r = ctx.rule('C17.R5', 'every exported entry point is a try / catch(...) barrier; the function list holds all of them in order', floor=68, engine='E1')
    exports = [f for f in prog.functions.values() if f['file'].endswith('/main.cpp') and f.get('extern_c') and f['qname'].startswith('C_')]
    for f in sorted(exports, key=lambda f: f['line']):
        body = f['body']['body']
        ok = body and body[0].get('k') == 'Try' and any(h['type'] == '...' for h in body[0].get('handlers', [])) and all(x.get('k') == 'Return' for x in body[1:])
        if ok:
            r.ok(f['qname'], 'barrier', 'single try with catch(...)', file=f['file'], line=f['line'])
        else:
            r.violation(f['qname'], 'barrier', 'the export is not a single try { } catch (...) block: a C++ exception escapes into the (C) application', file=f['file'], line=f['line'])
    fl = prog.globals.get('functionList')
    if fl is None:
        raise AnalysisBroken('functionList not found in main.cpp')
    names = [x.get('qname') or x.get('name') for x in fl['init'].get('args', []) if x is not None and x.get('k') == 'Var' and x.get('kind') == 'func']
    ck = prog.classes.get('_CK_FUNCTION_LIST') or prog.classes.get('CK_FUNCTION_LIST') or next((c for q, c in prog.classes.items() if 'function_list' in q.lower()), None)
    if ck:
        want = [fld['name'] for fld in ck['fields'] if fld['name'].startswith('C_')]
        if names != want:
            diff = next(((i, a, b) for i, (a, b) in enumerate(zip(names, want)) if a != b), (min(len(names), len(want)), None, None))
            r.violation('functionList', 'order', 'slot %d of the function list holds %s, CK_FUNCTION_LIST expects %s' % diff, file=fl['file'], line=fl['line'])
        else:
            r.ok('functionList', 'order', '%d entries in CK_FUNCTION_LIST order' % len(names), file=fl['file'], line=fl['line'])
    else:
        r.info('CK_FUNCTION_LIST layout not in the class table; order not compared')
    missing = sorted({f['qname'] for f in exports} - set(names) - {'C_GetFunctionList'} - set())
    extra = [n for n in names if n not in {f['qname'] for f in exports}]
    if extra:
        r.violation('functionList', 'members', 'function list entries that are not barrier exports: %s' % extra[:4], file=fl['file'], line=fl['line'])


TERMINATORS = {'exit', '_exit', 'abort', 'quick_exit', '_Exit', 'terminate', '__assert_fail', 'raise', 'kill'}
KNOWN_TERMINATING = {('FatalException', 'exit'): 'the barrier\'s last resort', ('UUID::newUUID', 'throw'): 'RNG failure while making an object file name'}


def r6_terminators(ctx, prog):
    r = ctx.rule('C17.R6', 'inventory of process-terminating constructs in the library', floor=2, engine='E6')
    for f in sorted(prog.functions.values(), key=lambda f: (f['file'], f['line'])):
        # throws that a handler of an enclosing try in the same function catches (catch (...) or catch (std::exception&): every exception type of the
        # standard library and of Botan derives from std::exception) never leave the function
        caught = set()
        for t in walk(f['body']):
            if t.get('k') == 'Try' and any(h.get('type') == '...' or 'std::exception' in (h.get('type') or '') for h in t.get('handlers', [])):
                caught |= {id(x) for x in walk(t['body']) if x.get('k') == 'Throw'}
        for n in walk(f['body']):
            what = None
            if n.get('k') == 'Call' and (n.get('callee') or '').split('::')[-1] in TERMINATORS and not n.get('own'):
                what = n['callee'].split('::')[-1]
            if n.get('k') == 'Throw':
                what = 'throw'
            if what:
                site = '%s in %s' % (what, f['qname'])
                if what == 'throw' and id(n) in caught:
                    r.ok(f['qname'], site, 'caught by a handler of the enclosing try in the same function', file=f['file'], line=n['l'])
                elif (f['qname'], what) in KNOWN_TERMINATING:
                    r.excepted(f['qname'], site, KNOWN_TERMINATING[(f['qname'], what)], file=f['file'], line=n['l'])
                else:
                    r.violation(f['qname'], site, 'a new process-terminating construct (%s) in library code: the host application dies instead of getting a PKCS#11 return code' % what, file=f['file'], line=n['l'])


# --------------------------------------------------------------------------------------- R7
NULL_SINKS = {'strlen', 'strcmp', 'strncmp', 'strcpy', 'strcat', 'memcpy', 'strdup', 'atoi', 'strtol', 'free_never'}


class NullDeref(Interp):
    TRACK = ('rv', 'bOK')
    CAP = 48
    track_facts = re.compile(r'^\w+$')

    def __init__(self, fn, prog, nullable):
        super().__init__(fn, prog)
        self.found = {}
        self.nullable = nullable
        self.pending = {}

    def report(self, kind, var, line, st, why):
        self.found.setdefault((kind, var, line), (why, st.show_path()))

    def check_use(self, e, st):
        """e is an expression that dereferences its pointer operand."""
        v = None
        if e.get('k') == 'Call' and e.get('recv') is not None and e['recv'].get('k') == 'Var' and self.is_pointer(e['recv']['name']):
            v = e['recv']['name']
        elif e.get('k') == 'Member' and e.get('arrow') and e['base'].get('k') == 'Var':
            v = e['base']['name']
        elif e.get('k') == 'Un' and e['op'] == '*' and e['e'].get('k') == 'Var' and self.is_pointer(e['e']['name']):
            v = e['e']['name']
        if v is None:
            return
        # only the out-parameter idiom is armed: the NULL-ness is tied to the tracked rv/bOK ladder, so merging cannot fake the path
        if st.env.get(v) in ('NULL', 'NULL_PTR', '0', 'nullptr') and (v, True) not in st.facts and st.aut.get('why:' + v):
            self.report('null', v, e['l'], st, st.aut['why:' + v])
        elif st.aut.get('mayNull:' + v) and (v, True) not in st.facts and (v, False) not in st.facts:
            self.report('unchecked', v, e['l'], st, st.aut['mayNull:' + v])

    def effects(self, e, st):
        if isinstance(e, dict):
            for n in walk(e):
                if n.get('k') in ('Call', 'Member', 'Un'):
                    self.check_use(n, st)
        super().effects(e, st)

    def on_call(self, e, st):
        if e.get('k') != 'Call':
            if e.get('k') == 'Ctor' and e.get('type', '').endswith('string') and e.get('sig', '').startswith('const char *') and e.get('args') and e['args'][0].get('k') == 'Var':
                self.sink(e['args'][0]['name'], e, st, 'std::string constructor')
            return
        c = short(e.get('callee'))
        # T** out-parameters: remember what the variable was before the call
        for a in e.get('args', []):
            if a is not None and a.get('k') == 'Un' and a['op'] == '&' and a['e'].get('k') == 'Var' and self.is_pointer(a['e']['name']):
                v = a['e']['name']
                st.aut['out:%s@%s' % (c, e['l'])] = v
        if c in NULL_SINKS and not e.get('own'):
            for a in e.get('args', []):
                if a is not None and a.get('k') == 'Var' and self.is_pointer(a['name']):
                    self.sink(a['name'], e, st, c)

    def sink(self, v, e, st, what):
        if st.env.get(v) in ('NULL', 'NULL_PTR', '0', 'nullptr') and (v, True) not in st.facts and st.aut.get('why:' + v):
            self.report('null', v, e['l'], st, '%s; passed to %s' % (st.aut['why:' + v], what))
        elif st.aut.get('mayNull:' + v) and (v, True) not in st.facts and (v, False) not in st.facts:
            self.report('unchecked', v, e['l'], st, '%s; passed to %s' % (st.aut['mayNull:' + v], what))

    def on_assign(self, lhs, rhs, st):
        if lhs.get('k') == 'Var' and self.is_pointer(lhs['name']):
            v = lhs['name']
            st.aut.pop('mayNull:' + v, None)
            st.aut.pop('why:' + v, None)
            if rhs is not None and rhs.get('k') == 'Call' and rhs.get('callee') in self.nullable:
                st.aut['mayNull:' + v] = 'result of %s(), which can return NULL' % rhs['callee']
            if rhs is not None and canon(rhs) in ('NULL', 'NULL_PTR', '0', 'nullptr'):
                st.env[v] = 'NULL'

    def on_fact(self, atom, truth, st):
        pc = parse_call(atom)
        if not pc:
            return
        key = 'out:%s' % pc[0]
        v = st.aut.get(key)
        if v is None:
            return
        if truth:
            st.facts.add((v, True))
            st.aut.pop('why:' + v, None)
        else:
            # the callee failed: by the repo idiom the out-parameter was not written
            if st.aut.get('wasNull:' + v, True):
                st.env[v] = 'NULL'
                st.aut['why:' + v] = '%s failed at line %s, so %s was never set' % (pc[0].split('@')[0], pc[0].split('@')[1] if '@' in pc[0] else '?', v)


def r7_null(ctx, prog):
    r = ctx.rule('C17.R7', 'no dereference of a pointer that is NULL on the path; results of functions that can return NULL are tested before NULL-intolerant sinks', floor=100, engine='E2 nullness')
    nullable = set()
    for f in prog.functions.values():
        if f['ret'].endswith('*') or f['ret'].endswith('_PTR'):
            for n in walk(f['body']):
                if n.get('k') == 'Return' and n.get('e') is not None and canon(n['e']) in ('NULL', 'NULL_PTR', '0', 'nullptr'):
                    if f['qname'] in ('SimpleConfigLoader::trimString',) or not f.get('class'):
                        nullable.add(f['qname'])
    for f in sorted(prog.functions.values(), key=lambda f: (f['file'], f['line'])):
        if not (f['file'].endswith(('SoftHSM.cpp', 'SimpleConfigLoader.cpp', 'P11Objects.cpp', 'P11Attributes.cpp', 'Token.cpp', 'SlotManager.cpp', 'SessionManager.cpp'))):
            continue
        if unanalysable(f):
            r.excepted(f['qname'], 'unanalysable', 'contains goto: not interpreted (no rule instance expected here)', file=f['file'], line=f['line'])
            continue
        ctx.analysed(f)
        a = NullDeref(f, prog, nullable).go()
        r.paths += a.paths_returned
        if not a.found:
            r.ok(f['qname'], 'pointer uses', 'no definite-NULL or unchecked-nullable use on any abstract path', file=f['file'], line=f['line'])
        for (kind, v, line), (why, path) in sorted(a.found.items()):
            if kind == 'null':
                r.violation(f['qname'], 'NULL %s dereferenced' % v, '%s is NULL on this path (%s) and is dereferenced / handed to a NULL-intolerant function at line %s: the library crashes' % (v, why, line), file=f['file'], line=line, path=path)
            else:
                r.violation(f['qname'], 'unchecked %s' % v, '%s holds the %s and reaches line %s without a NULL test: undefined behaviour / exception (-> exit) for inputs that make it NULL' % (v, why, line), file=f['file'], line=line, path=path)

    # the OpenSSL parsers that are fed caller-supplied or stored bytes (d2i_*) return NULL for anything malformed: their result is tested before it is dereferenced
    ext = {c['callee'] for f in prog.functions.values() for c in calls(f['body']) if re.fullmatch(r'd2i_\w+', c.get('callee') or '')}
    n = 0
    for f in sorted(prog.functions.values(), key=lambda f: (f['file'], f['line'])):
        if not any(c.get('callee') in ext for c in calls(f['body'])) or unanalysable(f):
            continue
        ctx.analysed(f)
        n += 1
        a = NullDeref(f, prog, ext).go()
        r.paths += a.paths_returned
        if not a.found:
            r.ok(f['qname'], 'results of d2i_* parsers', 'tested before use on every abstract path', file=f['file'], line=f['line'])
        for (kind, v, line), (why, path) in sorted(a.found.items()):
            r.violation(f['qname'], 'unchecked %s' % v, '%s holds the %s (malformed input) and is dereferenced / handed to a NULL-intolerant function at line %s without a NULL test: the library crashes on a malformed encoding' % (v, why, line),
                        file=f['file'], line=line, path=path)
    if ext and n < 5:
        r.undecided('OpenSSL back end', 'd2i_* users', 'only %d functions using d2i_* parsers were analysed (expected at least 5)' % n, file='', line=0)


# --------------------------------------------------------------------------------------- R8: no free after ownership went to the session
def owning_setters(prog):
    """Session setters whose pointer argument the session frees later: the field they store into is deleted / recycled / freed by Session::resetOp or ~Session."""
    freed = set()
    for q in ('Session::resetOp', 'Session::~Session'):
        for f in prog.fns(q):
            for n in walk(f['body']):
                if n.get('k') == 'Delete' and n['e'].get('k') == 'Member':
                    freed.add(n['e']['field'])
                elif n.get('k') == 'Call' and (short(n.get('callee', '')).startswith('recycle') or short(n.get('callee')) == 'free'):
                    for a in n.get('args', []):
                        if a is not None and a.get('k') == 'Member' and a.get('base', {}).get('k') == 'This':
                            freed.add(a['field'])
                    rc = n.get('recv')
                    if rc is not None and rc.get('k') == 'Member' and short(n.get('callee')) == 'recycle':
                        freed.add(rc['field'])
    out = {}
    for f in prog.methods_of('Session'):
        nm = f['qname'].split('::')[-1]
        if not nm.startswith('set') or len(f.get('params', [])) < 1 or not f['params'][0].get('var') or '*' not in f['params'][0]['type']:
            continue
        pn = f['params'][0]['var']['name']
        for n in walk(f['body']):
            if n.get('k') == 'Assign' and n['a'].get('k') == 'Member' and n['a'].get('base', {}).get('k') == 'This' and n['a']['field'] in freed and n['b'].get('k') == 'Var' and n['b']['name'] == pn:
                out[nm] = n['a']['field']
    return out


def r8_ownership(ctx, prog):
    r = ctx.rule('C17.R8', 'an object handed to the session (which frees it in resetOp) is not freed again, and not handed over after it was freed, on any path', floor=9, engine='E3 typestate (ownership)')
    setters = owning_setters(prog)
    if len(setters) < 6:
        raise AnalysisBroken('only %d owning setters of Session recognised: %s' % (len(setters), sorted(setters)))
    frees = {'delete', 'free', 'recycleKey', 'recyclePublicKey', 'recyclePrivateKey', 'recycleSymmetricAlgorithm', 'recycleAsymmetricAlgorithm', 'recycleMacAlgorithm', 'recycleHashAlgorithm', 'recycle', 'recycleSymmetricKey', 'recycleParameters'}
    for f in sorted(prog.functions.values(), key=lambda f: (f['file'], f['line'])):
        if f.get('class') == 'Session' or not any(short(c.get('callee')) in setters for c in calls(f['body'])):
            continue
        ctx.analysed(f)
        if unanalysable(f):
            r.undecided(f['qname'], 'ownership', 'function not analysable', file=f['file'], line=f['line'])
            continue
        o = Outcomes(f, prog, cenv={}, record_calls=set(setters) | frees | {'resetOp'})
        o.CAP = 96
        o.LOOP_ROUNDS = 1
        o.interesting = None
        o.go()
        r.paths += len(o.outcomes)
        bad = None
        for oc in o.outcomes:
            owned = {}       # variable -> line of hand-over
            freed = {}
            for e in oc['events']:
                if e[0] != 'call':
                    continue
                if e[1] == 'resetOp':
                    owned.clear()          # the session released what it owned (and with it the hand-overs made before)
                    continue
                if e[1] in setters:
                    v = e[2][-1] if e[2] else None
                    if v is None or v in ('NULL', '0', 'nullptr'):
                        continue
                    if v in freed:
                        bad = (oc, '%s is handed to the session by %s at line %s after it was freed at line %s' % (v, e[1], e[3], freed[v]))
                    owned[v] = e[3]
                elif e[1] in frees:
                    for v in e[2]:
                        if v in owned:
                            bad = (oc, '%s is freed (%s, line %s) after %s handed it to the session at line %s; Session::resetOp frees it again' % (v, e[1], e[3], [k for k, fl in setters.items()][0] if False else 'the setter', owned[v]))
                        if re.fullmatch(r'[A-Za-z_]\w*', v or ''):
                            freed[v] = e[3]
        n = sum(1 for c in calls(f['body']) if short(c.get('callee')) in setters)
        site = '%d hand-overs to the session' % n
        if bad:
            r.violation(f['qname'], 'hand-overs to the session', bad[1] + ': a dangling pointer is left in the session; the next call on it (or C_CloseSession / C_Finalize) reads freed memory or frees it twice', file=f['file'], line=bad[0]['line'], path=bad[0]['path'])
        else:
            r.ok(f['qname'], 'hand-overs to the session', '%d hand-overs, %d paths' % (n, len(o.outcomes)), file=f['file'], line=f['line'])


def r9_slot_table(ctx, prog):
    """SlotManager::getSlotList (C_GetSlotList) dereferences every element of the slot table without a NULL test.  That is sound only while nothing but the code that creates slots
    changes the table: any other mutating container operation on it - in particular std::map::operator[] in a lookup, which silently inserts a NULL element for an unknown slot ID -
    turns a later C_GetSlotList into a NULL dereference."""
    r = ctx.rule('C17.R9', 'the slot table, whose elements are dereferenced unchecked, is changed only where slots are created', floor=3, engine='E6 who-may-write + contradiction rule')
    MUT = {'operator[]', 'insert', 'erase', 'clear', 'emplace', 'swap', 'operator=', 'emplace_hint', 'insert_or_assign', 'try_emplace'}
    unchecked = []
    writers = {}
    for f in prog.functions.values():
        if f.get('class') != 'SlotManager':
            continue
        tests = set()
        for n in walk(f['body']):
            if n.get('k') == 'Bin' and n.get('op') in ('==', '!='):
                tests |= {canon(x) for x in (n['a'], n['b']) if x.get('k') == 'Member' and x.get('field') == 'second'}
            if n.get('k') == 'Un' and n.get('op') == '!' and n['e'].get('k') == 'Member' and n['e'].get('field') == 'second':
                tests.add(canon(n['e']))
        for n in walk(f['body']):
            b = n.get('recv') if n.get('k') == 'Call' else (n.get('base') if n.get('k') == 'Member' and n.get('arrow') else None)
            if b is not None and b.get('k') == 'Member' and b.get('field') == 'second' and canon(b) not in tests:
                unchecked.append((f, n['l']))
            if n.get('k') == 'Call' and n.get('recv') is not None and n['recv'].get('k') == 'Member' and n['recv'].get('field') == 'slots' and n['recv']['base'].get('k') == 'This' and short(n.get('callee')) in MUT:
                writers.setdefault(f['qname'], []).append((short(n['callee']), n['l'], f))
            if n.get('k') == 'Assign' and n['a'].get('k') == 'Member' and n['a'].get('field') == 'slots':
                writers.setdefault(f['qname'], []).append(('=', n['l'], f))
    if not unchecked:
        r.ok('SlotManager', 'unchecked element use', 'no unchecked dereference of a slot table element left: the table may hold NULL elements', file='', line=0)
        return
    f0, l0 = unchecked[0]
    ctx.analysed(f0)
    r.ok(f0['qname'], 'unchecked element use', 'elements dereferenced without a NULL test (line %d): the table must never hold a NULL element' % l0, file=f0['file'], line=l0)
    ALLOWED = {'SlotManager::SlotManager': 'builds the table', 'SlotManager::~SlotManager': 'empties it', 'SlotManager::insertToken': 'adds a slot for a new token (non-NULL, new Slot)'}
    for q, ws in sorted(writers.items()):
        f = ws[0][2]
        ctx.analysed(f)
        site = 'changes the slot table (%s)' % ', '.join(sorted({w[0] for w in ws}))
        if q in ALLOWED:
            r.ok(q, site, ALLOWED[q], file=f['file'], line=ws[0][1])
        else:
            r.violation(q, site, '%s applies %s to the slot table (line %d): %s; SlotManager::getSlotList dereferences every element unchecked (line %d), so a later C_GetSlotList crashes' % (
                q, ws[0][0], ws[0][1], 'std::map::operator[] inserts a NULL Slot* for a key that is not there' if ws[0][0] == 'operator[]' else 'only the slot-creating functions may change the table', l0), file=f['file'], line=ws[0][1])
    if not writers:
        r.undecided('SlotManager', 'writers', 'no function changes the slot table: anchor lost', file='', line=0)


def r10_retrieve_kinds(ctx, prog):
    """C_GetAttributeValue compares the caller's buffer with the size the ATTRIBUTE promises (its fixed size, or the size of the stored value for variable attributes) and then copies
    according to the kind of the STORED attribute.  The store is a file anybody may have damaged: for every (fixed size, stored kind) pair the number of bytes written - and read from the
    stored value - must not exceed the size that was checked."""
    r = ctx.rule('C17.R10', 'P11Attribute::retrieve never copies more than the size it checked, whatever kind the object store returns for the attribute', floor=25, engine='E1 finite-domain evaluation')
    f = prog.fn('P11Attribute::retrieve')
    ctx.analysed(f)
    KINDS = ['Boolean', 'UnsignedLong', 'ByteString', 'MechanismTypeSet', 'AttributeMap']
    label, mechs, wrapt, unwrapt = macro(prog, 'CKA_LABEL'), macro(prog, 'CKA_ALLOWED_MECHANISMS'), macro(prog, 'CKA_WRAP_TEMPLATE'), macro(prog, 'CKA_UNWRAP_TEMPLATE')
    for size, atype, aname in [(1, None, ''), (8, None, ''), (-1, label, 'CKA_LABEL'), (-1, mechs, 'CKA_ALLOWED_MECHANISMS'), (-1, wrapt, 'CKA_WRAP_TEMPLATE'), (-1, unwrapt, 'CKA_UNWRAP_TEMPLATE')]:
        for k in KINDS:
            cenv = {'size': size if size > 0 else 2 ** 64 - 1, 'checks': 0, 'osobject': 1, param_name(f, 3): 1, param_name(f, 2): 1, '*' + param_name(f, 3): 4096, param_name(f, 1): 0,
                    re.compile(r'attributeExists(@\d+)?\(.*\)'): 1, re.compile(r'size\(get\w+Value(@\d+)?\(.*\)\)'): 16}
            for kk in KINDS:
                cenv[re.compile(r'is%sAttribute(@\d+)?\(.*\)' % kk)] = int(kk == k)
            if atype is not None:
                cenv['type'] = atype
            o = Outcomes(f, prog, cenv=cenv, record_calls={'memcpy', 'retrieveAttributeMap'})
            o.CAP = 64
            o.LOOP_ROUNDS = 1
            o.go()
            r.paths += len(o.outcomes)
            wr = sorted({(e[1], e[3]) for oc in o.outcomes for e in oc['events'] if e[0] == 'call' or (e[0] == 'write' and re.search(r'\b(%s|pTemplate)\b' % param_name(f, 2), e[1]))})
            site = 'fixed size %s, stored as %s' % (size if size > 0 else 'none (variable, %s)' % aname, k)
            written = {'Boolean': 1, 'UnsignedLong': 8}.get(k)
            # a variable-size attribute is delivered as bytes, as an array of mechanism types or as an array of CK_ATTRIBUTE: the stored kind must be the kind of the attribute type
            kind_of_type = {mechs: 'MechanismTypeSet', wrapt: 'AttributeMap', unwrapt: 'AttributeMap'}.get(atype, 'ByteString')
            consistent = (size == -1 and written is None and (k == kind_of_type or k == 'ByteString')) or (written is not None and size == written)
            harmless = written is not None and size > 0 and written <= size
            if not o.outcomes:
                r.undecided(f['qname'], site, 'no path', file=f['file'], line=f['line'])
            elif wr and not consistent and not harmless:
                r.violation(f['qname'], site, 'the buffer is checked against %s byte(s) and then %s (line %s): an object file that stores the attribute with this kind makes C_GetAttributeValue %s' % (
                    size, 'an unsigned long (8 bytes) is stored into it' if k == 'UnsignedLong' else 'a value of unrelated length is copied', wr[0][1],
                    'write past the caller\'s buffer / take the caller\'s byte buffer for an array of CK_ATTRIBUTE' if k != 'ByteString' else 'read past the stored value'), file=f['file'], line=wr[0][1])
            else:
                r.ok(f['qname'], site, 'copies %s' % (', '.join('%s@%s' % w for w in wr) if wr else 'nothing: rejected'), file=f['file'], line=f['line'])


TYPE_SIZES = {'CK_BBOOL': 1, 'CK_BYTE': 1, 'CK_CHAR': 1, 'CK_UTF8CHAR': 1, 'CK_ULONG': 8, 'CK_ULONG_PTR': 8, 'CK_LONG': 8, 'CK_OBJECT_CLASS': 8, 'CK_KEY_TYPE': 8, 'CK_MECHANISM_TYPE': 8, 'CK_ATTRIBUTE_TYPE': 8, 'CK_FLAGS': 8}


def r10b_template_stores(ctx, prog):
    """The nested-template twin of R10: a value stored through the pValue of a caller's CK_ATTRIBUTE entry is stored only after the entry's ulValueLen was found to be at least
    the size of what is stored (typed store: the size of the type; memcpy: its length argument)."""
    r = ctx.rule('C17.R10b', 'a store through a caller\'s CK_ATTRIBUTE.pValue is preceded by a test of that entry\'s ulValueLen against the size stored', floor=2, engine='E2 dominance + E8')
    for f in sorted(prog.functions.values(), key=lambda f: (f['file'], f['line'])):
        if f['body'] is None or unanalysable(f):
            continue
        stores = {}
        for n in walk(f['body']):
            if n.get('k') == 'Assign' and n['a'].get('k') == 'Un' and n['a'].get('op') == '*' and n['a']['e'].get('k') == 'Member' and n['a']['e'].get('field') == 'pValue':
                t = (n['a']['e'].get('cast') or '').replace('*', '').strip()
                t = {'CK_ULONG_PTR': 'CK_ULONG'}.get(t, t)
                stores[id(n['a'])] = (n['a']['e']['base'], TYPE_SIZES.get(t), t, n['l'])
            elif n.get('k') == 'Call' and n.get('callee') == 'memcpy' and len(n.get('args', [])) == 3 and n['args'][0].get('k') == 'Member' and n['args'][0].get('field') == 'pValue':
                stores[id(n)] = (n['args'][0]['base'], n['args'][2], 'memcpy', n['l'])
        if not stores:
            continue
        ctx.analysed(f)

        def atrig(lhs, rhs, st):
            return ('store', id(lhs)) if id(lhs) in stores else None

        def trig(e, st):
            return ('store', id(e)) if id(e) in stores else None
        sf = SiteFacts(f, prog, trigger=trig, assign_trigger=atrig, track_facts=r'^LT\(.*ulValueLen.*').go()
        r.paths += sf.paths_returned
        for (_, sid), hits in sorted(sf.sites.items(), key=lambda kv: stores[kv[0][1]][3]):
            bnode, size, what, line = stores[sid]
            base = canon(bnode)
            site = '%s through %s.pValue@%d' % ('store of a %s' % what if what != 'memcpy' else 'memcpy', base, line)
            if size is None:
                r.undecided(f['qname'], site, 'the size of the stored type %s is not known to the rule' % what, file=f['file'], line=line)
                continue
            bad = None
            # the body of an element loop is the same code for every element: it is decided on the iterations whose index is concrete (later iterations have a summarised
            # index, and the assignment of ulValueLen that precedes the store forgets what was known about that element)
            idx = {x['name'] for x in walk(bnode) if x.get('k') == 'Var' and x.get('kind') == 'local'}
            concrete = [h for h in hits if all(str(h['env'].get(v, '')).isdigit() for v in idx)]
            for h in (concrete or hits):
                ok = False
                hb = canon(bnode, h['env'])
                hs = size if isinstance(size, int) else canon(size, h['env'])
                for at, t in h['facts']:
                    m = re.fullmatch(r'LT\((.*)\.ulValueLen,(.*)\)', at)
                    if m and t is False and m.group(1) == hb:
                        bound = m.group(2)
                        mb = re.fullmatch(r'(?:sizeof:)?(\d+)', bound)
                        if isinstance(hs, int):
                            ok = ok or (mb is not None and int(mb.group(1)) >= hs)
                        else:
                            ok = ok or bound == hs
                if not ok:
                    bad = h
                    break
            if not isinstance(size, int):
                size = canon(size)
            if bad:
                r.violation(f['qname'], site, '%s bytes are stored through the caller\'s pointer on a path where %s.ulValueLen was not found to be at least that (a wrong or missing bound): the library writes past the buffer the caller announced' % (size, base),
                            file=f['file'], line=line, path=bad['path'])
            else:
                r.ok(f['qname'], site, 'bounded by the entry\'s ulValueLen', file=f['file'], line=line)


def r11_conversion_helpers(ctx, prog):
    """The OSSL:: conversion helpers sit between attribute bytes the caller supplied and OpenSSL objects; their pointer parameters are NULL whenever an earlier conversion failed
    (an unknown curve gives no group).  OpenSSL's EC/BN functions dereference their arguments, so every helper tests a pointer parameter before handing it on - most do; one that
    does not is the crash."""
    r = ctx.rule('C17.R11', 'the OSSL:: conversion helpers test their pointer parameters before handing them to OpenSSL', floor=6, engine='E2 dominance (contradiction rule: the siblings test)')
    defined = {g['qname'] for g in prog.functions.values()}
    for f in sorted(prog.functions.values(), key=lambda f: (f['file'], f['line'])):
        if not f['qname'].startswith('OSSL::'):
            continue
        ptrs = [pp['var']['name'] for pp in f['params'] if pp.get('var') and (pp.get('type') or '').rstrip().endswith('*')]
        if not ptrs or unanalysable(f):
            continue

        def trig(e, st):
            if e.get('k') == 'Call' and e.get('callee') and e['callee'] not in defined and '::' not in e['callee']:
                ps = tuple(a['name'] for a in e.get('args', []) if a is not None and a.get('k') == 'Var' and a['name'] in ptrs)
                if ps:
                    return (e['callee'], ps, e['l'])
            return None
        sf = SiteFacts(f, prog, trigger=trig, track_facts=r'^\w+$|^EQ\(\w+,NULL\)$').go()
        r.paths += sf.paths_returned
        if sf.sites:
            ctx.analysed(f)
        for (callee, ps, line), hits in sorted(sf.sites.items()):
            for p_ in ps:
                site = '%s(%s)@%d' % (callee, p_, line)
                bad = [h for h in hits if (p_, True) not in h['facts'] and ('EQ(%s,NULL)' % p_, False) not in h['facts']]
                if bad:
                    r.violation(f['qname'], site, 'the parameter %s goes to %s without a NULL test; it is NULL when an earlier conversion of caller-supplied bytes failed (e.g. CKA_EC_PARAMS naming an unknown curve): OpenSSL dereferences it and the process crashes' % (p_, callee),
                                file=f['file'], line=line, path=bad[0]['path'])
                else:
                    r.ok(f['qname'], site, 'tested first', file=f['file'], line=line)


# --------------------------------------------------------------------------------------- R12: crypto-library key objects are complete or absent, and absent is tested
KEY_ACCESSORS = ('getOSSLKey', 'getBotanKey')
NULL_TOLERANT = re.compile(r'^(BN_free|BN_clear_free|\w+_set0_\w+|\w+_free)$')
# set0 functions that refuse a NULL mandatory component and leave the object without it; what happens to such an object afterwards
HALF_BUILT = {
    'RSA_set0_key': 'RSA_size, RSA_public_decrypt, RSA_verify and the PSS padding dereference the modulus (replay repro/triage/f30_degenerate_keys.c: 27 of 39 crashes)',
}


def callers_test_key(prog, g, acc, is_accessor):
    """g is a file-local free function that uses <accessor>(<parameter>) untested: do all its callers (same file) establish `<accessor>(<argument>) != NULL` before the call?"""
    m = re.fullmatch(r'(\w+)\((\w+)\)', acc)
    if not m:
        return False
    accname, pname = m.groups()
    pn = [pp['var']['name'] if pp.get('var') else None for pp in g['params']]
    if pname not in pn:
        return False
    pi = pn.index(pname)
    callers = [h for h in prog.functions.values() if h.get('body') is not None and os.path.basename(h['file']) == os.path.basename(g['file']) and any(c.get('callee') == g['qname'] for c in calls(h['body']))]
    if not callers:
        return False
    for h in callers:
        holders = {}
        for n in walk(h['body']):
            if n.get('k') == 'Decl':
                for d in n['decls']:
                    i = d.get('init')
                    while i is not None and i.get('k') in ('Cast', 'Paren') and i.get('e') is not None:
                        i = i['e']
                    if is_accessor(i):
                        holders[d['var']['name']] = canon(i)

        def trig(e, st):
            return ('call', e['l']) if e.get('k') == 'Call' and e.get('callee') == g['qname'] else None
        sf = SiteFacts(h, prog, trigger=trig, track_facts=r'^\w+$|^EQ\(\w+,NULL\)$|.*(getOSSLKey|getBotanKey)\(\w+\).*').go()
        for (_, line), hits in sf.sites.items():
            c = [c for c in calls(h['body']) if c.get('callee') == g['qname'] and c['l'] == line][0]
            if pi >= len(c.get('args', [])):
                return False
            want = '%s(%s)' % (accname, canon(c['args'][pi]))
            same = [want] + [v for v, a in holders.items() if a == want]
            for hit in hits:
                if not any((v, True) in hit['facts'] or ('EQ(%s,NULL)' % v, False) in hit['facts'] for v in same):
                    return False
    return True


def r12_key_objects(ctx, prog):
    """A key object can reach the crypto back end with an empty component (C_CreateObject accepts it, an object file can hold it).  (a) Whoever asks a key class for the
    crypto library's key object tests the answer before handing it to the library - the siblings (ECDSA, EDDSA, DH, ECDH) always did; (b) the functions that build that object
    hand a big number that may be NULL (the conversion of an empty component) only to functions that accept NULL, and do not ignore the refusal of a set0 call that leaves
    the object without its mandatory part."""
    r = ctx.rule('C17.R12', 'the crypto library\'s key object is tested before use, and is never built from missing components', floor=12, engine='E2 dominance (contradiction rule: the siblings test) + nullable-value following')
    defined = {g['qname'] for g in prog.functions.values()}

    def is_accessor(e):
        return e is not None and e.get('k') == 'Call' and short(e.get('callee') or '') in KEY_ACCESSORS and (e.get('callee') or '') in defined

    def strip(e):
        while e is not None and e.get('k') in ('Cast', 'Paren') and e.get('e') is not None:
            e = e['e']
        return e

    n_users = 0
    for f in sorted(prog.functions.values(), key=lambda f: (f['file'], f['line'])):
        if not any(is_accessor(c) for c in calls(f['body'])) or short(f['qname']) in KEY_ACCESSORS or unanalysable(f):
            continue
        holders = {}          # local -> canonical accessor expression it was filled from
        for n in walk(f['body']):
            if n.get('k') == 'Decl':
                for d in n['decls']:
                    if is_accessor(strip(d.get('init'))):
                        holders[d['var']['name']] = canon(strip(d['init']))
            elif n.get('k') == 'Assign' and n['a'].get('k') == 'Var' and is_accessor(strip(n.get('b'))):
                holders[n['a']['name']] = canon(strip(n['b']))

        def uses(e):
            """(value name, canonical accessor) pairs a call hands to code outside the repository or dereferences"""
            out = []
            for a in e.get('args', []):
                a0 = strip(a)
                if a0 is None:
                    continue
                if a0.get('k') == 'Un' and a0.get('op') == '*':
                    a0 = strip(a0['e'])
                if a0.get('k') == 'Var' and a0['name'] in holders:
                    out.append((a0['name'], holders[a0['name']]))
                elif is_accessor(a0):
                    out.append((canon(a0), canon(a0)))
            return out

        def trig(e, st):
            if e.get('k') in ('Call', 'Ctor', 'New') and (e.get('callee') or e.get('type') or '') not in defined and not e.get('own'):
                u = uses(e)
                if u:
                    return (e.get('callee') or e.get('type') or '?', tuple(u), e['l'])
            return None
        sf = SiteFacts(f, prog, trigger=trig, track_facts=r'^\w+$|^EQ\(\w+,NULL\)$|.*(getOSSLKey|getBotanKey)\(\w+\).*').go()
        r.paths += sf.paths_returned
        if sf.sites:
            ctx.analysed(f)
            n_users += 1
        for (callee, us, line), hits in sorted(sf.sites.items()):
            for name, acc in us:
                site = '%s(%s)@%d' % (callee, name, line)
                same = [name] + [v for v, a in holders.items() if a == acc] + [acc]

                def tested(h):
                    return any((v, True) in h['facts'] or ('EQ(%s,NULL)' % v, False) in h['facts'] for v in same)
                bad = [h for h in hits if not tested(h)]
                if bad and not f.get('class') and callers_test_key(prog, f, acc, is_accessor):
                    r.ok(f['qname'], site, 'file-local helper: every caller tests the key object before the call', file=f['file'], line=line)
                    continue
                if bad:
                    r.violation(f['qname'], site, '%s, the answer of %s, goes to %s without a NULL test; the key class gives no key object when a component of the key is missing or empty (C_CreateObject accepts such a key, an object file can hold one): the process crashes' % (name, acc, callee),
                                file=f['file'], line=line, path=bad[0]['path'])
                else:
                    r.ok(f['qname'], site, 'tested first', file=f['file'], line=line)
    if n_users < 5:
        r.undecided('crypto back end', 'users of the key accessors', 'only %d functions that use a key accessor were analysed (expected at least 5)' % n_users, file='', line=0)

    # (b) the builders
    n_builders = 0
    for f in sorted(prog.functions.values(), key=lambda f: (f['file'], f['line'])):
        if short(f['qname']) not in ('createOSSLKey',) or unanalysable(f):
            continue
        nullable = {}
        for n in walk(f['body']):
            if n.get('k') == 'Decl':
                for d in n['decls']:
                    i = strip(d.get('init'))
                    if i is not None and i.get('k') == 'Call' and (i.get('callee') in ('OSSL::byteString2bn', 'BN_new')):
                        nullable[d['var']['name']] = i['callee']
        if not nullable:
            continue
        n_builders += 1

        def trig2(e, st):
            if e.get('k') == 'Call' and e.get('callee') and e['callee'] not in defined and '::' not in e['callee']:
                vs = tuple(a0['name'] for a0 in (strip(a) for a in e.get('args', [])) if a0 is not None and a0.get('k') == 'Var' and a0['name'] in nullable)
                if vs:
                    return (e['callee'], vs, e['l'])
            return None
        sf = SiteFacts(f, prog, trigger=trig2, track_facts=r'^\w+$|^EQ\(\w+,NULL\)$|^\w+_set0_\w+@\d+\(.*').go()
        r.paths += sf.paths_returned
        ctx.analysed(f)
        for (callee, vs, line), hits in sorted(sf.sites.items()):
            if NULL_TOLERANT.match(callee) and callee not in HALF_BUILT:
                continue
            for v in vs:
                site = '%s(%s)@%d' % (callee, v, line)
                bad = [h for h in hits if (v, True) not in h['facts'] and ('EQ(%s,NULL)' % v, False) not in h['facts']]
                if callee in HALF_BUILT:
                    continue
                if bad:
                    r.violation(f['qname'], site, '%s is the conversion of a key component (%s) and NULL when the component is empty; %s dereferences it: the process crashes' % (v, nullable[v], callee),
                                file=f['file'], line=line, path=bad[0]['path'])
                else:
                    r.ok(f['qname'], site, 'tested first', file=f['file'], line=line)
        # a refusing set0 call is not ignored
        for c in calls(f['body']):
            if c.get('callee') in HALF_BUILT:
                site = '%s@%d' % (c['callee'], c['l'])
                used = any(n is not c and n.get('k') in ('If', 'Un', 'Bin', 'Cond', 'Assign', 'Decl', 'Return') and any(x is c for x in walk(n)) for n in walk(f['body']))
                if used:
                    r.ok(f['qname'], site, 'the result is looked at', file=f['file'], line=c['l'])
                else:
                    r.violation(f['qname'], site, 'the result of %s is ignored; it refuses a NULL mandatory component (an empty key component converts to NULL) and leaves the object without it: %s' % (c['callee'], HALF_BUILT[c['callee']]),
                                file=f['file'], line=c['l'])
    if n_builders < 4 and any(short(g['qname']) == 'createOSSLKey' for g in prog.functions.values()):
        r.undecided('crypto back end', 'createOSSLKey builders', 'only %d builders that convert key components were analysed (expected at least 4)' % n_builders, file='', line=0)


def r13_no_delete_after_registration(ctx, prog):
    """An object whose pointer was put into a member container is owned by that container (the destructor of the class deletes the elements): the same function does not delete the
    object afterwards while the pointer is still in the container - the destructor would delete it a second time (the crash comes at C_Finalize, far from the cause)."""
    r = ctx.rule('C17.R13', 'a pointer that was stored in a member container is not deleted while it is still in it (no double delete at tear-down)', floor=5, engine='E5 ownership typestate')
    for f in sorted(prog.functions.values(), key=lambda f: (f['file'], f['line'])):
        if f['body'] is None or not f.get('class') or unanalysable(f):
            continue
        regs = [c for c in calls(f['body']) if short(c.get('callee') or '') in ('push_back', 'insert', 'emplace_back') and c.get('recv') is not None
                and ((c['recv'].get('k') == 'Member' and c['recv'].get('base', {}).get('k') == 'This') or (c['recv'].get('k') == 'Var' and c['recv'].get('kind') == 'field'))
                and c.get('args') and c['args'][-1].get('k') == 'Var' and c['args'][-1].get('kind') in ('local', 'param')]
        dels = [n for n in walk(f['body']) if n.get('k') == 'Delete' and n.get('e', {}).get('k') == 'Var']
        if not regs:
            continue
        ptrs = {c['args'][-1]['name'] for c in regs}
        if not any(d['e']['name'] in ptrs for d in dels):
            for c in regs:
                r.ok(f['qname'], 'registration of %s@%d' % (c['args'][-1]['name'], c['l']), 'never deleted in this function', file=f['file'], line=c['l'])
            ctx.analysed(f)
            continue
        ctx.analysed(f)
        found = {}

        class A(Interp):
            def on_call(self, e, st):
                if e.get('k') == 'Call' and short(e.get('callee') or '') in ('push_back', 'insert', 'emplace_back') and any(e is c for c in regs):
                    st.aut['in:' + e['args'][-1]['name']] = e['l']
                elif e.get('k') == 'Call' and short(e.get('callee') or '') in ('erase', 'remove', 'clear', 'pop_back') and e.get('recv') is not None:
                    for k_ in [k_ for k_ in st.aut if k_.startswith('in:')]:
                        st.aut.pop(k_)

            def on_assign(self, lhs, rhs, st):
                # the variable now names another object (a new element of the enumeration)
                if lhs is not None and lhs.get('k') == 'Var':
                    st.aut.pop('in:' + lhs['name'], None)

            def on_delete(self, e, st):
                t = e.get('e') if e.get('k') == 'Delete' else e
                if t is not None and t.get('k') == 'Var' and ('in:' + t['name']) in st.aut:
                    found.setdefault((t['name'], e.get('l')), (st.aut['in:' + t['name']], st.show_path()))
        a = A(f, prog).go()
        r.paths += a.paths_returned
        for c in regs:
            p_ = c['args'][-1]['name']
            site = 'registration of %s@%d' % (p_, c['l'])
            hit = [(k_, v) for k_, v in found.items() if k_[0] == p_ and v[0] == c['l']]
            if hit:
                (_, dl), (rl, path) = hit[0]
                r.violation(f['qname'], site, '%s is stored in a member container at line %s and deleted at line %s on the same path without being taken out again: the container keeps a dangling pointer and the destructor deletes the object a second time (crash in C_Finalize)' % (p_, rl, dl),
                            file=f['file'], line=dl, path=path)
            else:
                r.ok(f['qname'], site, 'not deleted while registered', file=f['file'], line=c['l'])


def run(ctx):
    prog = ctx.prog('ossl-file')
    r1_arrays(ctx, prog)
    r2_fields(ctx, prog)
    r3_underflow(ctx, prog)
    r4_file_lengths(ctx, prog)
    r5_barrier(ctx, prog)
    r6_terminators(ctx, prog)
    r7_null(ctx, prog)
    r8_ownership(ctx, prog)
    r9_slot_table(ctx, prog)
    r10_retrieve_kinds(ctx, prog)
    r10b_template_stores(ctx, prog)
    if any(g['qname'].startswith('OSSL::') for g in prog.functions.values()):
        r11_conversion_helpers(ctx, prog)
    r12_key_objects(ctx, prog)
    r13_no_delete_after_registration(ctx, prog)


MUTANTS = [
    dict(name='attributemap-bytes-not-bounded', rule='C17.R10b', file='src/lib/P11Attributes.cpp', after='static CK_RV retrieveAttributeMap(',
         old='\t\t\tif (pTemplate[i].ulValueLen < value.size())\n', new='\t\t\tif (pTemplate[i].ulValueLen == 0)\n'),
    dict(name='rsa-encrypt-key-not-tested', rule='C17.R12', file='src/lib/crypto/OSSLRSA.cpp', after='bool OSSLRSA::encrypt(',
         old='\tif (rsa == NULL)\n', new='\tif (false)\n'),
    dict(name='rsa-public-set0-refusal-ignored', rule='C17.R12', file='src/lib/crypto/OSSLRSAPublicKey.cpp', after='void OSSLRSAPublicKey::createOSSLKey(',
         old='\tif (!RSA_set0_key(rsa, bn_n, bn_e, NULL))\n', new='\tRSA_set0_key(rsa, bn_n, bn_e, NULL);\n\tif (false)\n'),
    dict(name='dsa-private-components-not-tested', rule='C17.R12', file='src/lib/crypto/OSSLDSAPrivateKey.cpp', after='void OSSLDSAPrivateKey::createOSSLKey(',
         old='\tif (bn_p == NULL || bn_q == NULL || bn_g == NULL || bn_priv_key == NULL || bn_pub_key == NULL)\n', new='\tif (bn_q == NULL)\n'),
    dict(name='dsa-verifyfinal-inline-accessor', rule='C17.R12', file='src/lib/crypto/OSSLDSA.cpp', after='bool OSSLDSA::verifyFinal(',
         old='\tif (dsa == NULL)\n', new='\tif (false)\n'),
    dict(name='bytestring2pt-no-group-test', rule='C17.R11', file='src/lib/crypto/OSSLUtil.cpp', after='EC_POINT* OSSL::byteString2pt(',
         old='if (len == 0 || grp == NULL) return NULL;', new='if (len == 0) return NULL;'),
    dict(name='retrieve-trusts-stored-kind', rule='C17.R10', file='src/lib/P11Attributes.cpp', after='CK_RV P11Attribute::retrieve(',
         old='\telse if (!(attr.isBooleanAttribute() && size == sizeof(CK_BBOOL)) &&\n\t\t !(attr.isUnsignedLongAttribute() && size == sizeof(CK_ULONG)))\n', new='\telse if (false)\n'),
    dict(name='bytestring2oid-unchecked-printablestring', rule='C17.R7', file='src/lib/crypto/OSSLUtil.cpp', after='int OSSL::byteString2oid(',
         old='\t\tif (curve_name == NULL)\n\t\t{\n\t\t\treturn NID_undef;\n\t\t}\n', new=''),
    dict(name='findinit-registers-before-failing-exits', rule='C17.R8', file='src/lib/SoftHSM.cpp', after='CK_RV SoftHSM::C_FindObjectsInit',
         old='\tFindOperation *findOp = FindOperation::create();', new='\tFindOperation *findOp = FindOperation::create();\n\tsession->setFindOp(findOp);'),
    dict(name='generategeneric-no-template-guard', rule='C17.R1', function='generateGeneric', file='src/lib/SoftHSM.cpp', after='CK_RV SoftHSM::generateGeneric',
         old='\tif (ulCount > (maxAttribs - keyAttribsCount))\n\t\trv = CKR_TEMPLATE_INCONSISTENT;\n', new=''),
    dict(name='tokeninfo-label-unbounded', rule='C17.R2', file='src/lib/slot_mgr/Token.cpp', old='\t\t\tif (label.size() > 32) label.resize(32);\n', new=''),
    dict(name='gcm-decryptfinal-no-tag-length-test', rule='C17.R3', file='src/lib/crypto/OSSLEVPSymmetricAlgorithm.cpp',
         old='if (aeadBuffer.size() < tagBytes)', new='if (aeadBuffer.size() == 0)'),
    dict(name='asymsign-no-length-guard', rule='C17.R3', function='AsymSign', file='src/lib/SoftHSM.cpp', after='static CK_RV AsymSign(',
         old='\t\tif (ulDataLen > size)\n\t\t{\n\t\t\tsession->resetOp();\n\t\t\treturn CKR_DATA_LEN_RANGE;\n\t\t}\n', new=''),
    dict(name='readbytestring-unbounded-resize', rule='C17.R4', file='src/lib/object_store/File.cpp', after='bool File::readByteString(',
         old='\tif (!fitsInFile(stream, len))\n\t{\n\t\treturn false;\n\t}\n', new=''),
    dict(name='export-without-try', rule='C17.R5', file='src/lib/main.cpp', after='CK_RV C_GetSlotInfo(',
         old='\ttry\n\t{\n\t\treturn SoftHSM::i()->C_GetSlotInfo(slotID, pInfo);\n\t}\n\tcatch (...)\n\t{\n\t\tFatalException();\n\t}\n\n\treturn CKR_FUNCTION_FAILED;', new='\treturn SoftHSM::i()->C_GetSlotInfo(slotID, pInfo);'),
    dict(name='new-abort-in-library', rule='C17.R6', file='src/lib/session_mgr/SessionManager.cpp', after='Session* SessionManager::getSession(',
         old='{\n', new='{\n\tif (hSession == (CK_SESSION_HANDLE)-1) abort();\n'),
    dict(name='ecdh-derive-failure-overwritten', rule='C17.R7', function='deriveECDH', file='src/lib/SoftHSM.cpp', after='CK_RV SoftHSM::deriveECDH',
         old='\tif (ulCount > (maxAttribs - secretAttribsCount))\n\t\trv = CKR_TEMPLATE_INCONSISTENT;', new='\trv = (ulCount > (maxAttribs - secretAttribsCount)) ? CKR_TEMPLATE_INCONSISTENT : CKR_OK;'),
    dict(name='config-value-null-check-on-name', rule='C17.R7', file='src/lib/common/SimpleConfigLoader.cpp',
         old='if (trimmedValue == NULL)', new='if (trimmedName == NULL)'),
]
