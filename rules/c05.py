"""C05 — token objects persist durably, faithfully and in a stable on-disk format (DESIGN.md §3 C05)."""
import os, re
from engine.rulelib import *
from engine import tables, callgraph
from rules.c03 import outcomes, ev_calls
from rules.c09 import Txn

EXPLANATION = (
    "Static decision of the structural clauses of C05. R1 (table agreement, exhaustive over attribute kinds): the tag ObjectFile::writeAttributes emits for each OSAttribute kind and the write primitive it uses are extracted from the AST and "
    "compared with the tag under which ObjectFile::refresh runs the matching read primitive; the same for the nested attribute-map writer/reader in File.cpp and for the independent decoder softhsm2-dump-file; every kind written has a reader. "
    "R1b: no read primitive rejects a length against a constant the matching write primitive does not enforce (the reader accepts whatever the writer can produce). R2: the on-disk format constants are pinned by evaluated value — "
    "attribute tags 1..5, attribute-map kinds, 0xFF/0x00 booleans, 8-byte big-endian integers, the vendor attribute numbers of the token object, the file-name suffixes — so deployed token directories stay readable. "
    "R3 (typestate, all abstract paths): in every function of SoftHSM.cpp / P11Objects.cpp that opens a transaction, a return that is provably CKR_OK is reached only through the success edge of commitTransaction(); "
    "ObjectFile::store leaves valid==true only after a successful open and a successful writeAttributes; commitTransaction/setAttribute report store's outcome. R3b: in ObjectFile::writeAttributes every write primitive's result is tested and "
    "`return true` is reached only after a successful flush(). R4: no function of SessionObject / SessionObjectStore reaches the file, directory or database layer (call graph). R5: OSToken::deleteObject returns true only after both "
    "files were removed and the object left the set. Not decided: value round-trips, golden fixtures, fault sequences.")
ASSUMPTIONS = ['libc stdio reports short writes at fwrite or fflush', 'the format constants of the pinned commit are the deployed format', 'virtual calls are resolved by class-hierarchy analysis']
TECHNIQUE = 'custom static analysis over the clang AST: writer/reader/dump-tool table extraction and comparison, value-pinned format constants, commit-checked-success typestate on all abstract paths, error-discipline rule on the write path, call-graph layering'
LEVEL_TEXT = ('The serialisation tables of three independent code sites are extracted and compared exhaustively per attribute kind; every transaction-opening function is walked on all abstract paths for commit-checked success; the write path is checked for dropped errors. '
              'These are necessary structural conditions of durable, faithful persistence; equality of stored and returned values is a runtime statement.')
LEVEL_NOTE = 'trusted: clang front end, normaliser, abstract interpreter; the pinned constant table in rules/c05.py'

PAIR = {'writeBool': 'readBool', 'writeULong': 'readULong', 'writeByteString': 'readByteString', 'writeMechanismTypeSet': 'readMechanismTypeSet', 'writeAttributeMap': 'readAttributeMap', 'writeString': 'readString'}
KIND_OF_PRED = {'isBooleanAttribute': 'boolean', 'isUnsignedLongAttribute': 'ulong', 'isByteStringAttribute': 'bytes', 'isMechanismTypeSetAttribute': 'mechset', 'isAttributeMapAttribute': 'attrmap'}
PINNED = {'BOOLEAN_ATTR': 1, 'ULONG_ATTR': 2, 'BYTESTR_ATTR': 3, 'ATTRMAP_ATTR': 4, 'MECHSET_ATTR': 5, 'akBoolean': 1, 'akInteger': 2, 'akBinary': 3, 'akMechSet': 5,
          'CKA_OS_TOKENLABEL': 0x80000000 + 0x5348 + 1, 'CKA_OS_TOKENSERIAL': 0x80000000 + 0x5348 + 2, 'CKA_OS_TOKENFLAGS': 0x80000000 + 0x5348 + 3, 'CKA_OS_SOPIN': 0x80000000 + 0x5348 + 4, 'CKA_OS_USERPIN': 0x80000000 + 0x5348 + 5}


def if_chain(stmts):
    """Flatten `if (a) {...} else if (b) {...} else {...}` into [(cond, then-stmt)]."""
    out = []
    for s in stmts:
        n = s
        while n is not None and n.get('k') == 'If':
            out.append((n['c'], n['t']))
            n = n.get('e')
    return out


def writer_table(f, filevar=None):
    """[(kind, tag name, tag value, [write primitives])] from a chain of `if (attr.isXAttribute()) { tag = K; write... }`."""
    rows = []
    for n in walk(f['body']):
        if n.get('k') != 'If':
            continue
        c = n['c']
        preds = [x for x in calls(c) if short(x.get('callee')) in KIND_OF_PRED]
        if len(preds) != 1 or c.get('k') != 'Call':
            continue
        kind = KIND_OF_PRED[short(preds[0]['callee'])]
        tag = None
        for d in walk(n['t']):
            if d.get('k') == 'Decl':
                for dd in d['decls']:
                    i = dd.get('init')
                    if i is not None and i.get('k') in ('Lit', 'Var') and (i.get('m') or i.get('name', '')).startswith(('BOOLEAN', 'ULONG', 'BYTES', 'ATTRMAP', 'MECHSET', 'ak')) or \
                            (i is not None and i.get('k') in ('Lit', 'Var') and dd['var']['name'] in ('osAttrType', 'attrKind')):
                        tag = (i.get('m') or i.get('name'), i.get('v'))
        prims = [short(x['callee']) for x in calls(n['t']) if short(x.get('callee')) in PAIR]
        if tag and prims:
            rows.append((kind, tag[0], tag[1], prims, n['l']))
    return rows


def reader_table_if(f, var):
    """[(tag name, tag value, [read primitives], ctor kinds)] from `if (var == TAG) { read... }` chains."""
    rows = []
    for n in walk(f['body']):
        if n.get('k') != 'If':
            continue
        c = n['c']
        if c.get('k') == 'Bin' and c['op'] == '==' and c['a'].get('k') in ('Var', 'Member') and (c['a'].get('name') == var or c['a'].get('field') == var) and c['b'].get('k') in ('Lit', 'Var'):
            tag = (c['b'].get('m') or c['b'].get('name'), c['b'].get('v'))
            prims = [short(x['callee']) for x in calls(n['t']) if short(x.get('callee')) in PAIR.values()]
            rows.append((tag[0], tag[1], prims, n['l']))
    return rows


def reader_table_switch(f):
    rows = []
    for n in walk(f['body']):
        if n.get('k') == 'Switch':
            for labels, stmts in tables.switch_cases(n):
                for l in labels:
                    if l == 'default':
                        continue
                    prims = [short(x['callee']) for x in calls(stmts) if short(x.get('callee')) in PAIR.values()]
                    rows.append((l, None, prims, n['l']))
    return rows


def r1_tables(ctx, prog):
    r = ctx.rule('C05.R1', 'writer, reader and dump tool agree on the tag and the primitive of every attribute kind', floor=12, engine='E1')
    wf = prog.fn('ObjectFile::writeAttributes')
    rf = prog.fn('ObjectFile::refresh')
    ctx.analysed(wf)
    ctx.analysed(rf)
    W = writer_table(wf)
    R = reader_table_if(rf, 'osAttrType')
    if len(W) < 5 or len(R) < 5:
        raise AnalysisBroken('object file tables not extracted (writer %d rows, reader %d rows)' % (len(W), len(R)))
    rtag = {v: (n, p, l) for n, v, p, l in R}
    for kind, tname, tval, prims, line in W:
        site = 'object file: %s attributes' % kind
        data_prim = [p for p in prims if p != 'writeULong'] or ['writeULong']
        want = PAIR[data_prim[-1]]
        if tval not in rtag:
            r.violation(wf['qname'], site, 'the writer emits tag %s=%s for %s attributes but ObjectFile::refresh has no branch for that tag: such attributes are lost on reload' % (tname, tval, kind), file=wf['file'], line=line)
        elif want not in rtag[tval][1]:
            r.violation(rf['qname'], site, 'tag %s=%s is written with %s but read back with %s' % (tname, tval, data_prim[-1], rtag[tval][1]), file=rf['file'], line=rtag[tval][2])
        else:
            r.ok(wf['qname'], site, 'tag %s=%s, %s/%s' % (tname, tval, data_prim[-1], want), file=wf['file'], line=line)
    # nested attribute map
    wm = prog.fn('File::writeAttributeMap')
    rm = prog.fn('File::readAttributeMap')
    Wm = writer_table(wm)
    Rm = reader_table_switch(rm)
    ak = {}
    for e in prog.enums.values():
        for en in e['enumerators']:
            if en['name'].startswith('ak'):
                ak[en['name']] = en['v']
    rmtag = {ak.get(n.split('::')[-1], n): (n, p, l) for n, v, p, l in Rm}
    if len(Wm) < 4 or len(Rm) < 4:
        raise AnalysisBroken('attribute map tables not extracted (writer %d rows, reader %d rows)' % (len(Wm), len(Rm)))
    seen = set()
    for kind, tname, tval, prims, line in Wm:
        if kind in seen:
            continue        # the first pass of writeAttributeMap only sums lengths
        tv = tval if tval is not None else ak.get((tname or '').split('::')[-1])
        data_prim = [p for p in prims if p != 'writeULong'] or ['writeULong']
        want = PAIR[data_prim[-1]]
        site = 'attribute map: %s entries' % kind
        seen.add(kind)
        if tv not in rmtag:
            r.violation(wm['qname'], site, 'kind %s=%s is written but File::readAttributeMap has no case for it' % (tname, tv), file=wm['file'], line=line)
        elif want not in rmtag[tv][1]:
            r.violation(rm['qname'], site, 'kind %s=%s is written with %s but read with %s' % (tname, tv, data_prim[-1], rmtag[tv][1]), file=rm['file'], line=rmtag[tv][2])
        else:
            r.ok(wm['qname'], site, 'kind %s=%s, %s/%s' % (tname, tv, data_prim[-1], want), file=wm['file'], line=line)
    # the independent decoder
    dumps = [g for g in prog.functions.values() if g['file'].endswith('softhsm2-dump-file.cpp')]
    dtags = {}
    for g in dumps:
        for n in walk(g['body']):
            if n.get('k') == 'Lit' and n.get('m') in ('BOOLEAN_ATTR', 'ULONG_ATTR', 'BYTES_ATTR', 'ATTRMAP_ATTR', 'MECHSET_ATTR'):
                dtags[n['m']] = n['v']
    if dumps:
        libtags = {kind: tval for kind, tname, tval, prims, line in W}
        for dn, kind in (('BOOLEAN_ATTR', 'boolean'), ('ULONG_ATTR', 'ulong'), ('BYTES_ATTR', 'bytes'), ('ATTRMAP_ATTR', 'attrmap'), ('MECHSET_ATTR', 'mechset')):
            site = 'dump tool: %s' % dn
            if dn not in dtags:
                r.undecided('softhsm2-dump-file', site, 'constant not found in the dump tool', file=dumps[0]['file'], line=None)
            elif dtags[dn] != libtags.get(kind):
                r.violation('softhsm2-dump-file', site, 'the dump tool decodes %s attributes under tag %s, the library writes tag %s' % (kind, dtags[dn], libtags.get(kind)), file=dumps[0]['file'], line=None)
            else:
                r.ok('softhsm2-dump-file', site, 'tag %s' % dtags[dn], file=dumps[0]['file'], line=None)
    r.exhaustive = True


def r1b_limits(ctx, prog):
    r = ctx.rule('C05.R1b', 'the reader accepts every length the writer can produce (no constant cap on the read side only)', floor=4, engine='E1')
    for wname, rname in sorted(PAIR.items()):
        rf = prog.fns('File::' + rname)
        wf = prog.fns('File::' + wname)
        if not rf or not wf:
            continue
        f = rf[0]
        ctx.analysed(f)
        caps = []
        # the reader itself and the file-local helpers it calls (fitsInFile ...)
        bodies = [f['body']]
        for c in calls(f['body']):
            if c.get('callee') and '::' not in c['callee']:
                bodies += [g['body'] for g in prog.fns(c['callee']) if os.path.basename(g['file']) == os.path.basename(f['file'])]
        for n in (x for b in bodies for x in walk(b)):
            if n.get('k') == 'If' and any(x.get('k') == 'Return' for x in walk(n['t'])):
                for b in walk(n['c']):
                    if b.get('k') == 'Bin' and b['op'] in ('<', '>', '<=', '>='):
                        for side, other in ((b['a'], b['b']), (b['b'], b['a'])):
                            if side.get('k') in ('Lit', 'Sizeof') and other.get('k') == 'Var' and side.get('v', 0) > 8 and other['name'] in ('len', 'count', 'length', 'size'):
                                caps.append((canon(b), n['l']))
        wcaps = []
        for n in walk(wf[0]['body']):
            if n.get('k') == 'If' and any(x.get('k') == 'Return' for x in walk(n['t'])):
                for b in walk(n['c']):
                    if b.get('k') == 'Bin' and b['op'] in ('<', '>', '<=', '>=') and (b['a'].get('k') in ('Lit',) or b['b'].get('k') in ('Lit',)):
                        wcaps.append(canon(b))
        site = '%s vs %s' % (rname, wname)
        if caps and not wcaps:
            r.violation(f['qname'], site, '%s rejects %s but %s enforces no such limit: a value that was stored with CKR_OK is treated as a corrupt file on reload and the object disappears' % (rname, caps[0][0], wname), file=f['file'], line=caps[0][1])
        else:
            r.ok(f['qname'], site, 'no constant cap on the read side', file=f['file'], line=f['line'])


def r2_constants(ctx, prog):
    r = ctx.rule('C05.R2', 'on-disk format constants keep the values of the deployed format', floor=14, engine='E1')
    M = macro_values(prog)
    for name, val in sorted(PINNED.items()):
        site = 'constant %s' % name
        occ = {(v, fl) for v, fl in M.get(name, ()) if '/src/bin/' not in fl}
        if not occ:
            r.undecided('format', site, 'constant not found in the library', file=None, line=None)
            continue
        wrong = sorted(x for x in occ if x[0] != val)
        if wrong:
            r.violation('format', site, '%s evaluates to %s in %s, the deployed on-disk format uses %s: existing token directories are no longer decoded correctly' % (name, wrong[0][0], wrong[0][1].split('/')[-1], val), file=wrong[0][1], line=None)
        else:
            r.ok('format', site, str(val), file=sorted(occ)[0][1], line=None)
    # boolean bytes
    f = prog.fn('File::writeBool')
    vals = sorted({n['v'] for n in walk(f['body']) if n.get('k') == 'Lit' and not n.get('b') and n['v'] in range(256) and n['v'] not in (1,)})
    conds = [n for n in walk(f['body']) if n.get('k') == 'Cond']
    if conds and (tables.const_eval(conds[0]['t']), tables.const_eval(conds[0]['f'])) == (0xFF, 0x00):
        r.ok(f['qname'], 'boolean encoding', 'true=0xFF false=0x00', file=f['file'], line=f['line'])
    else:
        r.violation(f['qname'], 'boolean encoding', 'booleans are no longer written as 0xFF/0x00 (%s)' % vals, file=f['file'], line=f['line'])
    # 8-byte big-endian unsigned long
    for g in prog.fns('ByteString::ByteString'):
        if g['sig'] == 'const unsigned long':
            lits = [n['v'] for n in walk(g['body']) if n.get('k') == 'Lit']
            shifts = [n for n in walk(g['body']) if n.get('k') in ('Bin', 'Assign') and n['op'] in ('>>', '>>=')]
            if 8 in lits and shifts:
                r.ok(g['qname'], 'integer encoding', '8 bytes, shifted', file=g['file'], line=g['line'])
            else:
                r.violation(g['qname'], 'integer encoding', 'ByteString(unsigned long) no longer produces the 8-byte big-endian form', file=g['file'], line=g['line'])
    # file names
    strs = {}
    for g in prog.functions.values():
        if g.get('class') in ('OSToken', 'ObjectStore'):
            for n in walk(g['body']):
                if n.get('k') == 'Str' and n.get('s'):
                    strs.setdefault(n['s'], g)
    for s in ('token.object', '.object', '.lock', 'token.lock'):
        if s in strs:
            r.ok(strs[s]['qname'], 'file name %s' % s, 'present', file=strs[s]['file'], line=strs[s]['line'])
        else:
            r.violation('OSToken', 'file name %s' % s, 'the token directory layout no longer uses "%s"' % s, file=None, line=None)
    r.exhaustive = True


class CommitChecked(Txn):
    def on_fact(self, atom, truth, st):
        super().on_fact(atom, truth, st)
        if atom.startswith('commitTransaction@'):
            pc = parse_call(atom)
            if pc and pc[1]:
                st.aut['c:' + pc[1][0]] = bool(truth)

    def on_call(self, e, st):
        super().on_call(e, st)
        if e.get('k') == 'Call' and short(e.get('callee')) == 'commitTransaction' and e.get('recv') is not None:
            st.aut.setdefault('c:' + canon(e['recv']), None)


def r3_commit(ctx, prog, rule_id='C05.R3'):
    r = ctx.rule(rule_id, 'CKR_OK is returned only after commitTransaction() was seen to succeed; store() reports failure through valid', floor=20, engine='E3')
    for f in sorted(prog.functions.values(), key=lambda f: (f['file'], f['line'])):
        if not (f['file'].endswith('SoftHSM.cpp') or f['file'].endswith('P11Objects.cpp')):
            continue
        if not list(calls(f['body'], short='commitTransaction')):
            continue
        ctx.analysed(f)
        if not check_analysable(r, f):
            continue
        a = CommitChecked(f, prog)
        a.QUIET = True
        a.interesting_call = lambda e: short(e.get('callee')) in ('startTransaction', 'commitTransaction', 'abortTransaction', 'destroyObject')
        a.go()
        r.paths += a.paths_returned
        bad = None
        nok = 0
        for s, st, rc in a.rets:
            if rc not in ('OK', 'true'):
                continue
            nok += 1
            for k, v in st.aut.items():
                if k.startswith('c:') and v is not True and st.aut.get('t:' + k[2:]) == 'closed':
                    bad = (s, st, k[2:], v)
        site = 'success returns of %s' % f['qname'].split('::')[-1]
        if bad:
            r.violation(f['qname'], site, 'return at line %s is CKR_OK although commitTransaction() on %s %s: the call reports success for a change that may not be on disk' % (bad[0]['l'], bad[2], 'failed' if bad[3] is False else 'was never tested'),
                        file=f['file'], line=bad[0]['l'], path=bad[1].show_path())
        else:
            r.ok(f['qname'], site, '%d successful return paths' % nok, file=f['file'], line=f['line'])
    # ObjectFile::store: valid == true only after open ok and writeAttributes ok
    f = prog.fn('ObjectFile::store')
    ctx.analysed(f)
    for d in product({'open': [0, 1], 'write': [0, 1], 'commit': [0, 1]}):
        cenv = {'inTransaction': d['commit'], param_name(f, 0): d['commit'], re.compile(r'isValid\(\w+\)'): d['open'], re.compile(r'writeAttributes@\d+\(this,\w+\)'): d['write']}
        o = outcomes(f, prog, cenv, record={'writeAttributes'})
        r.paths += len(o.outcomes)
        site = 'store open=%d write=%d commit=%d' % (d['open'], d['write'], d['commit'])
        ok = d['open'] and d['write']
        bad = None
        for oc in o.outcomes:
            if ('valid', False) in oc['facts']:
                continue        # the object was already invalid on entry: nothing is attempted
            last = [e for e in oc['events'] if e[0] == 'write' and e[1] == 'valid']
            final = last[-1][2] if last else 'unchanged(true)'
            if not ok and final not in ('false', '0'):
                bad = (oc, final)
        if bad:
            r.violation(f['qname'], site, 'the %s failed but the object stays valid (%s): commitTransaction()/setAttribute() report success and the call returns CKR_OK with nothing written' % ('open' if not d['open'] else 'write', bad[1]),
                        file=f['file'], line=bad[0]['line'], path=bad[0]['path'])
        else:
            r.ok(f['qname'], site, '%d paths' % len(o.outcomes), file=f['file'], line=f['line'])
    # commitTransaction / setAttribute return store's verdict
    for name in ('ObjectFile::commitTransaction', 'ObjectFile::setAttribute'):
        f = prog.fn(name)
        ctx.analysed(f)
        o = outcomes(f, prog, {'inTransaction': 1 if name.endswith('commitTransaction') else 0, 'transactionLockFile': 1}, record={'store'})
        r.paths += len(o.outcomes)
        # after store() the verdict must depend on `valid`: either `return valid` or a test of valid on the path
        bad = [oc for oc in o.outcomes if ev_calls(oc, 'store') and oc['ret'] in ('true', '1') and not any(a == 'valid' and t for a, t in oc['facts'])]
        site = 'result after store()'
        if bad:
            r.violation(name, site, 'returns the constant true after store(): a failed write is reported as success', file=f['file'], line=bad[0]['line'], path=bad[0]['path'])
        elif not any(ev_calls(oc, 'store') for oc in o.outcomes):
            r.undecided(name, site, 'store() is not reached under the assignment', file=f['file'], line=f['line'])
        else:
            r.ok(name, site, 'returns %s' % sorted({oc['ret'] for oc in o.outcomes if ev_calls(oc, 'store')}), file=f['file'], line=f['line'])


def r3b_write_errors(ctx, prog):
    r = ctx.rule('C05.R3b', 'no error of the file layer is dropped on the write path', floor=10, engine='E3 error discipline')
    f = prog.fn('ObjectFile::writeAttributes')
    ctx.analysed(f)
    fv = param_name(f, 0)
    prims = set(PAIR) | {'truncate', 'flush', 'seek', 'rewind'}

    class W(Interp):
        TRACK = ()
        CAP = 64

        def __init__(s2, fn, prog):
            super().__init__(fn, prog)
            s2.unchecked, s2.rets = [], []

        def on_call(s2, e, st):
            if e.get('k') == 'Call' and short(e.get('callee')) in prims and e.get('recv') is not None and canon(e['recv']) == fv:
                st.aut['pending'] = st.aut.get('pending', ()) + ((short(e['callee']), e['l']),)
                if short(e['callee']) != 'flush':
                    st.aut['dirty'] = True

        def on_fact(s2, atom, truth, st):
            pc = parse_call(atom)
            if pc and pc[0].split('@')[0] in prims and pc[1] and pc[1][0] == fv:
                line = int(pc[0].split('@')[1]) if '@' in pc[0] else None
                st.aut['pending'] = tuple(x for x in st.aut.get('pending', ()) if x[1] != line)
                if pc[0].split('@')[0] == 'flush' and truth:
                    st.aut['dirty'] = False

        def on_return(s2, s, st):
            s2.rets.append((s, st.copy(), ret_class(s, st)))
    w = W(f, prog).go()
    r.paths += w.paths_returned
    dropped = {}
    unflushed = None
    for s, st, rc in w.rets:
        if rc == 'true':
            for name, line in st.aut.get('pending', ()):
                dropped[(name, line)] = (s, st)
            if st.aut.get('dirty') and unflushed is None:
                unflushed = (s, st)
    sites = sorted({(short(c['callee']), c['l']) for c in calls(f['body']) if short(c.get('callee')) in prims and c.get('recv') is not None and canon(c['recv']) == fv})
    for name, line in sites:
        site = '%s result' % name
        if (name, line) in dropped:
            s, st = dropped[(name, line)]
            r.violation(f['qname'], '%s at the %s call' % (site, name), 'the result of %s (line %d) is not tested on a path that returns true: a failed write is reported as success' % (name, line), file=f['file'], line=line, path=st.show_path())
        else:
            r.ok(f['qname'], '%s@%d' % (site, line), 'tested before success', file=f['file'], line=line)
    if unflushed:
        r.violation(f['qname'], 'flush before success', 'return true at line %s is reached without a successful flush(): buffered data that fails to reach the disk (disk full) goes unnoticed' % unflushed[0]['l'], file=f['file'], line=unflushed[0]['l'], path=unflushed[1].show_path())
    else:
        r.ok(f['qname'], 'flush before success', 'every successful path flushed', file=f['file'], line=f['line'])


def r3c_syscalls(ctx, prog):
    """Directory-level system calls: a non-zero result (any errno) is reported as failure, never as success."""
    r = ctx.rule('C05.R3c', 'a failing remove / rmdir / mkdir is reported as failure whatever the errno', floor=3, engine='E1 finite-domain')
    from rules.c16 import outcomes as fo
    for q, sysc in (('Directory::remove', 'remove'), ('Directory::rmdir', 'rmdir'), ('Directory::mkdir', 'mkdir')):
        f = prog.fn(q)
        ctx.analysed(f)
        # the system call fails (-1); everything else (errno, refresh) is left open
        o = fo(f, prog, {re.compile(r'%s@\d+\(.*\)' % sysc): -1, re.compile(r'_?%s@\d+\(.*\)' % sysc): -1}, record={sysc, 'refresh'}, rounds=1, cap=128)
        r.paths += len(o.outcomes)
        called = [oc for oc in o.outcomes if any(e[0] == 'call' and e[1] == sysc for e in oc['events'])]
        bad = [oc for oc in called if oc['retv'] not in (0, '0', 'false') and oc['ret'] not in ('false', '0')]
        site = 'failing ::%s' % sysc
        if not called:
            r.undecided(q, site, 'the system call was not found on any path', file=f['file'], line=f['line'])
        elif bad:
            r.violation(q, site, 'with ::%s failing a path still returns %s: the caller (deleteObject, resetToken, clearToken, createToken) believes the file-system change happened and reports CKR_OK — a destroyed object is back after a restart' % (sysc, bad[0]['ret']),
                        file=f['file'], line=bad[0]['line'], path=bad[0]['path'])
        else:
            r.ok(q, site, '%d paths, all return false' % len(called), file=f['file'], line=f['line'])


def r1c_fresh_holders(ctx, prog, rule_id='C05.R1c'):
    """Readers of container kinds (mechanism set, attribute map) only insert into their out-parameter: every call site must hand them a holder that is fresh for this record."""
    r = ctx.rule(rule_id, 'container values are read into a holder that is empty for each record (the container readers only insert)', floor=3, engine='E2')
    readers = {}
    for name in ('readMechanismTypeSet', 'readAttributeMap'):
        for f in prog.fns('File::' + name):
            pv = param_name(f, 0)
            clears = any(short(c.get('callee')) == 'clear' and c.get('recv') is not None and canon(c['recv']) == pv for c in calls(f['body']))
            readers[name] = clears
    for g in sorted(prog.functions.values(), key=lambda g: (g['file'], g['line'])):
        for c in calls(g['body']):
            nm = short(c.get('callee'))
            if nm not in readers or not c.get('args') or c['args'][0].get('k') != 'Var':
                continue
            ctx.analysed(g)
            v = c['args'][0]['name']
            site = '%s(%s)@%d' % (nm, v, [x for x in calls(g['body']) if short(x.get('callee')) == nm].index(c))
            if readers[nm]:
                r.ok(g['qname'], site, 'the reader clears its out-parameter itself', file=g['file'], line=c['l'])
                continue
            # innermost loop around the call, and the declaration of the holder
            def find(node, loops):
                if not isinstance(node, dict):
                    return None
                if node is c:
                    return loops
                nl = loops + [node] if node.get('k') in ('For', 'While', 'Do') else loops
                for key, val in node.items():
                    if isinstance(val, dict):
                        res = find(val, nl)
                        if res is not None:
                            return res
                    elif isinstance(val, list):
                        for x in val:
                            res = find(x, nl)
                            if res is not None:
                                return res
                return None
            loops = find(g['body'], []) or []
            decl_in = None
            holder = c['args'][0]
            # a reference declared inside the loop names whatever it is bound to: follow it to the object (a holder declared before the loop is not made fresh by an alias)
            for _ in range(3):
                bound = None
                for n_ in walk(g['body']):
                    if n_.get('k') == 'Decl':
                        for d_ in n_['decls']:
                            if d_['var'].get('id') == holder.get('id') and d_.get('type', '').rstrip().endswith('&') and d_.get('init') is not None:
                                i_ = d_['init']
                                while i_.get('k') in ('Cast', 'Paren') and i_.get('e') is not None:
                                    i_ = i_['e']
                                if i_.get('k') == 'Var':
                                    bound = i_
                if bound is None:
                    break
                holder = bound
            v = holder['name']
            m = re.search(r'@p?(\d+)$', holder.get('id', ''))
            if m and loops:
                dl = int(m.group(1))
                lb = loops[-1]['body']
                decl_in = 'loop' if lb.get('l', 0) <= dl <= lb.get('el', lb.get('l', 0)) else 'function'
            cleared = any(short(x.get('callee')) == 'clear' and x.get('recv') is not None and canon(x['recv']) == v and x['l'] <= c['l'] and (not loops or loops[-1]['l'] <= x['l']) for x in calls(g['body']))
            if not loops or decl_in == 'loop' or cleared:
                r.ok(g['qname'], site, 'holder %s' % ('declared inside the record loop' if decl_in == 'loop' else ('cleared before the read' if cleared else 'used once')), file=g['file'], line=c['l'])
            else:
                r.violation(g['qname'], site, 'the holder %s lives across the iterations of the loop at line %s and %s only inserts: every later attribute of this kind also receives the entries of the earlier ones '
                            '(e.g. CKA_UNWRAP_TEMPLATE = its own entries plus those of CKA_WRAP_TEMPLATE after a reload)' % (v, loops[-1]['l'], nm), file=g['file'], line=c['l'])


def r1d_map_accounting(ctx, prog, rule_id='C05.R1d'):
    """The nested attribute map carries its total length; the reader subtracts each entry's size from it.  The last entry fits exactly, so the guard before each
    subtraction must be the strict `size > remaining` (reject only what does not fit) over the very expression that is subtracted."""
    r = ctx.rule(rule_id, 'the attribute-map reader accepts an entry that exactly fills the remaining length (strict guard over the subtracted size)', floor=5, engine='E8')
    f = prog.fn('File::readAttributeMap')
    ctx.analysed(f)

    def blocks(node):
        for n in walk(node):
            if n.get('k') == 'Block':
                yield n
    n_sub = 0
    for b in blocks(f['body']):
        body = b['body']
        for i, st in enumerate(body):
            e = st.get('e') if st.get('k') == 'Expr' else None
            if not (e is not None and e.get('k') == 'Assign' and e.get('op') == '-=' and e['a'].get('k') == 'Var'):
                continue
            n_sub += 1
            rem, sub = e['a']['name'], canon(e['b'])
            site = '%s -= %s@%d' % (rem, sub, n_sub)
            guard = None
            for prev in reversed(body[:i]):
                if prev.get('k') == 'If' and any(x.get('k') == 'Return' for x in walk(prev['t'])):
                    # the relational test may be one disjunct of the rejecting condition (`!read(...) || size > len`)
                    def disjuncts(c):
                        if c.get('k') == 'Bin' and c.get('op') == '||':
                            return disjuncts(c['a']) + disjuncts(c['b'])
                        if c.get('k') == 'Paren' and c.get('e') is not None:
                            return disjuncts(c['e'])
                        return [c]
                    cands = [c for c in disjuncts(prev['c']) if c.get('k') == 'Bin' and c.get('op') in ('>', '>=', '<', '<=') and rem in (canon(c['a']), canon(c['b']))]
                    if cands:
                        guard = cands[0]
                        break
            if guard is None:
                r.violation(f['qname'], site, 'the subtraction is not guarded: a corrupt length wraps the remaining count', file=f['file'], line=st['l'])
                continue
            a, bb, op = canon(guard['a']), canon(guard['b']), guard['op']
            strict_ok = (op == '>' and bb == rem and a == sub) or (op == '<' and a == rem and bb == sub)
            if strict_ok:
                r.ok(f['qname'], site, 'guarded by %s %s %s' % (a, op, bb), file=f['file'], line=st['l'])
            elif (op == '>=' and bb == rem) or (op == '<=' and a == rem):
                r.violation(f['qname'], site, 'the guard %s %s %s also rejects an entry that exactly fills what is left — and the last entry of every map does: a map the writer stored with CKR_OK (e.g. a wrap template ending in a byte string) makes the whole object file "corrupt" on reload; the SQLite store decodes the same map' % (a, op, bb),
                            file=f['file'], line=guard['l'])
            else:
                r.violation(f['qname'], site, 'the guard %s %s %s is not over the subtracted size %s' % (a, op, bb, sub), file=f['file'], line=guard['l'])
    if n_sub == 0:
        r.undecided(f['qname'], 'accounting', 'no `remaining -= size` statements found', file=f['file'], line=f['line'])


def r4_layering(ctx, prog):
    r = ctx.rule('C05.R4', 'session objects never reach the file, directory or database layer', floor=10, engine='E6')
    forbidden = ('File::', 'Directory::', 'DB::', 'DBObject::', 'DBToken::', 'ObjectFile::', 'OSToken::', 'Generation::')
    sysc = {'open', 'fopen', 'mkdir', 'unlink', 'remove', 'rename', 'fwrite', 'creat'}
    n = 0
    for g in sorted(prog.functions.values(), key=lambda g: (g['file'], g['line'])):
        if g.get('class') in ('SessionObject', 'SessionObjectStore'):
            n += 1
            rs = callgraph.reach(prog, g['qname'])
            hit = sorted(x for x in rs if x.startswith(forbidden) or x in sysc)
            if hit:
                r.violation(g['qname'], 'layering', 'reaches %s: a session object would leave traces outside memory / outlive its session' % hit[:3], file=g['file'], line=g['line'])
            else:
                r.ok(g['qname'], 'layering', '%d transitive callees, none in the storage layers' % len(rs), file=g['file'], line=g['line'])


def r5_delete(ctx, prog):
    r = ctx.rule('C05.R5', 'a destroyed token object is reported destroyed only after its files are gone and it left the object set', floor=2, engine='E1+E3 finite-domain')
    f = prog.fn('OSToken::deleteObject')
    ctx.analysed(f)
    for d in product({'rm1': [0, 1], 'rm2': [0, 1]}):
        seq = iter([d['rm1'], d['rm2']])
        lines = sorted(c['l'] for c in calls(f['body'], short='remove'))
        if len(lines) != 2:
            r.undecided(f['qname'], 'removes', 'expected two Directory::remove calls, found %d' % len(lines), file=f['file'], line=f['line'])
            return
        cenv = {'valid': 1, re.compile(r'remove@%d\(.*\)' % lines[0]): d['rm1'], re.compile(r'remove@%d\(.*\)' % lines[1]): d['rm2'], re.compile(r'operator==\(find\(objects,.*\),end\(objects\)\)'): 0,
                re.compile(r'dynamic_cast.*|fileObject'): 1}
        o = outcomes(f, prog, cenv, record={'remove', 'erase', 'invalidate'})
        r.paths += len(o.outcomes)
        site = 'deleteObject remove-object-file=%d remove-lock-file=%d' % (d['rm1'], d['rm2'])
        bad = None
        for oc in o.outcomes:
            if oc['retv'] == 1 and not (d['rm1'] and d['rm2'] and ev_calls(oc, 'erase')):
                bad = oc
        if bad:
            r.violation(f['qname'], site, 'returns true although %s: the object can reappear after a restart' % ('a file could not be removed' if not (d['rm1'] and d['rm2']) else 'the object was not erased from the token\'s set'), file=f['file'], line=bad['line'], path=bad['path'])
        else:
            r.ok(f['qname'], site, '%d paths' % len(o.outcomes), file=f['file'], line=f['line'])


def r7_placement_flags(ctx, prog, rule_id='C05.R7'):
    """The helpers that build an object from a template receive its placement (CKA_TOKEN) and privacy (CKA_PRIVATE) as parameters.  In the helper, each such parameter sits in the
    attribute array that is filled from one template parameter; at the call site the argument must be the flag that extractObjectInformation() read from that very template - the
    token flag of the public template for the public key, not the private key's (a swapped pair persists the session key and loses the token key at C_Finalize)."""
    r = ctx.rule(rule_id, 'a key-building helper gets, for each template, the CKA_TOKEN / CKA_PRIVATE flags extracted from that template', floor=20, engine='E5 argument provenance against callee summaries')
    ex = prog.fns('extractObjectInformation')
    if not ex:
        r.undecided('SoftHSM', 'extractObjectInformation', 'the template reader was not found', file='', line=0)
        return
    ex = ex[0]
    exn = [pp['var']['name'] if pp.get('var') else None for pp in ex['params']]
    attr_of = {macro(prog, 'CKA_TOKEN'): 'CKA_TOKEN', macro(prog, 'CKA_PRIVATE'): 'CKA_PRIVATE'}
    # which attribute each by-reference output of the template reader holds: the case label under which it is assigned
    role = {}
    for n in walk(ex['body']):
        if n.get('k') == 'Switch':
            for labels, stmts in tables.switch_cases(n):
                for st in stmts:
                    for x in walk(st):
                        if x.get('k') == 'Assign' and x['a'].get('k') == 'Var' and x['a']['name'] in exn:
                            for l in labels:
                                if l in ('CKA_TOKEN', 'CKA_PRIVATE'):
                                    role[exn.index(x['a']['name'])] = l
    # callee summaries: parameter index -> (template parameter index, attribute)
    summ = {}
    for g in prog.functions.values():
        if g.get('class') != 'SoftHSM' or g['body'] is None:
            continue
        pn = [pp['var']['name'] if pp.get('var') else None for pp in g['params']]
        arr_flags, arr_tmpl = {}, {}
        for n in walk(g['body']):
            if n.get('k') == 'Decl':
                for d in n['decls']:
                    if d.get('init') is not None and d['init'].get('k') == 'Init':
                        for row in d['init'].get('args', []):
                            if row.get('k') == 'Init' and len(row.get('args', [])) >= 2:
                                a = tables.const_eval(row['args'][0])
                                v = row['args'][1]
                                if a in attr_of and v.get('k') == 'Un' and v.get('op') == '&' and v['e'].get('k') == 'Var' and v['e']['name'] in pn:
                                    arr_flags.setdefault(d['var']['name'], []).append((pn.index(v['e']['name']), attr_of[a]))
            elif n.get('k') == 'Assign' and n['a'].get('k') == 'Index' and n['a']['base'].get('k') == 'Var' and n['b'].get('k') == 'Index' and n['b']['base'].get('k') == 'Var' and n['b']['base']['name'] in pn:
                arr_tmpl[n['a']['base']['name']] = pn.index(n['b']['base']['name'])
        for arr, flags in arr_flags.items():
            if arr in arr_tmpl:
                for pi, a in flags:
                    summ.setdefault(g['qname'], {})[pi] = (arr_tmpl[arr], a)
    for f in sorted(prog.functions.values(), key=lambda f: (f['file'], f['line'])):
        if f['body'] is None:
            continue
        cs = [c for c in calls(f['body']) if c.get('callee') in summ]
        if not cs:
            continue
        # locals filled by the template reader in this function: name -> (template expression, attribute)
        src = {}
        for c in calls(f['body']):
            if c.get('callee') == ex['qname'] and c.get('args'):
                t = canon(c['args'][0])
                for i, a in enumerate(c['args']):
                    if i in role and a.get('k') == 'Var':
                        src[a['name']] = (t, role[i])
        if not src:
            continue
        ctx.analysed(f)
        for c in cs:
            for pi, (ti, attr) in sorted(summ[c['callee']].items()):
                if pi >= len(c.get('args', [])) or ti >= len(c['args']):
                    continue
                a = c['args'][pi]
                while a.get('k') in ('Cast', 'Paren') and a.get('e') is not None:
                    a = a['e']
                site = '%s: %s of the object built from %s@%d' % (short(c['callee']), attr, canon(c['args'][ti]), c['l'])
                if a.get('k') != 'Var' or a['name'] not in src:
                    r.undecided(f['qname'], site, 'the argument %s is not a flag read by %s in this function' % (canon(a), short(ex['qname'])), file=f['file'], line=c['l'])
                    continue
                t, got = src[a['name']]
                if t != canon(c['args'][ti]) or got != attr:
                    r.violation(f['qname'], site, 'the helper puts this argument into the %s entry of the object it builds from %s, but %s is the %s read from %s: the object is created with the other template\'s flag (e.g. the session key is persisted and the token key is lost at C_Finalize)' % (
                        attr, canon(c['args'][ti]), a['name'], got, t), file=f['file'], line=c['l'])
                else:
                    r.ok(f['qname'], site, a['name'], file=f['file'], line=c['l'])


def run(ctx):
    prog = ctx.prog('ossl-file', subdirs=('src/lib', 'src/bin'))
    r1_tables(ctx, prog)
    r1b_limits(ctx, prog)
    r2_constants(ctx, prog)
    r3_commit(ctx, prog)
    r3b_write_errors(ctx, prog)
    r4_layering(ctx, prog)
    r5_delete(ctx, prog)
    r3c_syscalls(ctx, prog)
    r1c_fresh_holders(ctx, prog)
    r1d_map_accounting(ctx, prog)
    from rules import c11
    c11.r6_store_key(ctx, prog, rule_id='C05.R6')
    r7_placement_flags(ctx, prog)


MUTANTS = [
    dict(name='generateec-privacy-flags-swapped', rule='C05.R7', file='src/lib/SoftHSM.cpp', after='return this->generateEC(',
         old='ispublicKeyToken, ispublicKeyPrivate, isprivateKeyToken, isprivateKeyPrivate);', new='ispublicKeyToken, isprivateKeyPrivate, isprivateKeyToken, ispublicKeyPrivate);'),
    dict(name='attribute-map-exact-fit-rejected', rule='C05.R1d', file='src/lib/object_store/File.cpp', after='bool File::readAttributeMap(',
         old='\t\t\t\tif (8 + val.size() > len)', new='\t\t\t\tif (8 + val.size() >= len)'),
    dict(name='directory-remove-only-enoent-fails', rule='C05.R3c', file='src/lib/object_store/Directory.cpp', after='bool Directory::remove(std::string name)',
         old='\treturn (!::remove(fullPath.c_str()) && refresh());', new='\tif (::remove(fullPath.c_str()) != 0 && errno == ENOENT) return false;\n\treturn refresh();'),
    dict(name='refresh-holders-outside-loop', rule='C05.R1c', file='src/lib/object_store/ObjectFile.cpp', after='void ObjectFile::refresh(bool isFirstTime',
         edits=[dict(file='src/lib/object_store/ObjectFile.cpp', after='void ObjectFile::refresh(bool isFirstTime', old='\t\t\tstd::map<CK_ATTRIBUTE_TYPE,OSAttribute> value;\n', new=''),
                dict(file='src/lib/object_store/ObjectFile.cpp', after='void ObjectFile::refresh(bool isFirstTime', old='\t// Read back the attributes\n', new='\tstd::map<CK_ATTRIBUTE_TYPE,OSAttribute> value;\n\t// Read back the attributes\n')]),
    dict(name='writer-mechset-as-bytestr-tag', rule='C05.R1', file='src/lib/object_store/ObjectFile.cpp', old='unsigned long osAttrType = MECHSET_ATTR;', new='unsigned long osAttrType = BYTESTR_ATTR;'),
    dict(name='readbytestring-caps-length', rule='C05.R1b', file='src/lib/object_store/File.cpp', after='bool File::readByteString(',
         old='\tvalue.resize(len);', new='\tif (len > 0xFFFF) return false;\n\n\tvalue.resize(len);'),
    dict(name='boolean-attr-renumbered', rule='C05.R2', file='src/lib/object_store/ObjectFile.cpp', old='#define BOOLEAN_ATTR\t\t\t0x1', new='#define BOOLEAN_ATTR\t\t\t0x6'),
    dict(name='generateaes-commit-result-dropped', rule='C05.R3', function='generateAES', file='src/lib/SoftHSM.cpp', after='CK_RV SoftHSM::generateAES',
         old='\t\t\tif (bOK)\n\t\t\t\tbOK = osobject->commitTransaction();', new='\t\t\tif (bOK)\n\t\t\t\tosobject->commitTransaction();'),
    dict(name='store-open-failure-keeps-valid', rule='C05.R3', function='store', file='src/lib/object_store/ObjectFile.cpp', after='void ObjectFile::store(',
         old='\t\tDEBUG_MSG("Cannot open object %s for writing", path.c_str());\n\n\t\tvalid = false;\n', new='\t\tDEBUG_MSG("Cannot open object %s for writing", path.c_str());\n'),
    dict(name='writeattributes-no-flush', rule='C05.R3b', file='src/lib/object_store/ObjectFile.cpp', after='bool ObjectFile::writeAttributes(',
         old='\tif (!objectFile.flush())\n', new='\tif (false)\n'),
    dict(name='writeattributes-bool-write-unchecked', rule='C05.R3b', file='src/lib/object_store/ObjectFile.cpp', after='bool ObjectFile::writeAttributes(',
         old='if (!objectFile.writeULong(osAttrType) || !objectFile.writeBool(value))', new='objectFile.writeBool(value);\n\t\t\tif (!objectFile.writeULong(osAttrType))'),
    dict(name='deleteobject-ignores-lock-removal', rule='C05.R5', file='src/lib/object_store/OSToken.cpp', after='bool OSToken::deleteObject(',
         old='\t\tERROR_MSG("Failed to delete lock file %s", lockFilename.c_str());\n\n\t\treturn false;', new='\t\tERROR_MSG("Failed to delete lock file %s", lockFilename.c_str());'),
]
