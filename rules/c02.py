"""C02 — sensitive / unextractable key material never leaves the token in the clear (DESIGN.md §3 C02)."""
import re
from engine.rulelib import *
from engine import tables

EXPLANATION = (
    "Static decision of the structural clauses of C02 on /repo's current source. R1 (exhaustive table): the P11*Obj::init "
    "registration chains are emulated from the type-checked AST; every secret attribute (CKA_VALUE, CKA_PRIVATE_EXPONENT, "
    "CKA_PRIME_1/2, CKA_EXPONENT_1/2, CKA_COEFFICIENT) registered by any private/secret key class must carry the cannot-be-revealed "
    "check bit. R2: P11Attribute::retrieve and its helpers isSensitive/isExtractable are evaluated over the finite domain "
    "{check mask} x {sensitive} x {extractable}: on every abstract path of a protected combination the function must answer "
    "CKR_ATTRIBUTE_SENSITIVE, store CK_UNAVAILABLE_INFORMATION in the length and perform no write through pValue. R4: the one-way "
    "flags — P11AttrSensitive/Extractable/WrapWithTrusted::updateAttr evaluated over {operation} x {current value} x {requested value}: "
    "SET/COPY may never store the unprotecting value. R5: in C_WrapKey every call that produces wrapped output is dominated by the facts "
    "CKA_EXTRACTABLE(key) and (not CKA_WRAP_WITH_TRUSTED(key) or CKA_TRUSTED(wrapping key)). R6: in deriveSymmetric, for the three "
    "concatenation mechanisms, every abstract path that commits the derived key after a sensitive / unextractable base key was seen "
    "passes setAttribute(CKA_SENSITIVE,true) / setAttribute(CKA_EXTRACTABLE,false) on the new object. Not decided: the byte content "
    "of any output buffer (a runtime quantity).")
ASSUMPTIONS = [
    "P11Attribute::retrieve is the only function through which C_GetAttributeValue copies attribute bytes to the caller (checked by C01/C11 handle-use rules, not here)",
    "objects are identified by the local variable that names them (no re-aliasing of OSObject* locals)",
    "callees outside /repo/src are uninterpreted",
]

SECRET = ['CKA_VALUE', 'CKA_PRIVATE_EXPONENT', 'CKA_PRIME_1', 'CKA_PRIME_2', 'CKA_EXPONENT_1', 'CKA_EXPONENT_2', 'CKA_COEFFICIENT']


def r1_table(ctx, prog):
    r = ctx.rule('C02.R1', 'every secret attribute of every private/secret key class carries the cannot-be-revealed check (ck7)', floor=12, engine='E1')
    attrs = tables.attr_classes(prog)
    objs = tables.object_classes(prog, attrs)
    ck7 = None
    for e in prog.enums.values():
        for en in e['enumerators']:
            if en['qname'] == 'P11Attribute::ck7':
                ck7 = en['v']
    if ck7 is None:
        raise AnalysisBroken('enumerator P11Attribute::ck7 not found')
    secret_vals = {macro(prog, n): n for n in SECRET}
    keyclasses = sorted((prog.subclasses('P11PrivateKeyObj') | prog.subclasses('P11SecretKeyObj') | {'P11PrivateKeyObj', 'P11SecretKeyObj'}))
    rows = 0
    for cls in keyclasses:
        t = tables.flatten(objs, cls, prog)
        rows += len(t)
        leaf = not prog.subclasses(cls)
        found = 0
        for v, reg in sorted(t.items()):
            if v in secret_vals:
                found += 1
                site = '%s.%s' % (cls, secret_vals[v])
                if reg.checks & ck7:
                    r.ok(cls, site, 'registered by %s with checks 0x%x' % (reg.obj_class, reg.checks), file=reg.file, line=reg.line)
                else:
                    r.violation(cls, site, '%s registers %s (%s) with checks 0x%x: the cannot-be-revealed bit 0x%x is missing, so C_GetAttributeValue '
                                'returns the value of a sensitive/unextractable key' % (reg.obj_class, secret_vals[v], reg.attr_class, reg.checks, ck7),
                                file=reg.file, line=reg.line)
        if leaf and found == 0:
            r.violation(cls, '%s.no-secret-attribute' % cls, 'concrete key class registers none of the secret value attributes', file=objs.get(cls, {}).get('file'), line=objs.get(cls, {}).get('line'))
    r.rows = rows
    r.exhaustive = True
    r.info('%d key classes, %d (class, attribute) rows, ck7=0x%x' % (len(keyclasses), rows, ck7))
    return ck7


def r2_reveal(ctx, prog, ck7):
    r = ctx.rule('C02.R2', 'reveal guard: protected combinations answer CKR_ATTRIBUTE_SENSITIVE and never write through pValue', floor=10, engine='E1+E3 finite-domain path enumeration')
    f = prog.fn('P11Attribute::retrieve')
    ctx.analysed(f)
    if not check_analysable(r, f):
        return
    pvalue = param_name(f, 2)
    plen = param_name(f, 3)
    allbits = 0xFFFFFF
    for dom in product({'checks': [0, ck7, allbits, allbits & ~ck7], 'sens': [0, 1], 'extr': [0, 1]}):
        protected = bool(dom['checks'] & ck7) and (dom['sens'] or not dom['extr'])
        cenv = {'checks': dom['checks'], 'isSensitive(this)': dom['sens'], 'isExtractable(this)': dom['extr'], 'osobject': 1, plen: 1}
        o = Outcomes(f, prog, cenv=cenv).go()
        r.paths += len(o.outcomes)
        site = 'checks=0x%x sensitive=%d extractable=%d' % (dom['checks'], dom['sens'], dom['extr'])
        if not protected:
            r.ok(f['qname'], site, 'not a protected combination (%d paths)' % len(o.outcomes), file=f['file'], line=f['line'])
            continue
        bad = None
        for oc in o.outcomes:
            touches = [e for e in oc['events'] if (e[0] == 'call' and any(pvalue in ids_of(a) for a in e[2])) or (e[0] == 'write' and pvalue in ids_of(e[1]))]
            if touches:
                bad = ('writes through/passes on %s at line %s' % (pvalue, touches[0][3]), oc)
                break
            if oc['ret'] != 'CKR_ATTRIBUTE_SENSITIVE':
                bad = ('returns %s instead of CKR_ATTRIBUTE_SENSITIVE' % oc['ret'], oc)
                break
            if not any(e[0] == 'write' and e[1] == '*' + plen and e[2] == 'CK_UNAVAILABLE_INFORMATION' for e in oc['events']):
                bad = ('does not set *%s to CK_UNAVAILABLE_INFORMATION' % plen, oc)
                break
        if bad:
            r.violation(f['qname'], site, 'for a key with %s a path %s' % (site, bad[0]), file=f['file'], line=bad[1]['line'], path=bad[1]['path'])
        else:
            r.ok(f['qname'], site, '%d paths, all refuse' % len(o.outcomes), file=f['file'], line=f['line'])
    # helper semantics
    for helper, attr, exists_true in (('P11Attribute::isSensitive', 'CKA_SENSITIVE', None), ('P11Attribute::isExtractable', 'CKA_EXTRACTABLE', None)):
        h = prog.fn(helper)
        ctx.analysed(h)
        for ex in (1,):
            for val in (0, 1):
                cenv = {re.compile(r'attributeExists\(osobject,%s\)' % attr): ex, re.compile(r'getBooleanValue\(osobject,%s,\w+\)' % attr): val}
                o = Outcomes(h, prog, cenv=cenv).go()
                r.paths += len(o.outcomes)
                site = '%s stored=%d' % (attr, val)
                wrong = [oc for oc in o.outcomes if oc['ret'] not in (('1', 'true') if val else ('0', 'false'))]
                if wrong:
                    r.violation(helper, site, 'object stores %s=%d but %s returns %s' % (attr, val, helper, wrong[0]['ret']), file=h['file'], line=wrong[0]['line'], path=wrong[0]['path'])
                else:
                    r.ok(helper, site, 'returns the stored value', file=h['file'], line=h['line'])


# --------------------------------------------------------------------------------------- R3: who may export key bytes
CRYPTO_CALLS = {'encrypt', 'encryptInit', 'encryptUpdate', 'encryptFinal', 'wrapKey', 'hashUpdate', 'hashFinal', 'signInit', 'signUpdate', 'signFinal', 'sign', 'verify', 'verifyInit', 'verifyUpdate', 'verifyFinal',
                'deriveKey', 'setKeyBits', 'setAttribute', 'decryptInit', 'generateRandom', 'reconstructKey', 'getKeyCheckValue', 'setD', 'setP', 'setQ', 'setPQ', 'setDP1', 'setDQ1', 'setX', 'setK', 'setEC',
                'setN', 'setE', 'setG', 'setY', 'setPublicKey', 'setPrivateKey', 'size', 'length', 'bits', 'const_byte_str_never'}
COPY_CALLS = {'operator=', 'operator+=', 'append', 'assign', 'insert', 'push_back', 'swap'}
BYTE_TYPES = re.compile(r'ByteString|unsigned char|CK_BYTE|std::string|char \*|std::vector')


def _names(e):
    return {x['name'] for x in walk(e) if x.get('k') == 'Var'}


def _secret_source(c, secret_vals):
    if c.get('k') != 'Call' or short(c.get('callee')) not in ('getByteStringValue', 'getAttribute') or not c.get('args'):
        return None
    return secret_vals.get(tables.const_eval(c['args'][0]))


def taint_flow(prog, f, seeds, secret_vals, depth=3, memo=None):
    """Flow-insensitive taint closure inside f starting from the variable names in `seeds` plus the secret-attribute reads in f.
    Returns (tainted names, sinks [(kind, text, line, function)], tainted by-reference parameters)."""
    memo = memo if memo is not None else {}
    key = (f['qname'], f['sig'], frozenset(seeds))
    if key in memo:
        return memo[key]
    memo[key] = (set(seeds), [], set())
    types = {pp['var']['name']: pp['type'] for pp in f.get('params', []) if pp.get('var')}
    for n in walk(f['body']):
        if n.get('k') == 'Decl':
            for d in n['decls']:
                types[d['var']['name']] = d.get('type', '')
    t = set(seeds)

    def bytes_var(v):
        return bool(BYTE_TYPES.search(types.get(v, 'ByteString')))
    sinks = []
    for _ in range(8):
        n0 = len(t)
        for n in walk(f['body']):
            k = n.get('k')
            if k == 'Decl':
                for d in n['decls']:
                    i = d.get('init')
                    if i is None or not bytes_var(d['var']['name']):
                        continue
                    if any(_secret_source(c, secret_vals) for c in calls(i)) or (_names(i) & t and not (i.get('k') == 'Call' and short(i.get('callee')) in CRYPTO_CALLS)):
                        t.add(d['var']['name'])
            elif k == 'Assign' and n['a'].get('k') == 'Var' and bytes_var(n['a']['name']):
                if any(_secret_source(c, secret_vals) for c in calls(n['b'])) or (_names(n['b']) & t and not (n['b'].get('k') == 'Call' and short(n['b'].get('callee')) in CRYPTO_CALLS)):
                    t.add(n['a']['name'])
            elif k == 'Call':
                sname = short(n.get('callee'))
                args = n.get('args', [])
                rc = n.get('recv')
                src_in_args = any(_names(a) & t or any(_secret_source(c, secret_vals) for c in calls(a)) for a in args)
                if sname in COPY_CALLS and rc is not None and rc.get('k') == 'Var' and src_in_args and bytes_var(rc['name']):
                    t.add(rc['name'])
                elif sname == 'decrypt' and len(args) == 2 and args[1].get('k') == 'Var' and (_names(args[0]) & t or any(_secret_source(c, secret_vals) for c in calls(args[0]))):
                    t.add(args[1]['name'])          # Token::decrypt / SecureDataManager::decrypt: the plaintext of a stored secret
                elif sname in ('memcpy', 'memmove') and len(args) == 3 and _names(args[1]) & t:
                    dn = _names(args[0])
                    for v in dn:
                        if bytes_var(v):
                            t.add(v)
                elif n.get('own') and n.get('callee') and sname not in CRYPTO_CALLS and depth > 0 and src_in_args:
                    # a helper of the library: propagate through its by-reference parameters
                    for g in prog.fns(n['callee']):
                        pn = [pp['var']['name'] if pp.get('var') else None for pp in g.get('params', [])]
                        seeds2 = {pn[i] for i, a in enumerate(args) if i < len(pn) and pn[i] and _names(a) & t}
                        if not seeds2:
                            continue
                        t2, s2, out2 = taint_flow(prog, g, seeds2, secret_vals, depth - 1, memo)
                        sinks += [x for x in s2 if x not in sinks]
                        for i, a in enumerate(args):
                            if i < len(pn) and pn[i] in out2:
                                for v in _names(a):
                                    if bytes_var(v):
                                        t.add(v)
        if len(t) == n0:
            break
    ptr_params = {pp['var']['name'] for pp in f.get('params', []) if pp.get('var') and ('*' in pp['type'] or 'PTR' in pp['type'])}
    for n in walk(f['body']):
        if n.get('k') == 'Call':
            sname = short(n.get('callee'))
            args = n.get('args', [])
            if sname in ('memcpy', 'memmove', 'strncpy', 'strcpy') and len(args) >= 2 and _names(args[1]) & t and _names(args[0]) & ptr_params:
                sinks.append(('copy to the caller\'s buffer', '%s(%s, %s, ...)' % (sname, canon(args[0]), canon(args[1])), n['l'], f['qname']))
            elif sname == 'softHSMLog' and any(_names(a) & t for a in args[4:]):
                sinks.append(('log output', 'softHSMLog(... %s ...)' % ', '.join(canon(a) for a in args[4:] if _names(a) & t)[:80], n['l'], f['qname']))
            elif sname in ('fwrite', 'fprintf', 'printf', 'write', 'send', 'syslog') and any(_names(a) & t for a in args):
                sinks.append(('output call', sname, n['l'], f['qname']))
        elif n.get('k') == 'Assign' and _names(n['b']) & t:
            a = n['a']
            if a.get('k') in ('Index',) or (a.get('k') == 'Un' and a.get('op') == '*'):
                if _names(a) & ptr_params and not _names(a) & t:
                    sinks.append(('store through a pointer parameter', canon(a), n['l'], f['qname']))
    outp = {pp['var']['name'] for pp in f.get('params', []) if pp.get('var') and pp['var']['name'] in t and ('&' in pp['type'] or '*' in pp['type']) and not pp['type'].strip().startswith('const')}
    memo[key] = (t, sinks, outp)
    return memo[key]


def r3_exports(ctx, prog):
    r = ctx.rule('C02.R3', 'bytes read from a secret value attribute reach the caller only through P11Attribute::retrieve (never a caller buffer, a log line or an output call directly)', floor=25, engine='E5 taint')
    secret_vals = {macro(prog, n): n for n in SECRET}
    memo = {}
    for f in sorted(prog.functions.values(), key=lambda f: (f['file'], f['line'])):
        srcs = [(c, _secret_source(c, secret_vals)) for c in calls(f['body']) if _secret_source(c, secret_vals)]
        if not srcs or f['qname'] in ('P11Attribute::retrieve',):
            continue
        ctx.analysed(f)
        t, sinks, outp = taint_flow(prog, f, set(), secret_vals, 3, memo)
        # by-reference results of this function carry the bytes on to its callers
        up = []
        if outp:
            for g in prog.functions.values():
                for c in calls(g['body']):
                    if c.get('callee') == f['qname']:
                        pn = [pp['var']['name'] if pp.get('var') else None for pp in f['params']]
                        seeds = {v for i, a in enumerate(c.get('args', [])) if i < len(pn) and pn[i] in outp for v in _names(a)}
                        if seeds:
                            t2, s2, _ = taint_flow(prog, g, seeds, secret_vals, 2, memo)
                            up += s2
        allsinks = sinks + [x for x in up if x not in sinks]
        for c, name in srcs:
            site = 'read of %s@%d' % (name, [x for x, _ in srcs].index(c))
            if allsinks:
                k, txt, line, fn = allsinks[0]
                r.violation(f['qname'], site, 'the bytes read from %s flow to a %s in %s (line %s: %s) without passing a cryptographic transformation or the reveal guard of P11Attribute::retrieve' % (name, k, fn, line, txt), file=f['file'], line=c['l'])
            else:
                r.ok(f['qname'], site, 'reaches only cryptographic calls, key objects and the object store (%d tainted names)' % len(t), file=f['file'], line=c['l'])



def ids_of(s):
    return set(re.findall(r'[A-Za-z_][A-Za-z_0-9]*', s))


def setattr_events(oc):
    return [e for e in oc['events'] if e[0] == 'call' and e[1] == 'setAttribute']


def stored_bool(arg):
    """Truth value stored by a setAttribute argument canon, or None."""
    if arg in ('true', 'CK_TRUE') or arg.endswith('(true)') or arg.endswith('(CK_TRUE)'):
        return True
    if arg in ('false', 'CK_FALSE') or arg.endswith('(false)') or arg.endswith('(CK_FALSE)'):
        return False
    return None


def r4_oneway(ctx, prog, rule_id='C02.R4'):
    r = ctx.rule(rule_id, 'one-way flags: SET/COPY can never store the unprotecting value once the flag is protective', floor=9, engine='E1+E3 finite-domain path enumeration')
    ops = {n: macro(prog, 'OBJECT_OP_' + n) for n in ('COPY', 'CREATE', 'DERIVE', 'GENERATE', 'SET', 'UNWRAP')}
    # (class, attribute, protective current value, forbidden stored value)
    for cls, attr, protective, forbidden in (('P11AttrSensitive', 'CKA_SENSITIVE', 1, False), ('P11AttrExtractable', 'CKA_EXTRACTABLE', 0, True),
                                             ('P11AttrWrapWithTrusted', 'CKA_WRAP_WITH_TRUSTED', 1, False)):
        f = prog.fn(cls + '::updateAttr')
        ctx.analysed(f)
        if not check_analysable(r, f):
            continue
        pv, plen, pop = param_name(f, 2), param_name(f, 3), param_name(f, 4)
        for opname in ('SET', 'COPY'):
            for req in (0, 1, 0xFF):      # 0xFF: a non-canonical CK_BBOOL that reads as true
                cenv = {pop: ops[opname], '*' + pv: req, plen: 1,
                        re.compile(r'getBooleanValue\(osobject,%s,\w+\)' % attr): protective}
                o = Outcomes(f, prog, cenv=cenv).go()
                r.paths += len(o.outcomes)
                site = '%s op=%s requested=0x%x' % (attr, opname, req)
                bad = None
                for oc in o.outcomes:
                    for e in setattr_events(oc):
                        if len(e[2]) >= 3 and e[2][1] in ('type', attr) and stored_bool(e[2][2]) is forbidden:
                            bad = ('stores %s=%s although the flag is already protective' % (attr, forbidden), oc)
                    if not bad and bool(req) == forbidden and oc['ret'] in ('CKR_OK', '0'):
                        bad = ('returns CKR_OK for the request to un-protect', oc)
                    if bad:
                        break
                if bad:
                    r.violation(f['qname'], site, 'with %s currently %d and operation %s a path %s' % (attr, protective, opname, bad[0]),
                                file=f['file'], line=bad[1]['line'], path=bad[1]['path'])
                else:
                    r.ok(f['qname'], site, '%d paths' % len(o.outcomes), file=f['file'], line=f['line'])


def r5_wrap(ctx, prog):
    r = ctx.rule('C02.R5', 'C_WrapKey: wrapped output only for an extractable key, and a wrap-with-trusted key only under a trusted wrapping key', floor=2, engine='E2')
    f = prog.fn('SoftHSM::C_WrapKey')
    ctx.analysed(f)
    if not check_analysable(r, f):
        return
    hwrap, hkey, pout = param_name(f, 2), param_name(f, 3), param_name(f, 4)
    ho = handle_objects(f)
    if hkey not in ho or hwrap not in ho:
        raise AnalysisBroken('C_WrapKey: the objects for %s/%s are not obtained by handleManager->getObject' % (hwrap, hkey))
    key, wrapkey = ho[hkey][0][0], ho[hwrap][0][0]
    if not check_shadowing(r, f, [key, wrapkey]):
        return

    def trig(e, st):
        if e.get('k') != 'Call':
            return None
        c = short(e.get('callee'))
        if c in ('WrapKeySym', 'WrapKeyAsym'):
            return 'call ' + c
        if any(a is not None and a.get('k') == 'Var' and a['name'] == pout for a in e.get('args', [])) and c != 'softHSMLog':
            return 'write to ' + pout + ' via ' + c
        return None
    sf = SiteFacts(f, prog, trigger=trig, track_facts='CKA_EXTRACTABLE|CKA_WRAP_WITH_TRUSTED|CKA_TRUSTED').go()
    r.paths = sf.paths_returned
    rx_extr = r'getBooleanValue\(%s,CKA_EXTRACTABLE,\w+\)' % key
    rx_wwt = r'getBooleanValue\(%s,CKA_WRAP_WITH_TRUSTED,\w+\)' % key
    rx_tr = r'getBooleanValue\(%s,CKA_TRUSTED,\w+\)' % wrapkey
    for site, hits in sorted(sf.sites.items()):
        bad = None
        for h in hits:
            if not has_fact(h['facts'], rx_extr, True):
                bad = ('CKA_EXTRACTABLE of the key to be wrapped is not known to be true', h)
            elif not (has_fact(h['facts'], rx_wwt, False) or has_fact(h['facts'], rx_tr, True)):
                bad = ('neither CKA_WRAP_WITH_TRUSTED(key)==false nor CKA_TRUSTED(wrapping key)==true is established', h)
            if bad:
                break
        if bad:
            r.violation(f['qname'], site, 'on a path reaching this site %s' % bad[0], file=f['file'], line=bad[1]['line'], path=bad[1]['path'])
        else:
            r.ok(f['qname'], site, '%d abstract states reach the site, all carry both facts' % len(hits), file=f['file'], line=hits[0]['line'])


def r6_inherit(ctx, prog):
    r = ctx.rule('C02.R6', 'concatenation derive: the derived key inherits CKA_SENSITIVE=true / CKA_EXTRACTABLE=false from the base key(s)', floor=10, engine='E1+E3 finite-domain path enumeration')
    f = prog.fn('SoftHSM::deriveSymmetric')
    ctx.analysed(f)
    if not check_analysable(r, f):
        return
    pmech = param_name(f, 1)
    hbase = param_name(f, 2)
    ho = handle_objects(f)
    if hbase not in ho:
        raise AnalysisBroken('deriveSymmetric: base key object not obtained from %s' % hbase)
    base = ho[hbase][0][0]
    others = [v for h, vs in ho.items() if h != hbase for v, _ in vs]
    # the new object: local assigned from getObject(*phKey)
    newobj = [v for h, vs in ho.items() if h.startswith('*') for v, _ in vs if v not in others or True]
    other = None
    for h, vs in ho.items():
        if h != hbase and not h.startswith('*' + param_name(f, 5)):
            other = vs[0][0]
    new = None
    for h, vs in ho.items():
        if h == '*' + param_name(f, 5):
            new = vs[0][0]
    if new is None or other is None:
        raise AnalysisBroken('deriveSymmetric: cannot identify the derived object / the second key (%s)' % ho)
    mechs = {m: macro(prog, m) for m in ('CKM_CONCATENATE_BASE_AND_KEY', 'CKM_CONCATENATE_BASE_AND_DATA', 'CKM_CONCATENATE_DATA_AND_BASE')}
    for mname, mval in mechs.items():
        keys = [base] + ([other] if mname.endswith('_KEY') else [])
        # one enumeration per mechanism; the four attribute probes stay symbolic and are part of the merge key, so every
        # committing path knows which (sensitive, extractable) combinations of the source keys it is consistent with
        o = Outcomes(f, prog, cenv={pmech + '.mechanism': mval}, record_calls={'setAttribute', 'commitTransaction'})
        o.CAP = 48
        o.QUIET = True
        o.interesting = lambda e: short(e.get('callee')) != 'setAttribute' or (e.get('args') and tables.lit_name(e['args'][0]) in ('CKA_SENSITIVE', 'CKA_EXTRACTABLE'))
        o.track_facts = re.compile(r'^getBooleanValue\((%s),CKA_(SENSITIVE|EXTRACTABLE),' % '|'.join(keys))
        o.go()
        r.paths += len(o.outcomes)
        results = {}      # combo -> [committing paths, first bad]
        for oc in o.outcomes:
            evs = oc['events']
            ci = [i for i, e in enumerate(evs) if e[1] == 'commitTransaction' and e[2] and e[2][0] == new]
            if not ci:
                continue
            before = [e for e in evs[:ci[-1]] if e[1] == 'setAttribute' and e[2][0] == new]
            has_s = any(e[2][1] == 'CKA_SENSITIVE' and stored_bool(e[2][2]) is True for e in before)
            has_x = any(e[2][1] == 'CKA_EXTRACTABLE' and stored_bool(e[2][2]) is False for e in before)
            dom = {}
            for k in keys:
                for tag, attr in (('s_', 'CKA_SENSITIVE'), ('x_', 'CKA_EXTRACTABLE')):
                    rx = re.compile(r'getBooleanValue\(%s,%s,\w+\)' % (k, attr))
                    vals = [v for v in (0, 1) if not has_fact(oc['facts'], rx, not v)]   # values this path is consistent with
                    dom[tag + k] = vals
            for d in product(dom):
                site = '%s %s' % (mname, ' '.join('%s(sensitive=%d,extractable=%d)' % (k, d['s_' + k], d['x_' + k]) for k in keys))
                res = results.setdefault(site, [0, None])
                res[0] += 1
                need_s = any(d['s_' + k] for k in keys)
                need_x = any(not d['x_' + k] for k in keys)
                if res[1] is None:
                    if need_s and not has_s:
                        res[1] = ('commits the derived key without setAttribute(CKA_SENSITIVE,true)', oc)
                    elif need_x and not has_x:
                        res[1] = ('commits the derived key without setAttribute(CKA_EXTRACTABLE,false)', oc)
        expect = ['%s %s' % (mname, ' '.join('%s(sensitive=%d,extractable=%d)' % (k, d['s_' + k], d['x_' + k]) for k in keys))
                  for d in product({t + k: [0, 1] for k in keys for t in ('s_', 'x_')})]
        for site in expect:
            n, bad = results.get(site, [0, None])
            if bad:
                r.violation(f['qname'], site, 'a path %s' % bad[0], file=f['file'], line=bad[1]['line'], path=bad[1]['path'])
            elif n == 0:
                r.undecided(f['qname'], site, 'no abstract path consistent with this combination reaches commitTransaction on the derived object', file=f['file'], line=f['line'])
            else:
                r.ok(f['qname'], site, '%d committing paths' % n, file=f['file'], line=f['line'])


def r7_copy_complete(ctx, prog):
    """C_CopyObject hands every attribute of the source to the copy before the template is applied: the one-way setters (C02.R4) decide on the *current* value
    in the new object, so an attribute that is skipped because the template names it would be judged against the class default instead of the source's value."""
    r = ctx.rule('C02.R7', 'C_CopyObject copies every source attribute into the new object before the template is applied (no skip that depends on the template)', floor=1, engine='E3')
    from rules.c16 import outcomes as fo
    f = prog.fn('SoftHSM::C_CopyObject')
    ctx.analysed(f)
    o = fo(f, prog, {}, record={'setAttribute', 'nextAttributeType', 'commitTransaction', 'saveTemplate', 'getAttribute'}, rounds=2, cap=768)
    r.paths += len(o.outcomes)
    bad, n = None, 0
    for oc in o.outcomes:
        evs = [e for e in oc['events'] if e[0] == 'call']
        nx = [i for i, e in enumerate(evs) if e[1] == 'nextAttributeType']
        if not nx:
            continue
        n += 1
        # every iteration: between the fetch of the attribute and the step to the next type the attribute must have been stored in the new object
        prev = -1
        for j in nx:
            ga = [i for i, e in enumerate(evs) if e[1] == 'getAttribute' and prev < i < j]
            st = [i for i, e in enumerate(evs) if e[1] == 'setAttribute' and e[2] and e[2][0] == 'newobject' and prev < i < j]
            if ga and not st:
                bad = oc
            prev = j
    if bad:
        r.violation(f['qname'], 'copy loop', 'a path steps to the next attribute type without having stored the current one in the new object: the copy starts from the class default for that attribute, so a template entry can take a protection '
                    '(CKA_SENSITIVE, CKA_WRAP_WITH_TRUSTED) away that C_CopyObject must preserve', file=f['file'], line=bad['line'], path=bad['path'])
    elif n == 0:
        r.undecided(f['qname'], 'copy loop', 'no path through the copy loop found', file=f['file'], line=f['line'])
    else:
        r.ok(f['qname'], 'copy loop', '%d iterating paths, each stores the attribute' % n, file=f['file'], line=f['line'])


def run(ctx):
    prog = ctx.prog('ossl-file')
    ck7 = r1_table(ctx, prog)
    r2_reveal(ctx, prog, ck7)
    r3_exports(ctx, prog)
    r4_oneway(ctx, prog)
    r5_wrap(ctx, prog)
    r6_inherit(ctx, prog)
    r7_copy_complete(ctx, prog)


MUTANTS = [
    dict(name='copyobject-skips-attributes-named-in-template', rule='C02.R7', file='src/lib/SoftHSM.cpp', after='CK_RV SoftHSM::C_CopyObject',
         old='\t\t// Upgrade privacy has to encrypt byte strings\n\t\tif (!wasPrivate && isPrivate &&',
         new='\t\tbool bInTemplate = false;\n\t\tfor (CK_ULONG i = 0; i < ulCount && attrType != CKA_CLASS; i++)\n\t\t{\n\t\t\tif (pTemplate[i].type == attrType) bInTemplate = true;\n\t\t}\n\t\tif (bInTemplate)\n\t\t{\n\t\t}\n\t\telse if (!wasPrivate && isPrivate &&'),
    dict(name='wrap-null-mechanism-copies-key', rule='C02.R3', file='src/lib/SoftHSM.cpp', after='CK_RV SoftHSM::WrapKeySym',
         old='\tSymmetricAlgorithm* cipher = CryptoFactory::i()->getSymmetricAlgorithm(algo);\n\tif (cipher == NULL) return CKR_MECHANISM_INVALID;',
         new='\tif (pMechanism->ulParameterLen == 0 && pMechanism->mechanism == CKM_AES_CBC) { wrapped = keydata; return CKR_OK; }\n\tSymmetricAlgorithm* cipher = CryptoFactory::i()->getSymmetricAlgorithm(algo);\n\tif (cipher == NULL) return CKR_MECHANISM_INVALID;'),
    dict(name='digestkey-logs-key', rule='C02.R3', file='src/lib/SoftHSM.cpp', after='CK_RV SoftHSM::C_DigestKey',
         old='\tif (session->getDigestOp()->hashUpdate(keybits) == false)', new='\tDEBUG_MSG("digesting key %s", keybits.hex_str().c_str());\n\tif (session->getDigestOp()->hashUpdate(keybits) == false)'),
    dict(name='prime1-no-ck7', rule='C02.R1', file='src/lib/P11Attributes.h', with_tus=['src/lib/P11Attributes.cpp', 'src/lib/P11Objects.cpp', 'src/lib/SoftHSM.cpp'],
         old='type = CKA_PRIME_1; checks = ck4|ck6|ck7;', new='type = CKA_PRIME_1; checks = ck4|ck6;'),
    dict(name='dsa-private-value-no-ck7', rule='C02.R1', file='src/lib/P11Objects.cpp',
         old='P11Attribute* attrValue = new P11AttrValue(osobject,P11Attribute::ck1|P11Attribute::ck4|P11Attribute::ck6|P11Attribute::ck7);',
         new='P11Attribute* attrValue = new P11AttrValue(osobject,P11Attribute::ck1|P11Attribute::ck4|P11Attribute::ck6);'),
    dict(name='reveal-guard-sensitive-only', rule='C02.R2', file='src/lib/P11Attributes.cpp',
         old='if ((checks & ck7) == ck7 && (isSensitive() || !isExtractable())) {', new='if ((checks & ck7) == ck7 && isSensitive()) {'),
    dict(name='extractable-no-oneway', rule='C02.R4', file='src/lib/P11Attributes.cpp',
         old='if (osobject->getBooleanValue(CKA_EXTRACTABLE, false) == false)\n\t\t{\n\t\t\treturn CKR_ATTRIBUTE_READ_ONLY;',
         new='if (osobject->getBooleanValue(CKA_EXTRACTABLE, false) == false && op == OBJECT_OP_SET)\n\t\t{\n\t\t\treturn CKR_ATTRIBUTE_READ_ONLY;'),
    dict(name='wrap-no-extractable-test', rule='C02.R5', file='src/lib/SoftHSM.cpp',
         old='\tif (key->getBooleanValue(CKA_EXTRACTABLE, false) == false)\n\t\treturn CKR_KEY_UNEXTRACTABLE;\n', new=''),
    dict(name='concat-data-base-no-sensitive', rule='C02.R6', file='src/lib/SoftHSM.cpp',
         old='\t\t\t\tif (baseKey->getBooleanValue(CKA_SENSITIVE, true)) {\n\t\t\t\t\tbOK = bOK && osobject->setAttribute(CKA_SENSITIVE, true);',
         new='\t\t\t\tif (baseKey->getBooleanValue(CKA_SENSITIVE, true) && pMechanism->mechanism == CKM_CONCATENATE_BASE_AND_DATA) {\n\t\t\t\t\tbOK = bOK && osobject->setAttribute(CKA_SENSITIVE, true);'),
]

TECHNIQUE = 'custom static analysis over the clang AST: exhaustive table extraction (init-chain emulation), finite-domain path enumeration of the reveal guard and one-way flag setters, dominating-fact (guarded-effect) dataflow in C_WrapKey/deriveSymmetric'
LEVEL_TEXT = ('Structural clauses of C02 decided for every row/path of the current source: the ck7 table is enumerated exhaustively over all key classes; '
              'retrieve/updateAttr are evaluated on every abstract path for every combination of the finite guard domain; wrap/derive guards are checked on every path. '
              'This decides that no code path can hand out or un-protect a secret attribute through these mechanisms; it does not inspect output bytes at run time.')
LEVEL_NOTE = 'trusted: clang front end, the normaliser, the abstract interpreter; assumes OSObject* locals are not re-aliased and that callees outside /repo/src have no relevant effects'
