"""C14 — token initialisation, re-initialisation and isolation between tokens (DESIGN.md §3 C14; very narrow)."""
import os, re
from engine.rulelib import *
from engine import tables
from rules.c03 import outcomes, ev_calls
from rules import c03, c11

EXPLANATION = (
    "Isolation over call histories and slot numbering after a restart are runtime statements and are NOT decided. Decided structurally: R1 — C_InitToken reaches the token initialisation only without open sessions on that slot and with an SO PIN in "
    "the advertised length range (finite-domain evaluation, shared with C03.R6/C04.R1). R2 — Token::createToken evaluated over {token exists} x {SO PIN blob present} x {SO PIN check} x {reset result}: an existing token is reset only after the "
    "SO PIN check succeeded (or no SO PIN exists yet); every failing exit leaves nobody logged in on the live SecureDataManager; after a successful reset the new SecureDataManager is built from PIN blobs that were empty at the reset and are "
    "filled only by the store's getters afterwards (no stale user PIN survives in memory); OSToken::resetToken removes CKA_OS_USERPIN, clears the user-PIN flags and never touches CKA_OS_SOPIN. R3 — per-token keying: every purge / close in "
    "C_CloseSession, C_CloseAllSessions, C_Logout uses the handle / slot of this very call (the pairing rule of C11.R2, reported here for the isolation clause), and SlotManager derives the slot of a token from its serial with the short-serial "
    "fallback intact.")
ASSUMPTIONS = ['each Token owns its SecureDataManager (field, written only in the constructor and createToken)', 'callees outside /repo/src are uninterpreted']
TECHNIQUE = 'custom static analysis over the clang AST: finite-domain path enumeration of C_InitToken and Token::createToken with event-order checks, ownership of the per-token state, argument provenance of the per-slot purges'
LEVEL_TEXT = ('The (re-)initialisation transition is evaluated on all abstract paths for its whole guard domain, including the failing exits; per-slot keying is decided by argument provenance. '
              'Cross-token isolation over histories is only covered through these necessary conditions.')
LEVEL_NOTE = 'trusted: clang front end, normaliser, abstract interpreter'


def r1_inittoken(ctx, prog):
    sub = type(ctx)('C14', ctx.tier, mutated=ctx.mutated, quiet=True)
    sub._progs = ctx._progs
    c03.r6_inittoken(sub, prog)
    r = ctx.rule('C14.R1', 'C_InitToken requires a session-free slot', floor=2, engine='E1+E3 finite-domain')
    r.instances, r.paths = sub.rules[0].instances, sub.rules[0].paths


def r2_createtoken(ctx, prog, rule_id='C14.R2'):
    r = ctx.rule(rule_id, 're-initialisation: SO PIN first, no login state left behind on failure, no stale PIN blob kept, user PIN removed', floor=10, engine='E1+E3 finite-domain')
    f = prog.fn('Token::createToken')
    ctx.analysed(f)
    rec = {'loginSO', 'loginUser', 'logout', 'resetToken', 'newToken', 'destroyToken', 'setSOPIN', 'new SecureDataManager', 'ctor SecureDataManager', 'operator=', 'getSOPIN', 'getUserPIN', 'getSOPINBlob', 'getUserPINBlob'}
    for d in product({'blob': [0, 40], 'pin': [0, 1], 'reset': [0, 1], 'label': [1, 0]}):
        cenv = {'token': 1, 'sdm': 1, param_name(f, 0): 1, param_name(f, 2): d['label'], re.compile(r'getTokenFlags@\d+\(.*\)'): 1, re.compile(r'size\(getSOPINBlob\(\w+\)\)|size\(soPINBlob\)'): d['blob'],
                re.compile(r'loginSO@\d+\(\w+,\w+\)'): d['pin'], re.compile(r'resetToken@\d+\(.*\)'): d['reset'], re.compile(r'getSOPIN@\d+\(.*\)|getUserPIN@\d+\(.*\)'): 1}
        o = outcomes(f, prog, cenv, record=rec)
        r.paths += len(o.outcomes)
        site = 're-init so-pin-set=%d pin-check=%d reset-ok=%d' % (bool(d['blob']), d['pin'], d['reset']) + ('' if d['label'] else ' label=NULL')
        must_refuse = (d['blob'] and not d['pin']) or not d['label']
        bad = None
        for oc in o.outcomes:
            evs = oc['events']
            reset = [i for i, e in enumerate(evs) if e[1] == 'resetToken']
            logins = [i for i, e in enumerate(evs) if e[1] == 'loginSO']
            live_login = [i for i in logins if evs[i][2] and evs[i][2][0] == 'sdm']
            if must_refuse and (reset or may_succeed(oc)):
                bad = 'the token is reset / the call succeeds although the SO PIN check failed'
            elif d['blob'] and reset and not logins:
                bad = 'the token is reset without any SO PIN check'
            elif reset and logins and min(reset) < min(logins):
                bad = 'the token is reset before the SO PIN was checked'
            elif not may_succeed(oc) and live_login and d['pin'] and not any(e[1] == 'logout' and e[2] and e[2][0] == 'sdm' for e in evs[max(live_login):]):
                bad = 'a failing exit (return at line %s) leaves the SO logged in on the live SecureDataManager: the next session starts in CKS_RW_SO_FUNCTIONS without C_Login' % oc['line']
            elif may_succeed(oc):
                news = [e for e in evs if e[1] == 'new SecureDataManager']
                if len(news) != 1:
                    bad = 'a successful (re-)initialisation does not install exactly one fresh SecureDataManager'
                elif reset:
                    blobs = news[0][2]
                    ri = max(reset)
                    for b in blobs:
                        early = [e for e in evs[:ri] if (e[1] == 'operator=' and e[2] and e[2][0] == b) or (e[1] in ('getSOPIN', 'getUserPIN') and b in e[2])]
                        late = [e for e in evs[ri:] if e[1] in ('getSOPIN', 'getUserPIN') and b in e[2]]
                        if early:
                            bad = 'the new SecureDataManager is built from %s, which was filled (line %s) before the reset: a stale PIN blob — e.g. the removed user PIN — stays usable in memory' % (b, early[0][3])
                        elif not late:
                            bad = 'the new SecureDataManager is built from %s, which is never read back from the store after the reset' % b
            if bad:
                r.violation(f['qname'], site, bad, file=f['file'], line=oc['line'], path=oc['path'])
                break
        if not bad:
            r.ok(f['qname'], site, '%d paths' % len(o.outcomes), file=f['file'], line=f['line'])
    # OSToken::resetToken: removes the user PIN, clears its flags, never touches the SO PIN
    for cls in ('OSToken',):
        g = prog.fn(cls + '::resetToken')
        ctx.analysed(g)
        touched = {canon(c['args'][0]) for c in calls(g['body']) if short(c.get('callee')) in ('setAttribute', 'deleteAttribute') and c.get('args')}
        dels = {canon(c['args'][0]) for c in calls(g['body'], short='deleteAttribute') if c.get('args')}
        cleared = {canon(n['b']['e']) for n in walk(g['body']) if n.get('k') == 'Assign' and n['op'] == '&=' and n['b'].get('k') == 'Un' and n['b']['op'] == '~'}
        site = cls + '::resetToken'
        if 'CKA_OS_SOPIN' in touched:
            r.violation(g['qname'], site + ' keeps SO PIN', 'resetToken writes or deletes CKA_OS_SOPIN: re-initialisation must keep the SO PIN', file=g['file'], line=g['line'])
        else:
            r.ok(g['qname'], site + ' keeps SO PIN', 'attributes touched: %s' % sorted(touched), file=g['file'], line=g['line'])
        if 'CKA_OS_USERPIN' not in dels:
            r.violation(g['qname'], site + ' removes user PIN', 'resetToken does not delete CKA_OS_USERPIN: the old user PIN survives re-initialisation', file=g['file'], line=g['line'])
        else:
            r.ok(g['qname'], site + ' removes user PIN', 'deleteAttribute(CKA_OS_USERPIN)', file=g['file'], line=g['line'])
        if 'CKF_USER_PIN_INITIALIZED' not in cleared:
            r.violation(g['qname'], site + ' clears flags', 'CKF_USER_PIN_INITIALIZED is not cleared by resetToken', file=g['file'], line=g['line'])
        else:
            r.ok(g['qname'], site + ' clears flags', 'cleared: %s' % sorted(cleared), file=g['file'], line=g['line'])


def r3_keying(ctx, prog, rule_id='C14.R3'):
    sub = type(ctx)('C14', ctx.tier, mutated=ctx.mutated, quiet=True)
    sub._progs = ctx._progs
    c11.r2_pairing(sub, prog)
    r = ctx.rule(rule_id, 'per-token keying: closes and purges use the handle/slot of this call; slot derived from the token serial', floor=10, engine='E3+E6')
    r.instances = [i for i in sub.rules[0].instances if i['function'] in ('SoftHSM::C_CloseSession', 'SoftHSM::C_CloseAllSessions', 'SoftHSM::C_Logout')]
    r.paths = sub.rules[0].paths
    # SlotManager: slot id from the last 8 hex digits of the serial — the short-serial case is decided by the entailment rule (C14.R3b below), whatever form the code has
    # Token::sdm ownership
    allowed = {'Token::Token', 'Token::createToken', 'Token::~Token', 'Token::setUserPIN'}
    for g in prog.functions.values():
        for n in walk(g['body']):
            if n.get('k') == 'Assign' and n['a'].get('k') == 'Member' and n['a'].get('fq') == 'Token::sdm':
                site = 'write of Token::sdm in ' + g['qname'].split('::')[-1]
                if g['qname'] in allowed:
                    r.ok(g['qname'], site, canon(n['b'])[:50], file=g['file'], line=n['l'])
                else:
                    r.violation(g['qname'], site, 'the per-token SecureDataManager is replaced outside construction / (re-)initialisation / PIN change', file=g['file'], line=n['l'])


def r4_free_slot(ctx, prog):
    """The free slot: SlotManager keeps exactly one slot whose token is not initialised and adds one when none is left.  "Initialised" must mean "has a token in the object store" and nothing else."""
    r = ctx.rule('C14.R4', 'a token counts as initialised exactly when it has an object-store token; the slot list adds a free slot when none is uninitialised', floor=5, engine='E1 finite-domain')
    f = prog.fn('Token::isInitialized')
    ctx.analysed(f)
    for tok in (0, 1):
        for val in (0, 1):
            o = Outcomes(f, prog, cenv={'token': tok, 'valid': val, re.compile(r'isValid(@\d+)?\(token\)'): val, re.compile(r'token(->|\.)valid'): val}).go()
            r.paths += len(o.outcomes)
            got = {oc['retv'] for oc in o.outcomes}
            site = 'isInitialized token=%s valid=%d' % ('set' if tok else 'NULL', val)
            if got != {tok}:
                r.violation(f['qname'], site, 'answers %s, expected %s: an existing token that is momentarily invalid (deleted from outside) is taken for the free slot, so C_GetSlotList stops adding a new free slot after C_InitToken used the last one up' % (sorted(map(str, got)), bool(tok)),
                            file=f['file'], line=f['line'])
            else:
                r.ok(f['qname'], site, str(bool(tok)), file=f['file'], line=f['line'])
    g = prog.fn('SlotManager::getSlotList')
    ctx.analysed(g)
    ins = [c for c in calls(g['body'], short='insertToken')]
    guarded = [n for n in walk(g['body']) if n.get('k') == 'If' and 'uninitialized' in canon(n['c']) and any(short(c.get('callee')) == 'insertToken' for c in calls(n['t']))]
    setter = [n for n in walk(g['body']) if n.get('k') == 'If' and 'isInitialized' in canon(n['c']) and any(x.get('k') == 'Assign' and canon(x['a']) == 'uninitialized' for x in walk(n['t']))]
    if ins and guarded and setter:
        r.ok(g['qname'], 'free slot is added', 'insertToken under `uninitialized == false`, which is set from Token::isInitialized()', file=g['file'], line=ins[0]['l'])
    else:
        r.violation(g['qname'], 'free slot is added', 'the slot list no longer adds a free slot when every token is initialised (insertToken=%d guard=%d setter=%d)' % (len(ins), len(guarded), len(setter)), file=g['file'], line=g['line'])


def r9_fields_filled(ctx, prog):
    """C_GetTokenInfo reports the label and the serial number the token was given: a value that is clamped before it is copied into a fixed field of CK_TOKEN_INFO is clamped to the
    size of *that* field - a smaller bound (the serial's 16 for the 32-byte label) cuts the label every application sees, on every call and after every restart."""
    r = ctx.rule('C14.R9', 'a value copied into a fixed field of CK_TOKEN_INFO / CK_SLOT_INFO is clamped to exactly the size of that field', floor=1, engine='E8 (clamp bound = field extent)')
    for f in sorted(prog.functions.values(), key=lambda f: (f['file'], f['line'])):
        if f['body'] is None or f.get('class') not in ('Token', 'Slot'):
            continue
        clamps = {}
        for c in calls(f['body'], short='resize'):
            if c.get('recv') is not None and c['recv'].get('k') == 'Var' and c.get('args'):
                v = tables.const_eval(c['args'][0])
                if v is not None:
                    clamps[c['recv']['name']] = (v, c['l'])
        for c in calls(f['body']):
            if c.get('callee') not in ('strncpy', 'memcpy') or len(c.get('args', [])) != 3:
                continue
            dst, ln = c['args'][0], c['args'][2]
            if dst.get('k') != 'Member' or not dst.get('fq'):
                continue
            cls, fld = dst['fq'].rsplit('::', 1)
            ftype = next((x['type'] for x in (prog.classes.get(cls, {}).get('fields') or []) if x['name'] == fld), '')
            m = re.search(r'\[(\d+)\]', ftype)
            srcs = [x['name'] for x in walk(ln) if x.get('k') == 'Var' and x['name'] in clamps]
            if not m or not srcs:
                continue
            ctx.analysed(f)
            extent = int(m.group(1))
            bound, line = clamps[srcs[0]]
            site = 'copy of %s into %s' % (srcs[0], fld)
            if bound < extent:
                r.violation(f['qname'], site, '%s is cut to %d bytes before it is copied into the %d-byte field %s: the value the token was given is reported truncated' % (srcs[0], bound, extent, fld), file=f['file'], line=line)
            elif bound > extent:
                r.violation(f['qname'], site, '%s may have %d bytes when it is copied into the %d-byte field %s' % (srcs[0], bound, extent, fld), file=f['file'], line=line)
            else:
                r.ok(f['qname'], site, 'clamped to %d = the size of the field' % extent, file=f['file'], line=c['l'])
        # the same with the clamp written as a selected minimum: n = size > B ? B : size (any of the four forms), copied with length n - B is the clamp bound
        msites = [c for c in calls(f['body']) if c.get('callee') in ('strncpy', 'memcpy') and len(c.get('args', [])) == 3 and c['args'][0].get('k') == 'Member' and c['args'][0].get('fq')
                  and not any(x.get('k') == 'Var' and x['name'] in clamps for x in walk(c['args'][2]))]
        if msites:
            from engine import bounds
            sf = SiteFacts(f, prog, trigger=lambda e, st: (e['l'], canon(e['args'][2], st.env)) if any(e is s for s in msites) else None, track_facts=r'^$')
            sf.go()
            for (line, n), hits in sorted(sf.sites.items()):
                mo = bounds.min_operands(n)
                if not mo:
                    continue
                consts = [int(x[7:]) if x.startswith('sizeof:') else int(x) for x in mo if re.fullmatch(r'(sizeof:)?\d+', x)]
                c = [s_ for s_ in msites if s_['l'] == line][0]
                cls, fld = c['args'][0]['fq'].rsplit('::', 1)
                ftype = next((x['type'] for x in (prog.classes.get(cls, {}).get('fields') or []) if x['name'] == fld), '')
                m = re.search(r'\[(\d+)\]', ftype)
                if not m or len(consts) != 1:
                    continue
                ctx.analysed(f)
                extent, bound = int(m.group(1)), consts[0]
                site = 'copy of min(%s) into %s' % (','.join(mo), fld)
                if bound != extent:
                    r.violation(f['qname'], site, 'the value is clamped to %d bytes for the %d-byte field %s' % (bound, extent, fld), file=f['file'], line=line)
                else:
                    r.ok(f['qname'], site, 'clamped to %d = the size of the field' % extent, file=f['file'], line=line)
        # the same through a file-local helper copy(field, length, value) that clamps `value` to `length` and copies it into `field`: at each call the length is the size of the field
        for c in calls(f['body']):
            if not c.get('callee') or '::' in c['callee']:
                continue
            hs = [h for h in prog.fns(c['callee']) if not h.get('class') and h.get('body') is not None and os.path.basename(h['file']) == os.path.basename(f['file'])]
            if not hs:
                continue
            h = hs[0]
            pn = [pp['var']['name'] if pp.get('var') else None for pp in h['params']]
            dest = [pn.index(x['name']) for k in calls(h['body']) if k.get('callee') in ('strncpy', 'memcpy') and k.get('args') for x in walk(k['args'][0]) if x.get('k') == 'Var' and x['name'] in pn]
            bound = [pn.index(x['name']) for k in calls(h['body'], short='resize') if k.get('args') for x in walk(k['args'][0]) if x.get('k') == 'Var' and x['name'] in pn]
            if not dest or not bound or max(dest[0], bound[0]) >= len(c.get('args', [])):
                continue
            dst, ln = c['args'][dest[0]], c['args'][bound[0]]
            while dst.get('k') in ('Cast', 'Paren') and dst.get('e') is not None:
                dst = dst['e']
            if dst.get('k') != 'Member' or not dst.get('fq'):
                continue
            cls, fld = dst['fq'].rsplit('::', 1)
            ftype = next((x['type'] for x in (prog.classes.get(cls, {}).get('fields') or []) if x['name'] == fld), '')
            m = re.search(r'\[(\d+)\]', ftype)
            v = tables.const_eval(ln)
            if not m or v is None:
                continue
            ctx.analysed(f)
            extent = int(m.group(1))
            site = 'copy into %s through %s' % (fld, c['callee'])
            if v != extent:
                r.violation(f['qname'], site, 'the value is clamped to %d bytes for the %d-byte field %s' % (v, extent, fld), file=f['file'], line=c['l'])
            else:
                r.ok(f['qname'], site, 'clamped to %d = the size of the field' % extent, file=f['file'], line=c['l'])


def run(ctx):
    prog = ctx.prog('ossl-file')
    r1_inittoken(ctx, prog)
    r2_createtoken(ctx, prog)
    r3_keying(ctx, prog)
    r4_free_slot(ctx, prog)
    from rules import c17
    c17.r3_underflow(ctx, prog, rule_id='C14.R3b', text='the slot id is cut from the token serial without an unsigned wrap (a token without serial yet must not make C_Initialize throw)', floor=1,
                     only={g['qname'] for g in prog.functions.values() if os.path.basename(g['file']) == 'SlotManager.cpp'})
    # isolation between tokens and persistence of PINs rest on rules other properties own: the per-slot scans of the session table (login state of token A must not depend on
    # sessions of token B), the blob that a PIN change persists, and the session handle session objects are booked under
    from rules import c03, c04, c11
    c03.r7_table_scans(ctx, prog, rule_id='C14.R5')
    c04.r2_oldpin(ctx, prog, rule_id='C14.R6')
    c11.r6_store_key(ctx, prog, rule_id='C14.R7')
    c11.r5_predicates(ctx, prog, rule_id='C14.R8')
    r9_fields_filled(ctx, prog)


MUTANTS = [
    dict(name='isinitialized-follows-validity', rule='C14.R4', file='src/lib/slot_mgr/Token.cpp', after='bool Token::isInitialized()',
         old='\tif (token == NULL) return false;\n\n\treturn true;', new='\tif (token == NULL) return false;\n\n\treturn token->isValid();'),
    dict(name='inittoken-no-session-test', rule='C14.R1', file='src/lib/SoftHSM.cpp', after='CK_RV SoftHSM::C_InitToken(',
         old='\tif (sessionManager->haveSession(slotID))\n\t{\n\t\treturn CKR_SESSION_EXISTS;\n\t}\n', new=''),
    dict(name='createtoken-reset-before-pin-check', rule='C14.R2', file='src/lib/slot_mgr/Token.cpp', after='CK_RV Token::createToken(',
         old='if (sdm->getSOPINBlob().size() > 0 && !sdm->loginSO(soPIN))', new='if (sdm->getSOPINBlob().size() > 0 && token->resetToken(labelByteStr) && !sdm->loginSO(soPIN))'),
    dict(name='createtoken-failed-reset-keeps-so-login', rule='C14.R2', file='src/lib/slot_mgr/Token.cpp', after='CK_RV Token::createToken(',
         old='\t\t\tsdm->logout();\n', new=''),
    dict(name='resettoken-keeps-user-pin', rule='C14.R2', file='src/lib/object_store/OSToken.cpp', after='bool OSToken::resetToken(',
         old='\tif (tokenObject->attributeExists(CKA_OS_USERPIN) &&\n\t    !tokenObject->deleteAttribute(CKA_OS_USERPIN))', new='\tif (false)'),
    dict(name='closesession-internal-handle', rule='C14.R3', file='src/lib/SoftHSM.cpp', after='CK_RV SoftHSM::C_CloseSession(',
         old='\tsessionObjectStore->sessionClosed(hSession);', new='\tsessionObjectStore->sessionClosed(session->getHandle());'),
    dict(name='slotmanager-no-short-serial-test', rule='C14.R3b', file='src/lib/slot_mgr/SlotManager.cpp',
         old='if (s.size() < 8)', new='if (false)'),
]
