"""C07 — key usage flags, key type and mechanism restrictions are enforced (DESIGN.md §3 C07)."""
import re
from engine.rulelib import *
from engine import tables
from rules.c03 import outcomes, ev_calls

EXPLANATION = (
    "Static decision of the guard matrix behind C07. For each of the operation-start functions (the helpers C_EncryptInit/C_DecryptInit/C_SignInit/C_VerifyInit dispatch to, and C_WrapKey, C_UnwrapKey, C_DeriveKey) and for every "
    "mechanism constant of the code base, the function is analysed path-sensitively with the mechanism fixed; at the point where the operation becomes active (setOpType / the wrap, unwrap or derive helper call) the dominating facts "
    "must contain R1a the key's usage attribute of that operation, R1b isMechanismPermitted(key, mechanism), and R1c a restriction of the key's CKA_KEY_TYPE to the types PKCS#11 admits for that mechanism (one-sided: stricter is fine). "
    "R2: SoftHSM::isMechanismPermitted evaluated over {in advertised list} x {key list empty} x {in key list} returns true exactly for advertised and (empty or listed); every entry point that takes a mechanism and can act on it "
    "(digest and key generation included) succeeds only under a membership test against the advertised list. R3: three-way table agreement — every mechanism a start function accepts is in the mechanism table and has a C_GetMechanismInfo case, "
    "and the advertised list is written only by prepareSupportedMecahnisms. R4: with re-authentication pending no private-key output call is reached in AsymSign/AsymSignUpdate/AsymSignFinal/AsymDecrypt; the flag is raised at Init for "
    "CKA_ALWAYS_AUTHENTICATE keys and lowered only by a successful context-specific login or resetOp. Not decided: parameter value checks inside the mechanisms.")
ASSUMPTIONS = ['the admissible key types per mechanism are encoded from PKCS#11 v2.40/v3.0 in rules/c07.py (semantic data, generous where the standard is)', 'key class is implied by the usage attribute for the Init functions (only private/secret keys carry CKA_SIGN/CKA_DECRYPT, only public/secret keys CKA_VERIFY/CKA_ENCRYPT)']
TECHNIQUE = 'custom static analysis over the clang AST: path-sensitive dominating-fact analysis of every operation-start function for every mechanism constant (extracted guard matrix vs PKCS#11 table), finite-domain evaluation of isMechanismPermitted, table agreement'
LEVEL_TEXT = ('The whole matrix (start function x mechanism) is extracted from the current source and every cell is checked for the three guards; this is exhaustive over the mechanisms the code knows and is exactly the matrix the property quantifies over. '
              'It decides that a guard dominates the start on every path, not what the guards compute on run-time values.')
LEVEL_NOTE = 'trusted: clang front end, normaliser, abstract interpreter; the PKCS#11 mechanism/key-type table in rules/c07.py'

API = {'C_EncryptInit': 'CKA_ENCRYPT', 'C_DecryptInit': 'CKA_DECRYPT', 'C_SignInit': 'CKA_SIGN', 'C_VerifyInit': 'CKA_VERIFY', 'C_WrapKey': 'CKA_WRAP', 'C_UnwrapKey': 'CKA_UNWRAP', 'C_DeriveKey': 'CKA_DERIVE'}
SUCC = {'C_WrapKey': ('WrapKeySym', 'WrapKeyAsym'), 'C_UnwrapKey': ('UnwrapKeySym', 'UnwrapKeyAsym'), 'C_DeriveKey': ('deriveDH', 'deriveECDH', 'deriveEDDSA', 'deriveSymmetric')}

HMAC = {'CKM_MD5_HMAC': 'CKK_MD5_HMAC', 'CKM_SHA_1_HMAC': 'CKK_SHA_1_HMAC', 'CKM_SHA224_HMAC': 'CKK_SHA224_HMAC', 'CKM_SHA256_HMAC': 'CKK_SHA256_HMAC', 'CKM_SHA384_HMAC': 'CKK_SHA384_HMAC', 'CKM_SHA512_HMAC': 'CKK_SHA512_HMAC'}
SECRET_TYPES = {'CKK_GENERIC_SECRET', 'CKK_AES', 'CKK_DES', 'CKK_DES2', 'CKK_DES3'} | set(HMAC.values())


def admissible(m):
    """Key types PKCS#11 admits for mechanism m (None = mechanism unknown to the table)."""
    if m in HMAC:
        return {'CKK_GENERIC_SECRET', HMAC[m]}
    if m == 'CKM_GOSTR3411_HMAC':
        return {'CKK_GENERIC_SECRET', 'CKK_GOST28147'}
    if m.startswith('CKM_DES3_'):
        return {'CKK_DES2', 'CKK_DES3'}
    if m.startswith('CKM_DES_'):
        return {'CKK_DES'}
    if m.startswith('CKM_AES_'):
        return {'CKK_AES'}
    if 'RSA' in m:
        return {'CKK_RSA'}
    if m.startswith('CKM_DSA'):
        return {'CKK_DSA'}
    if m.startswith('CKM_ECDSA'):
        return {'CKK_EC', 'CKK_ECDSA'}
    if m == 'CKM_EDDSA':
        return {'CKK_EC_EDWARDS'}
    if m.startswith('CKM_GOSTR3410'):
        return {'CKK_GOSTR3410'}
    if m == 'CKM_DH_PKCS_DERIVE':
        return {'CKK_DH'}
    if m == 'CKM_ECDH1_DERIVE':
        return {'CKK_EC', 'CKK_ECDSA', 'CKK_EC_EDWARDS', 'CKK_EC_MONTGOMERY'}
    if m.startswith('CKM_CONCATENATE_'):
        return 'SECRET_CLASS'      # any secret key: the restriction is on CKA_CLASS, not on the key type
    return None


def des3_unwrap_is_dead(prog):
    """Validates the one named exception of R1c: UnwrapKeySym gives the 3DES unwrapping key a bit length of 8 bits per byte, which
    OSSLDES/BotanDES reject (they know 56/112/168), so C_UnwrapKey(CKM_DES3_CBC_PAD) fails with CKR_MECHANISM_INVALID for every key
    (replayed: repro/triage/f21_unwrap_des3_keytype.c).  The exception lapses as soon as that stops being true."""
    f = prog.fn('SoftHSM::UnwrapKeySym')
    o = Outcomes(f, prog, cenv={param_name(f, 0) + '.mechanism': macro(prog, 'CKM_DES3_CBC_PAD')}, record_calls={'setBitLen'})
    o.CAP = 32
    o.go()
    args = {e[2][1] for oc in o.outcomes for e in oc['events'] if e[1] == 'setBitLen'}
    g = [x for x in prog.fns('OSSLDES::getCipher') + prog.fns('BotanDES::getCipher')]
    ok_sizes = set()
    for fn in g:
        for n in walk(fn['body']):
            if n.get('k') == 'Bin' and n['op'] in ('==', '!=') and n['b'].get('k') == 'Lit' and 'getBitLen' in canon(n['a']):
                ok_sizes.add(n['b']['v'])
            elif n.get('k') == 'Switch' and 'getBitLen' in canon(n['c']):
                from engine import tables
                for labels, body in tables.switch_cases(n):
                    ok_sizes |= {int(l) for l in labels if l is not None and str(l).isdigit()}
    return bool(args) and all(a.endswith('*8)') or a.endswith('*8') for a in args) and ok_sizes and not (ok_sizes & {128, 192})


R1C_EXCEPTIONS = {('SoftHSM::C_UnwrapKey', 'CKM_DES3_CBC_PAD'): (des3_unwrap_is_dead, 'C_UnwrapKey(CKM_DES3_CBC_PAD) can never start successfully: UnwrapKeySym sets the 3DES key length to 8 bits per byte and the DES back end rejects 128/192-bit keys, so every key ends in CKR_MECHANISM_INVALID (replay: repro/triage/f21_unwrap_des3_keytype.c -> 0x70)')}


def start_functions(prog):
    out = []
    for api, usage in API.items():
        f = prog.fn('SoftHSM::' + api)
        hs = [c for c in calls(f['body']) if c.get('own') and (c.get('callee') or '').startswith('SoftHSM::') and len(c.get('args', [])) == 3
              and [canon(a) for a in c['args']] == [param_name(f, 0), param_name(f, 1), param_name(f, 2)]]
        fs = []
        for c in hs:
            g = prog.fn(c['callee'])
            if g not in fs and list(calls(g['body'], short='setOpType')):
                fs.append(g)
        if not fs:
            fs = [f]
        for g in fs:
            out.append((api, usage, g))
    return out


def matrix(ctx, prog):
    """{(function qname): {mechanism: dict(hits, key, pm, usage)}} — one path-sensitive run per (function, mechanism)."""
    M = macros(prog)
    mechs = {n: v for n, v in M.items() if n.startswith('CKM_')}
    res = {}
    for api, usage, g in start_functions(prog):
        ctx.analysed(g)
        ho = handle_objects(g)
        hk = param_name(g, 2)
        if hk not in ho:
            raise AnalysisBroken('%s: the key object is not obtained from parameter %s' % (g['qname'], hk))
        key = ho[hk][0][0]
        pm = param_name(g, 1)

        def trig(e, st, api=api):
            if e.get('k') != 'Call':
                return None
            c = short(e.get('callee'))
            if api in SUCC:
                return 'start' if c in SUCC[api] else None
            if c == 'setOpType' and canon(e['args'][0]) != 'SESSION_OP_NONE':
                return 'start'
            return None
        row = {}
        paths = 0
        for m, v in sorted(mechs.items()):
            sf = SiteFacts(g, prog, trigger=trig, cenv={pm + '.mechanism': v}, track_facts=r'CKA_KEY_TYPE|CKA_CLASS|%s|isMechanismPermitted' % usage)
            sf.CAP = 48
            sf.go()
            paths += sf.paths_returned
            hits = sf.sites.get('start', [])
            if hits:
                row[m] = hits
        res[g['qname']] = dict(api=api, usage=usage, fn=g, key=key, pm=pm, row=row, paths=paths)
    return res


def r1_matrix(ctx, prog, mx):
    ra = ctx.rule('C07.R1a', 'the key\'s usage attribute of the operation dominates the start, for every accepted mechanism', floor=60, engine='E1+E2')
    rb = ctx.rule('C07.R1b', 'isMechanismPermitted(key, mechanism) dominates the start, for every accepted mechanism', floor=60, engine='E1+E2')
    rc = ctx.rule('C07.R1c', 'the key type is restricted to the types the mechanism admits (PKCS#11), for every accepted mechanism', floor=60, engine='E1+E2')
    for q, d in sorted(mx.items()):
        f, key, pm, usage = d['fn'], d['key'], d['pm'], d['usage']
        ra.paths += d['paths']
        ktrx = re.compile(r'EQ\(getUnsignedLongValue\(%s,CKA_KEY_TYPE,\w+\),(CKK_\w+)\)' % re.escape(key))
        if not d['row']:
            ra.undecided(q, 'mechanisms', 'no mechanism reaches the start of the operation', file=f['file'], line=f['line'])
        for m, hits in sorted(d['row'].items()):
            line = hits[0]['line']
            bad = [h for h in hits if not has_fact(h['facts'], r'getBooleanValue\(%s,%s,\w+\)' % (re.escape(key), usage))]
            open_default = [h for h in hits if not has_fact(h['facts'], r'getBooleanValue\(%s,%s,(false|0)\)' % (re.escape(key), usage))]
            if bad:
                ra.violation(q, m, 'with mechanism %s the operation starts on a path where %s of the key is not known to be true' % (m, usage), file=f['file'], line=line, path=bad[0]['path'])
            elif open_default:
                ra.violation(q, m, 'with mechanism %s the usage test reads %s with a default other than false: an object that has no %s attribute at all passes the usage check' % (m, usage, usage), file=f['file'], line=line, path=open_default[0]['path'])
            else:
                ra.ok(q, m, '%d states' % len(hits), file=f['file'], line=line)
            bad = [h for h in hits if not has_fact(h['facts'], r'isMechanismPermitted\(this,%s,%s\)' % (re.escape(key), re.escape(pm)))]
            if bad:
                rb.violation(q, m, 'with mechanism %s the operation starts without isMechanismPermitted(key, mechanism): neither the key\'s CKA_ALLOWED_MECHANISMS nor the configured mechanism list is consulted' % m, file=f['file'], line=line, path=bad[0]['path'])
            else:
                rb.ok(q, m, '%d states' % len(hits), file=f['file'], line=line)
            adm = admissible(m)
            if adm is None:
                rc.undecided(q, m, 'mechanism %s is accepted by the code but unknown to the PKCS#11 table of rules/c07.py' % m, file=f['file'], line=line)
                continue
            badk = None
            if adm == 'SECRET_CLASS':
                badc = [h for h in hits if not has_fact(h['facts'], r'EQ\(getUnsignedLongValue\(%s,CKA_CLASS,\w+\),CKO_SECRET_KEY\)' % re.escape(key))]
                if badc:
                    rc.violation(q, m, 'mechanism %s starts on a path where the base key is not known to be a secret key' % m, file=f['file'], line=line, path=badc[0]['path'])
                else:
                    rc.ok(q, m, 'base key class restricted to CKO_SECRET_KEY', file=f['file'], line=line)
                continue
            for h in hits:
                pos = [ktrx.fullmatch(a).group(1) for a, t in h['facts'] if t and ktrx.fullmatch(a)]
                if not pos:
                    neg = sorted(ktrx.fullmatch(a).group(1) for a, t in h['facts'] if not t and ktrx.fullmatch(a))
                    badk = ('any key type%s' % (' except ' + ','.join(neg) if neg else ''), h)
                elif pos[0] not in adm:
                    badk = (pos[0], h)
                if badk:
                    break
            if badk and (q, m) in R1C_EXCEPTIONS and R1C_EXCEPTIONS[(q, m)][0](prog):
                rc.excepted(q, m, R1C_EXCEPTIONS[(q, m)][1], file=f['file'], line=line)
            elif badk:
                rc.violation(q, m, 'mechanism %s starts with a key of %s; PKCS#11 admits only %s' % (m, badk[0], sorted(adm)), file=f['file'], line=line, path=badk[1]['path'])
            else:
                rc.ok(q, m, 'admitted key types are within %s' % sorted(adm), file=f['file'], line=line)
    ra.exhaustive = rb.exhaustive = rc.exhaustive = True


def r2_config(ctx, prog, mx):
    r = ctx.rule('C07.R2', 'the advertised (configured) mechanism list gates every entry point that acts on a mechanism', floor=11, engine='E1+E2')
    f = prog.fn('SoftHSM::isMechanismPermitted')
    ctx.analysed(f)
    for d in product({'adv': [0, 1], 'empty': [0, 1], 'listed': [0, 1]}):
        cenv = {re.compile(r'operator==\(find@?\d*\(begin\(\w+\),end\(\w+\),.*\),end\(\w+\)\)'): 1 - d['adv'], re.compile(r'operator!=\(find@?\d*\(begin\(\w+\),end\(\w+\),.*\),end\(\w+\)\)'): d['adv'],
                re.compile(r'empty\(\w+\)'): d['empty'], re.compile(r'operator!=\(find\(\w+,.*\),end\(\w+\)\)'): d['listed'], re.compile(r'operator==\(find\(\w+,.*\),end\(\w+\)\)'): 1 - d['listed'],
                re.compile(r'size\(\w+\)'): 0 if d['empty'] else 2}
        o = outcomes(f, prog, cenv)
        r.paths += len(o.outcomes)
        want = bool(d['adv'] and (d['empty'] or d['listed']))
        site = 'isMechanismPermitted advertised=%d key-list-empty=%d in-key-list=%d' % (d['adv'], d['empty'], d['listed'])
        und = [oc for oc in o.outcomes if oc['retv'] is None]
        bad = [oc for oc in o.outcomes if oc['retv'] is not None and bool(oc['retv']) != want]
        if und:
            r.undecided(f['qname'], site, 'the result is not decided by the finite-domain assignment (returns %s)' % und[0]['ret'], file=f['file'], line=und[0]['line'])
        elif bad:
            r.violation(f['qname'], site, 'returns %s, required %s: %s' % (bool(bad[0]['retv']), want, 'a mechanism removed by slots.mechanisms is re-enabled by the key\'s own list' if not d['adv'] else 'the key\'s CKA_ALLOWED_MECHANISMS is not honoured'),
                        file=f['file'], line=bad[0]['line'], path=bad[0]['path'])
        else:
            r.ok(f['qname'], site, str(want), file=f['file'], line=f['line'])
    # un-keyed entry points: success only after a membership test against supportedMechanisms
    for name in ('SoftHSM::C_DigestInit', 'SoftHSM::C_GenerateKey', 'SoftHSM::C_GenerateKeyPair'):
        f = prog.fn(name)
        ctx.analysed(f)
        pm = param_name(f, 1)

        def trig(e, st):
            if e.get('k') != 'Call':
                return None
            c = short(e.get('callee'))
            if c == 'setOpType' and canon(e['args'][0]) != 'SESSION_OP_NONE':
                return 'start'
            if c.startswith('generate') and (e.get('callee') or '').startswith('SoftHSM::'):
                return 'start'
            return None
        sf = SiteFacts(f, prog, trigger=trig, track_facts=r'supportedMechanisms|isMechanism')
        sf.CAP = 48
        sf.go()
        r.paths += sf.paths_returned
        hits = sf.sites.get('start', [])
        site = 'configured list consulted'
        if not hits:
            r.undecided(name, site, 'no path reaches the start of the operation', file=f['file'], line=f['line'])
            continue
        bad = [h for h in hits if not any(('supportedMechanisms' in a or a.startswith('isMechanism')) and pm in a for a, t in h['facts'])]
        if bad:
            r.violation(name, site, 'the operation starts on a path that never tests %s->mechanism against the advertised list: a mechanism removed by slots.mechanisms is still accepted here' % pm, file=f['file'], line=bad[0]['line'], path=bad[0]['path'])
        else:
            r.ok(name, site, '%d states' % len(hits), file=f['file'], line=hits[0]['line'])
    # the query entry point takes a mechanism too: it answers CKR_OK only for a mechanism of the configured list
    f = prog.fn('SoftHSM::C_GetMechanismInfo')
    ctx.analysed(f)
    pm = param_name(f, 1)

    def rtrig(s_, st):
        return 'answer' if ret_class(s_, st) == 'OK' else None
    sf = SiteFacts(f, prog, return_trigger=rtrig, track_facts=r'supportedMechanisms')
    sf.CAP = 48
    sf.go()
    r.paths += sf.paths_returned
    hits = sf.sites.get('answer', [])
    site = 'configured list consulted'
    bad = [h for h in hits if not any('supportedMechanisms' in a and re.search(r'\b%s\b' % re.escape(pm), a) for a, t in h['facts'])]
    if not hits:
        r.undecided(f['qname'], site, 'no path answers CKR_OK', file=f['file'], line=f['line'])
    elif bad:
        r.violation(f['qname'], site, 'C_GetMechanismInfo answers CKR_OK on a path that never tests %s against the configured mechanism list: a mechanism that slots.mechanisms removed is still described as available' % pm,
                    file=f['file'], line=bad[0]['line'], path=bad[0]['path'])
    else:
        r.ok(f['qname'], site, '%d answering paths' % len(hits), file=f['file'], line=f['line'])


def r3_tables(ctx, prog, mx):
    r = ctx.rule('C07.R3', 'accepted mechanisms, the mechanism table and C_GetMechanismInfo agree; only prepareSupportedMecahnisms writes the advertised list', floor=40, engine='E1+E5')
    prep = prog.fn('SoftHSM::prepareSupportedMecahnisms')
    table = set()
    for n in walk(prep['body']):
        if n.get('k') == 'Assign' and n['a'].get('k') == 'Call' and short(n['a'].get('callee')) == 'operator[]':
            v = n['b']
            nm = tables.lit_name(v)
            if nm and nm.startswith('CKM_'):
                table.add(nm)
    info = prog.fn('SoftHSM::C_GetMechanismInfo')
    cases = set()
    for n in walk(info['body']):
        if n.get('k') == 'Switch':
            for labels, _ in tables.switch_cases(n):
                cases |= {l for l in labels if l.startswith('CKM_')}
    if len(table) < 30 or len(cases) < 30:
        raise AnalysisBroken('mechanism table (%d) / C_GetMechanismInfo cases (%d) not extracted' % (len(table), len(cases)))
    accepted = {}
    for q, d in mx.items():
        for m in d['row']:
            accepted.setdefault(m, []).append(q)
    for m, qs in sorted(accepted.items()):
        if m not in table:
            r.violation(qs[0], m, '%s is accepted by %s but is not in the mechanism table: it can be used although C_GetMechanismList never advertises it and slots.mechanisms cannot remove it' % (m, ', '.join(x.split('::')[-1] for x in qs)), file=mx[qs[0]]['fn']['file'], line=mx[qs[0]]['fn']['line'])
        elif m not in cases:
            r.violation('SoftHSM::C_GetMechanismInfo', m, '%s is accepted and advertised but has no C_GetMechanismInfo case' % m, file=info['file'], line=info['line'])
        else:
            r.ok(qs[0], m, 'in table and info', file=mx[qs[0]]['fn']['file'], line=mx[qs[0]]['fn']['line'])
    for m in sorted(table - cases):
        r.violation('SoftHSM::C_GetMechanismInfo', m, '%s is advertised but has no C_GetMechanismInfo case' % m, file=info['file'], line=info['line'])
    r.rows = len(table)
    # who writes supportedMechanisms
    allowed = {'SoftHSM::prepareSupportedMecahnisms', 'SoftHSM::SoftHSM', 'SoftHSM::~SoftHSM', 'SoftHSM::C_Finalize', 'SoftHSM::C_Initialize'}
    for g in prog.functions.values():
        for n in walk(g['body']):
            hit = None
            if n.get('k') == 'Call' and n.get('recv') is not None and n['recv'].get('k') == 'Member' and n['recv'].get('fq') == 'SoftHSM::supportedMechanisms' and not n.get('const') and not is_pure_name(short(n.get('callee'))):
                hit = n
            if n.get('k') == 'Assign' and n['a'].get('k') == 'Member' and n['a'].get('fq') == 'SoftHSM::supportedMechanisms':
                hit = n
            if hit is not None:
                site = 'write of supportedMechanisms in ' + g['qname'].split('::')[-1]
                if g['qname'] in allowed:
                    r.ok(g['qname'], site, short(hit.get('callee')) if hit.get('k') == 'Call' else '=', file=g['file'], line=hit['l'])
                else:
                    r.violation(g['qname'], site, 'the advertised mechanism list is modified outside its set-up code', file=g['file'], line=hit['l'])


def r4_reauth(ctx, prog):
    r = ctx.rule('C07.R4', 'no private-key output while re-authentication is pending; the flag is raised for CKA_ALWAYS_AUTHENTICATE keys', floor=6, engine='E1+E3 finite-domain')
    for name, outcalls in (('AsymSign', ('sign', 'signUpdate', 'signFinal')), ('AsymSignUpdate', ('signUpdate',)), ('AsymSignFinal', ('signFinal',)), ('AsymDecrypt', ('decrypt',))):
        f = prog.fn(name)
        ctx.analysed(f)
        sv = param_name(f, 0)
        o = outcomes(f, prog, {re.compile(r'getReAuthentication\(%s\)' % sv): 1}, record=set(outcalls) | {'resetOp'})
        r.paths += len(o.outcomes)
        bad = [oc for oc in o.outcomes if any(e[1] in outcalls for e in oc['events']) or may_succeed(oc) and oc['ret'] == 'CKR_OK' and False]
        bad += [oc for oc in o.outcomes if oc['ret'] == 'CKR_OK' and not any(a == 'p' for a in ())  and any(e[1] in outcalls for e in oc['events'])]
        site = 're-authentication pending'
        if bad:
            r.violation(name, site, 'with re-authentication pending a path reaches %s: a CKA_ALWAYS_AUTHENTICATE key produces output without a context-specific login' % [e[1] for e in bad[0]['events'] if e[1] in outcalls][0], file=f['file'], line=bad[0]['line'], path=bad[0]['path'])
        else:
            r.ok(name, site, '%d paths' % len(o.outcomes), file=f['file'], line=f['line'])
    for name in ('SoftHSM::AsymSignInit', 'SoftHSM::AsymDecryptInit'):
        f = prog.fn(name)
        ctx.analysed(f)
        key = handle_objects(f)[param_name(f, 2)][0][0]
        mechs = macros(prog)
        def starting(fn):
            o = Outcomes(fn, prog, cenv={re.compile(r'getBooleanValue\(%s,CKA_ALWAYS_AUTHENTICATE,\w+\)' % key): 1, param_name(f, 1) + '.mechanism': mechs['CKM_RSA_PKCS']}, record_calls={'setReAuthentication', 'setOpType'})
            o.CAP = 48
            o.go()
            r.paths += len(o.outcomes)
            return [oc for oc in o.outcomes if any(e[1] == 'setOpType' and e[2][1] != 'SESSION_OP_NONE' for e in oc['events'])]
        started = starting(f)
        if not started:
            # the block that installs the operation may live in a file-local void helper: the same statements, analysed in place
            from engine.facts import inline_void_helpers
            g = inline_void_helpers(prog, only=f)
            if g is not None:
                started = starting(g)
        bad = [oc for oc in started if not any(e[1] == 'setReAuthentication' and e[2][1] in ('true', '1') for e in oc['events'])]
        site = 'flag raised at Init'
        if not started:
            r.undecided(name, site, 'no path starts the operation under the assignment', file=f['file'], line=f['line'])
        elif bad:
            r.violation(name, site, 'an operation with a CKA_ALWAYS_AUTHENTICATE key starts without setReAuthentication(true)', file=f['file'], line=bad[0]['line'], path=bad[0]['path'])
        else:
            r.ok(name, site, '%d starting paths' % len(started), file=f['file'], line=f['line'])
    # who lowers the flag
    for g in prog.functions.values():
        for c in calls(g['body'], short='setReAuthentication'):
            if canon(c['args'][0]) in ('false', '0'):
                site = 'setReAuthentication(false) in ' + g['qname'].split('::')[-1]
                if g['qname'] == 'SoftHSM::C_Login':
                    r.ok(g['qname'], site, 'after a successful context-specific login (C03.R2)', file=g['file'], line=c['l'])
                else:
                    r.violation(g['qname'], site, 'the re-authentication requirement is dropped outside C_Login', file=g['file'], line=c['l'])


def r5_list_effects(ctx, prog):
    """The configured list is applied with operations that really change it: on the negative branch the element is removed by a mutating container operation
    (list::remove / erase), on the positive branch added; an algorithm call whose result is dropped (std::remove without erase) changes nothing."""
    r = ctx.rule('C07.R5', 'slots.mechanisms is applied by mutating operations on the advertised list (no algorithm call with a dropped result)', floor=2, engine='E2')
    f = prog.fn('SoftHSM::prepareSupportedMecahnisms')
    ctx.analysed(f)
    def is_list(e):
        return e is not None and canon(e).endswith('supportedMechanisms')
    neg = [n for n in walk(f['body']) if n.get('k') == 'If' and re.fullmatch(r'!?negative', canon(n['c']))]
    removing, adding = [], []
    for n in neg:
        pos_branch, neg_branch = (n['t'], n.get('e')) if canon(n['c']) == '!negative' else (n.get('e'), n['t'])
        for br, acc in ((neg_branch, removing), (pos_branch, adding)):
            if br is None:
                continue
            for c in calls(br):
                acc.append(c)
    site = 'negative entries are removed'
    rem_ok = [c for c in removing if short(c.get('callee')) in ('remove', 'erase', 'remove_if') and is_list(c.get('recv'))]
    dropped = [c for c in calls(f['body']) if (c.get('callee') or '').startswith('std::') and short(c.get('callee')) in ('remove', 'remove_if', 'unique') and c.get('recv') is None]
    used = set()
    for n in walk(f['body']):
        if n.get('k') in ('Assign', 'Decl', 'Return', 'Call'):
            for key in ('b', 'e'):
                if isinstance(n.get(key), dict):
                    used |= {id(x) for x in walk(n[key])}
            for d in n.get('decls', []) if n.get('k') == 'Decl' else []:
                if d.get('init') is not None:
                    used |= {id(x) for x in walk(d['init'])}
            if n.get('k') == 'Call':
                for a in n.get('args', []):
                    used |= {id(x) for x in walk(a)}
    dropped = [c for c in dropped if id(c) not in used]
    if dropped:
        r.violation(f['qname'], site, 'std::%s at line %s is called for its side effect and its result is dropped: the algorithm only shifts elements, the list keeps its length and its last element can never be removed — a mechanism named in a negative slots.mechanisms list stays advertised and accepted' % (short(dropped[0]['callee']), dropped[0]['l']),
                    file=f['file'], line=dropped[0]['l'])
    elif not rem_ok:
        r.violation(f['qname'], site, 'no mutating removal (list::remove / erase) on supportedMechanisms in the negative branch', file=f['file'], line=f['line'])
    else:
        r.ok(f['qname'], site, 'supportedMechanisms.%s' % short(rem_ok[0]['callee']), file=f['file'], line=rem_ok[0]['l'])
    add_ok = [c for c in adding if short(c.get('callee')) in ('push_back', 'insert', 'emplace_back') and is_list(c.get('recv'))]
    if add_ok:
        r.ok(f['qname'], 'positive entries are added', 'supportedMechanisms.%s' % short(add_ok[0]['callee']), file=f['file'], line=add_ok[0]['l'])
    else:
        r.violation(f['qname'], 'positive entries are added', 'no insertion into supportedMechanisms in the positive branch', file=f['file'], line=f['line'])


def r6_reauthenticate(ctx, prog, rule_id='C07.R6'):
    """C_Login(CKU_CONTEXT_SPECIFIC) clears the pending re-authentication only after the PIN of the user who IS logged in was verified: Token::reAuthenticate is evaluated over
    (SO logged in, user logged in, nobody) x (verification succeeds, fails).  CKR_OK needs a successful verification against the PIN blob of the logged-in user type - the blob is
    read off the SecureDataManager method that is called (which member it hands to the PBE check), not off its name."""
    r = ctx.rule(rule_id, 'context-specific login succeeds only after the PIN of the logged-in user type was verified', floor=6, engine='E1 finite-domain evaluation + callee summaries')
    f = prog.fn('Token::reAuthenticate')
    ctx.analysed(f)
    # which PIN blob each verification method checks
    blob = {}
    for g in prog.methods_of('SecureDataManager'):
        if g['body'] is None:
            continue
        used = {x['field'] if x.get('k') == 'Member' else x.get('name') for c in calls(g['body']) for a in c.get('args', []) if a is not None for x in walk(a)
                if (x.get('k') == 'Member' and x.get('field') in ('soEncryptedKey', 'userEncryptedKey')) or (x.get('k') == 'Var' and x.get('name') in ('soEncryptedKey', 'userEncryptedKey'))}
        if len(used) == 1 and short(g['qname']).lower().startswith('reauth'):
            blob[short(g['qname'])] = next(iter(used))
    if len(blob) < 2:
        r.undecided(f['qname'], 'verification methods', 'the methods that verify a PIN against soEncryptedKey / userEncryptedKey were not found', file=f['file'], line=f['line'])
        return
    for who, so, user in (('SO logged in', 1, 0), ('user logged in', 0, 1), ('nobody logged in', 0, 0)):
        for res in (0, 1):
            cenv = {re.compile(r'isSOLoggedIn(@\d+)?\(\w+\)'): so, re.compile(r'isUserLoggedIn(@\d+)?\(\w+\)'): user, 'sdm': 1, re.compile(r'getTokenFlags(@\d+)?\(.*\)'): 1}
            for m in blob:
                cenv[re.compile(r'%s(@\d+)?\(.*\)' % m)] = res
            o = Outcomes(f, prog, cenv=cenv, record_calls=set(blob))
            o.CAP = 64
            o.go()
            r.paths += len(o.outcomes)
            site = '%s, verification %s' % (who, 'succeeds' if res else 'fails')
            bad = None
            want = {'SO logged in': 'soEncryptedKey', 'user logged in': 'userEncryptedKey'}.get(who)
            for oc in o.outcomes:
                made = [e[1] for e in oc['events'] if e[0] == 'call' and e[1] in blob]
                ok = oc.get('ret') == 'CKR_OK'
                if ok and (not made or not res):
                    bad = (oc, 'answers CKR_OK although %s' % ('no PIN verification was made' if not made else 'the verification failed'))
                elif made and want and any(blob[m] != want for m in made):
                    bad = (oc, 'verifies the PIN against %s while the %s' % ('/'.join(sorted({blob[m] for m in made})), who.replace(' logged in', ' is logged in')))
                elif made and want is None:
                    bad = (oc, 'verifies a PIN although nobody is logged in')
                if bad:
                    break
            if not o.outcomes:
                r.undecided(f['qname'], site, 'no path', file=f['file'], line=f['line'])
            elif bad:
                r.violation(f['qname'], site, 'Token::reAuthenticate %s: a pending CKA_ALWAYS_AUTHENTICATE operation is released without the right PIN' % bad[1], file=f['file'], line=bad[0]['line'], path=bad[0]['path'])
            else:
                r.ok(f['qname'], site, '%d paths' % len(o.outcomes), file=f['file'], line=f['line'])


def r7_second_keys(ctx, prog):
    """A key that reaches an operation through a mechanism parameter (the second key of CKM_CONCATENATE_BASE_AND_KEY) is key material of that operation like the key named in the
    call: its value is read only after isMechanismPermitted() succeeded for *that* object - the entry point cannot have checked it, it never sees the handle."""
    r = ctx.rule('C07.R7', 'a key taken from a mechanism parameter is checked against its CKA_ALLOWED_MECHANISMS / the configured list before its value is read', floor=1, engine='E2 dominance')
    from rules import common_handles as ch
    cka_value = macro(prog, 'CKA_VALUE')
    n = 0
    for f in sorted(prog.functions.values(), key=lambda f: (f['file'], f['line'])):
        if f.get('class') != 'SoftHSM' or f['body'] is None or not handle_objects(f) or unanalysable(f):
            continue
        objs = [o for o in (ch.analyse(prog, f) or []) if 'mechparam' in o['kinds'] or 'other' in o['kinds']]
        for o in objs:
            var = o['var']

            def trig(e, st):
                if e.get('k') == 'Call' and short(e.get('callee')) == 'getByteStringValue' and e.get('recv') is not None and canon(e['recv']) == var and e.get('args') and tables.const_eval(e['args'][0]) == cka_value:
                    return ('read', e['l'])
                return None
            sf = SiteFacts(f, prog, trigger=trig, track_facts=r'isMechanismPermitted').go()
            r.paths += sf.paths_returned
            for (_, line), hits in sorted(sf.sites.items()):
                n += 1
                ctx.analysed(f)
                site = 'value of %s read@%d' % (var, line)
                bad = [h for h in hits if not any(t and re.match(r'isMechanismPermitted(@\d+)?\((this,)?%s,' % re.escape(var), a) for a, t in h['facts'])]
                if bad:
                    r.violation(f['qname'], site, 'the value of %s, a key named by the mechanism parameter, is read on a path where isMechanismPermitted(%s, ...) has not succeeded: a key restricted to other mechanisms (CKA_ALLOWED_MECHANISMS) is fed into this derivation' % (var, var),
                                file=f['file'], line=line, path=bad[0]['path'])
                else:
                    r.ok(f['qname'], site, 'after isMechanismPermitted(%s, ...)' % var, file=f['file'], line=line)
    if n == 0:
        r.undecided('SoftHSM', 'second keys', 'no key taken from a mechanism parameter was found (CKM_CONCATENATE_BASE_AND_KEY gone?)', file='', line=0)


def r4b_always_authenticate_everywhere(ctx, prog):
    """"A private-key operation on a key with CKA_ALWAYS_AUTHENTICATE true cannot produce output before a successful context-specific login": every entry point that lets a
    private key compute something - C_SignInit, C_DecryptInit, but also C_UnwrapKey (an RSA decryption whose result becomes a key) and C_DeriveKey (a DH / ECDH agreement) - looks
    at the attribute of the key it is about to use."""
    r = ctx.rule('C07.R4b', 'every entry point that performs a private-key operation consults CKA_ALWAYS_AUTHENTICATE of the key', floor=4, engine='E5 must-read')
    aa = macro(prog, 'CKA_ALWAYS_AUTHENTICATE')
    for q in ('SoftHSM::AsymSignInit', 'SoftHSM::AsymDecryptInit', 'SoftHSM::C_UnwrapKey', 'SoftHSM::C_DeriveKey'):
        f = prog.fn(q)
        ctx.analysed(f)
        reads = [c for c in calls(f['body'], short='getBooleanValue') if c.get('args') and tables.const_eval(c['args'][0]) == aa]
        if not reads:
            # the statements may have been moved into a file-local free helper called from here (one level)
            import os
            for c in calls(f['body']):
                for g in prog.by_name.get(c.get('callee') or '', []):
                    if not g.get('class') and g.get('body') is not None and os.path.basename(g['file']) == os.path.basename(f['file']):
                        reads += [x for x in calls(g['body'], short='getBooleanValue') if x.get('args') and tables.const_eval(x['args'][0]) == aa]
        site = 'CKA_ALWAYS_AUTHENTICATE of the key'
        if reads:
            r.ok(q, site, 'read at line %s' % reads[0]['l'], file=f['file'], line=reads[0]['l'])
        else:
            r.violation(q, site, '%s performs a private-key operation (RSA decryption of the wrapped key / key agreement) without looking at CKA_ALWAYS_AUTHENTICATE: a key that C_Sign and C_Decrypt refuse to use without a context-specific login produces its result here' % short(q),
                        file=f['file'], line=f['line'])


def r4c_flag_cleared_on_success_only(ctx, prog):
    """The pending re-authentication of a CKA_ALWAYS_AUTHENTICATE operation is cleared by C_Login(CKU_CONTEXT_SPECIFIC) only when Token::reAuthenticate answered CKR_OK - any
    other answer (wrong PIN, nobody logged in any more, a general error) leaves the operation locked."""
    r = ctx.rule('C07.R4c', 'C_Login clears the pending re-authentication only after reAuthenticate() returned CKR_OK', floor=1, engine='E2 dominance')
    f = prog.fn('SoftHSM::C_Login')
    ctx.analysed(f)

    def trig(e, st):
        if e.get('k') == 'Call' and short(e.get('callee')) == 'setReAuthentication' and e.get('args') and canon(e['args'][0], st.env) in ('false', '0'):
            return ('clear', e['l'])
        return None
    sf = SiteFacts(f, prog, trigger=trig, track_facts=r'reAuthenticate|^EQ\(rv,').go()
    r.paths += sf.paths_returned
    if not sf.sites:
        r.undecided(f['qname'], 'clearing of the flag', 'no setReAuthentication(false) found', file=f['file'], line=f['line'])
    for (_, line), hits in sorted(sf.sites.items()):
        site = 'setReAuthentication(false)@%d' % line
        bad = [h for h in hits if not (any(t and re.fullmatch(r'EQ\(reAuthenticate(@\d+)?\(.*\),CKR_OK\)', a) for a, t in h['facts']) or h['env'].get('rv') == 'CKR_OK' or ('EQ(rv,CKR_OK)', True) in h['facts'])]
        if bad:
            r.violation(f['qname'], site, 'the pending re-authentication is cleared on a path where reAuthenticate() is not known to have returned CKR_OK: a context-specific login that fails (e.g. with CKR_OPERATION_NOT_INITIALIZED after a logout) releases the always-authenticate key',
                        file=f['file'], line=line, path=bad[0]['path'])
        else:
            r.ok(f['qname'], site, 'only under reAuthenticate() == CKR_OK', file=f['file'], line=line)


def run(ctx):
    prog = ctx.prog('ossl-file')
    mx = matrix(ctx, prog)
    r1_matrix(ctx, prog, mx)
    r2_config(ctx, prog, mx)
    r3_tables(ctx, prog, mx)
    r4_reauth(ctx, prog)
    r5_list_effects(ctx, prog)
    r6_reauthenticate(ctx, prog)
    r7_second_keys(ctx, prog)
    r4b_always_authenticate_everywhere(ctx, prog)
    r4c_flag_cleared_on_success_only(ctx, prog)


MUTANTS = [
    dict(name='getmechanisminfo-ignores-configuration', rule='C07.R2', file='src/lib/SoftHSM.cpp', after='CK_RV SoftHSM::C_GetMechanismInfo(',
         old='\tif (std::find(supportedMechanisms.begin(), supportedMechanisms.end(), type) == supportedMechanisms.end())\n\t\treturn CKR_MECHANISM_INVALID;\n', new=''),
    dict(name='negative-list-std-remove-without-erase', rule='C07.R5', file='src/lib/SoftHSM.cpp', after='void SoftHSM::prepareSupportedMecahnisms',
         old='\t\t\t\t\tsupportedMechanisms.remove(mechanism);', new='\t\t\t\t\tstd::remove(supportedMechanisms.begin(), supportedMechanisms.end(), mechanism);'),
    dict(name='macsigninit-no-sign-flag', rule='C07.R1a', function='MacSignInit', file='src/lib/SoftHSM.cpp', after='CK_RV SoftHSM::MacSignInit(',
         old='\tif (!key->getBooleanValue(CKA_SIGN, false))\n\t\treturn CKR_KEY_FUNCTION_NOT_PERMITTED;\n', new=''),
    dict(name='symencryptinit-no-permitted', rule='C07.R1b', function='SymEncryptInit', file='src/lib/SoftHSM.cpp', after='CK_RV SoftHSM::SymEncryptInit(',
         old='\tif (!isMechanismPermitted(key, pMechanism))\n\t\treturn CKR_MECHANISM_INVALID;\n', new=''),
    dict(name='aescbc-no-keytype-test', rule='C07.R1c', function='SymEncryptInit', file='src/lib/SoftHSM.cpp', after='CK_RV SoftHSM::SymEncryptInit(',
         old='\t\tcase CKM_AES_CBC:\n\t\t\tif (keyType != CKK_AES)\n\t\t\t\treturn CKR_KEY_TYPE_INCONSISTENT;\n', new='\t\tcase CKM_AES_CBC:\n'),
    dict(name='unwrap-aeskeywrap-demorgan', rule='C07.R1c', function='C_UnwrapKey', file='src/lib/SoftHSM.cpp', after='CK_RV SoftHSM::C_UnwrapKey',
         old='if (pMechanism->mechanism == CKM_AES_KEY_WRAP && unwrapKey->getUnsignedLongValue(CKA_KEY_TYPE, CKK_VENDOR_DEFINED) != CKK_AES)',
         new='if (pMechanism->mechanism == CKM_AES_KEY_WRAP && unwrapKey->getUnsignedLongValue(CKA_KEY_TYPE, CKK_VENDOR_DEFINED) != CKK_AES && unwrapKey->getUnsignedLongValue(CKA_CLASS, CKO_VENDOR_DEFINED) != CKO_SECRET_KEY)'),
    dict(name='permitted-key-list-overrides-config', rule='C07.R2', file='src/lib/SoftHSM.cpp', after='bool SoftHSM::isMechanismPermitted(',
         old='\tif (it == mechs.end())\n\t\treturn false;\n', new='\tbool enabled = (it != mechs.end());\n'),
    dict(name='asymsign-no-reauth-gate', rule='C07.R4', function='AsymSign', file='src/lib/SoftHSM.cpp', after='static CK_RV AsymSign(',
         old='\tif (session->getReAuthentication())\n\t{\n\t\tsession->resetOp();\n\t\treturn CKR_USER_NOT_LOGGED_IN;\n\t}\n', new=''),
]
