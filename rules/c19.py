"""C19 — object search is sound and complete (DESIGN.md §3 C19; narrow)."""
import re
from engine.rulelib import *
from engine import bounds
from rules.c03 import outcomes, ev_calls
from rules import c01

EXPLANATION = (
    "Static decision of the structural clauses of C19. R1: the visibility filter of C_FindObjectsInit evaluated for every session state (shared with C01.R5). R2: the candidate set is filled only from this session's token and from the "
    "session-object store restricted to this session's slot; the slot-restricted getObjects inserts an object only when hasSlotID holds. R3 (finite-domain evaluation of the matching loop): for a one-entry template the object is registered as a "
    "match exactly when the attribute exists, is of a kind the loop handles (boolean, unsigned long, byte string), has the template's length and equals the template's value — absent attribute, foreign kind, wrong size and unequal value all mean "
    "no match; the empty template matches every visible object. R4: invalid objects are skipped. R5: the batching primitives — retrieveHandles stores handle i only under i < count, a zero-sized request neither returns nor discards anything, and "
    "C_FindObjects discards exactly as many handles as it returned. Exactly-once delivery over arbitrary batch sequences is a value-level statement about std::set iteration and is not decided beyond these conditions.")
ASSUMPTIONS = ['std::set semantics', 'ByteString equality compares contents', 'the finite domain covers the guard predicates of the matching loop']
TECHNIQUE = 'custom static analysis over the clang AST: finite-domain path enumeration of the search filter, the matching loop and the batching primitives, source-of-candidates ownership rule'
LEVEL_TEXT = ('The matching loop is evaluated on all abstract paths for every combination of {attribute present, kind, size relation, value relation, template length}; the candidate sources and batching primitives are decided structurally. '
              'This covers the soundness/completeness of the per-object decision; the exactly-once property over batch sequences is only constrained, not proved.')
LEVEL_NOTE = 'trusted: clang front end, normaliser, abstract interpreter; libstdc++ container semantics'

REG = {'addTokenObject', 'addSessionObject', 'insert'}


def r1_filter(ctx, prog):
    # same evaluation as C01.R5, reported under this property
    sub = type(ctx)('C19', ctx.tier, mutated=ctx.mutated, quiet=True)
    sub._progs = ctx._progs
    c01.r5_find(sub, prog)
    src = sub.rules[0]
    r = ctx.rule('C19.R1', 'private objects are returned only in the USER states (visibility filter)', floor=4, engine='E1+E3 finite-domain')
    r.instances, r.paths = src.instances, src.paths


def r2_sources(ctx, prog):
    r = ctx.rule('C19.R2', 'candidates come only from this session\'s token and this slot\'s session objects', floor=3, engine='E5/E6')
    f = prog.fn('SoftHSM::C_FindObjectsInit')
    ctx.analysed(f)
    sess = [v for v, c in local_from_call(f, 'getSession')][0]
    tok = [v for v, c in local_from_call(f, 'getToken') if c.get('recv') is not None and canon(c['recv']) == sess]
    slot = [v for v, c in local_from_call(f, 'getSlot') if c.get('recv') is not None and canon(c['recv']) == sess]
    n = 0
    for c in calls(f['body'], short='getObjects'):
        n += 1
        rcv = canon(c['recv']) if c.get('recv') is not None else ''
        site = 'getObjects on %s' % rcv
        if rcv in tok and len(c['args']) == 1:
            r.ok(f['qname'], site, 'this session\'s token', file=f['file'], line=c['l'])
        elif rcv == 'sessionObjectStore' and len(c['args']) == 2 and re.fullmatch(r'getSlotID\((%s)\)' % '|'.join(slot or ['\0']), canon(c['args'][0])):
            r.ok(f['qname'], site, 'session objects of slot %s' % canon(c['args'][0]), file=f['file'], line=c['l'])
        else:
            r.violation(f['qname'], site, 'candidate objects are collected with %s(%s): not restricted to the token/slot of this session, objects of other tokens can be returned' % (c.get('callee'), ', '.join(canon(a) for a in c['args'])), file=f['file'], line=c['l'])
    if n < 2:
        r.violation(f['qname'], 'sources', 'only %d candidate source(s): token objects or session objects are missing from the search' % n, file=f['file'], line=f['line'])
    g = prog.fn('SessionObjectStore::getObjects', sig='CK_SLOT_ID,std::set<OSObject *> &')
    ctx.analysed(g)
    seen_insert = False
    for has in (1, 0):
        o = outcomes(g, prog, {re.compile(r'hasSlotID\(.*\)'): has}, record={'insert'}, rounds=2)
        r.paths += len(o.outcomes)
        ins = [oc for oc in o.outcomes if ev_calls(oc, 'insert')]
        site = 'slot filter hasSlotID=%d' % has
        if has:
            seen_insert = bool(ins)
            # every path that went through the loop body must have inserted: a path with the loop marker and no insert drops an object of this slot
            miss = [oc for oc in o.outcomes if ':L' in oc['path'] and not ev_calls(oc, 'insert')]
            if not ins:
                r.violation(g['qname'], site, 'objects of this slot are never added to the result set', file=g['file'], line=g['line'])
            elif miss:
                r.violation(g['qname'], site, 'an object of this slot is not returned on some path', file=g['file'], line=miss[0]['line'], path=miss[0]['path'])
            else:
                r.ok(g['qname'], site, '%d paths' % len(o.outcomes), file=g['file'], line=g['line'])
        elif ins:
            r.violation(g['qname'], site, 'an object of another slot is returned', file=g['file'], line=ins[0]['line'], path=ins[0]['path'])
        elif not seen_insert:
            r.undecided(g['qname'], site, 'vacuous: no insertion is ever observed', file=g['file'], line=g['line'])
        else:
            r.ok(g['qname'], site, '%d paths, none inserts' % len(o.outcomes), file=g['file'], line=g['line'])


def r3_matching(ctx, prog):
    r = ctx.rule('C19.R3', 'typed template matching for every kind an attribute can be stored as: match iff present, same length, equal value', floor=30, engine='E1+E3 finite-domain')
    f = prog.fn('SoftHSM::C_FindObjectsInit')
    ctx.analysed(f)
    pt, pc_ = param_name(f, 1), param_name(f, 2)
    USER = macro(prog, 'CKS_RW_USER_FUNCTIONS')
    base = {'isInitialised': 1, re.compile(r'getState\(\w+\)'): USER, re.compile(r'getOpType\(\w+\)'): 0, re.compile(r'isValid\(operator\*\(\w+\)\)'): 1,
            re.compile(r'getBooleanValue\(operator\*\(\w+\),CKA_PRIVATE,\w+\)'): 0}
    T = r'%s\[\w+\]' % pt

    def run(cenv, site, want, rounds=2):
        env = dict(base)
        env.update(cenv)
        o = Outcomes(f, prog, cenv=env, record_calls=REG)
        o.CAP = 48
        o.LOOP_ROUNDS = rounds
        o.go()
        r.paths += len(o.outcomes)
        looped = [oc for oc in o.outcomes if oc['path'].count(':L') >= 1 and may_succeed(oc)]
        reg = [oc for oc in looped if any(e[1] in ('addTokenObject', 'addSessionObject') for e in oc['events'])]
        if not looped:
            r.undecided(f['qname'], site, 'no successful path iterates over an object', file=f['file'], line=f['line'])
        elif want and not reg:
            r.violation(f['qname'], site, 'a matching object is not registered as a result: the search is incomplete', file=f['file'], line=looped[0]['line'], path=looped[0]['path'])
        elif not want and reg:
            e = [e for e in reg[0]['events'] if e[1] in ('addTokenObject', 'addSessionObject')][0]
            r.violation(f['qname'], site, 'an object that does not match the template entry (%s) is registered as a result at line %s: the search is unsound' % (site, e[3]), file=f['file'], line=e[3], path=reg[0]['path'])
        else:
            r.ok(f['qname'], site, '%d paths, %s' % (len(looped), 'match' if want else 'no match'), file=f['file'], line=f['line'])
    # empty template
    run({pc_: 0}, 'empty template', True)
    one = {pc_: 1}
    kinds = {'boolean': r'isBooleanAttribute\(.*\)', 'ulong': r'isUnsignedLongAttribute\(.*\)', 'bytes': r'isByteStringAttribute\(.*\)',
             'mechset': r'isMechanismTypeSetAttribute\(.*\)', 'attrmap': r'isAttributeMapAttribute\(.*\)'}

    def kind_env(k):
        return {re.compile(rx): int(k == kk) for kk, rx in kinds.items()}
    # absent attribute / foreign kind
    e = dict(one)
    e[re.compile(r'attributeExists\(operator\*\(\w+\),.*\)')] = 0
    run(e, 'attribute absent', False)
    e = dict(one)
    e[re.compile(r'attributeExists\(operator\*\(\w+\),.*\)')] = 1
    e.update(kind_env('other'))
    run(e, 'attribute of no known kind', False)
    ex = {re.compile(r'attributeExists\(operator\*\(\w+\),.*\)'): 1}
    # mechanism set (CKA_ALLOWED_MECHANISMS): the template value is an array of mechanism types, compared as a set; a length that is no multiple of the element size never matches
    for tlen in (16, 12):
        for eq in (0, 1):
            e = dict(one)
            e.update(ex)
            e.update(kind_env('mechset'))
            e.update({re.compile(T + r'\.ulValueLen'): tlen, re.compile(r'operator!=\(getMechanismTypeSetValue\(.*\),\w+\)'): 1 - eq, re.compile(r'operator==\(getMechanismTypeSetValue\(.*\),\w+\)'): eq})
            run(e, 'mechanism set equal=%d template-len=%d' % (eq, tlen), tlen == 16 and bool(eq))
    # attribute map (CKA_WRAP_TEMPLATE / CKA_UNWRAP_TEMPLATE): match iff the file-local comparison of the stored map with the template's attribute array says so
    maphelpers = [c['callee'] for c in calls(f['body']) if c.get('callee') and '::' not in c['callee'] and any(short(x.get('callee')) == 'getAttributeMapValue' for a in c.get('args', []) for x in walk(a) if x.get('k') == 'Call')]
    for eq in (0, 1):
        e = dict(one)
        e.update(ex)
        e.update(kind_env('attrmap'))
        for hname in set(maphelpers):
            e[re.compile(r'%s(@\d+)?\(.*\)' % re.escape(hname))] = eq
        if not maphelpers:
            r.violation(f['qname'], 'attribute map equal=%d' % eq, 'an attribute that is stored as an attribute map is compared with nothing: an object cannot be found by CKA_WRAP_TEMPLATE / CKA_UNWRAP_TEMPLATE although the template equals its attribute', file=f['file'], line=f['line']) if eq else None
            continue
        run(e, 'attribute map equal=%d' % eq, bool(eq))
    # boolean
    for tlen in (1, 8, 0):
        for stored in (0, 1):
            for tv in (0, 1):
                e = dict(one)
                e.update(ex)
                e.update(kind_env('boolean'))
                e.update({re.compile(T + r'\.ulValueLen'): tlen, re.compile(r'\*' + T + r'\.pValue'): tv, re.compile(r'getBooleanValue\((?!operator\*).*\)'): stored})
                run(e, 'boolean stored=%d template=%d len=%d' % (stored, tv, tlen), tlen == 1 and stored == tv)
    # unsigned long
    for tlen in (8, 4, 0):
        for eq in (0, 1):
            e = dict(one)
            e.update(ex)
            e.update(kind_env('ulong'))
            e.update({re.compile(T + r'\.ulValueLen'): tlen, re.compile(r'\*' + T + r'\.pValue'): 77, re.compile(r'getUnsignedLongValue\((?!operator\*).*\)'): 77 if eq else 78})
            run(e, 'ulong equal=%d len=%d' % (eq, tlen), tlen == 8 and bool(eq))
    # byte string
    for size in (0, 5):
        for tlen in (0, 5, 7):
            for eq in (0, 1):
                e = dict(one)
                e.update(ex)
                e.update(kind_env('bytes'))
                e.update({re.compile(T + r'\.ulValueLen'): tlen, re.compile(r'size\(bsAttrValue\)|size\(\w*[aA]ttr\w*\)'): size, re.compile(r'operator!=\(\w+,\w+\)'): 1 - eq, re.compile(r'operator==\(\w+,\w+\)'): eq,
                          re.compile(r'size\(getByteStringValue\(.*\)\)'): size})
                want = size == tlen and (tlen == 0 or bool(eq))
                if size == tlen == 0 and not eq:
                    want = True
                run(e, 'bytes stored-size=%d template-len=%d equal=%d' % (size, tlen, eq), want)
    # two-entry templates on a concrete index: the object is a result iff *both* entries match, whatever their order (a mismatch must not be forgotten by a later entry)
    def entry_env(j, kind, match):
        J = r'%s\[%d\]' % (pt, j)
        A = r'.*%s\.type.*' % J
        env = {re.compile(r'attributeExists\(operator\*\(\w+\),%s\.type\)' % J): 1,
               re.compile(r'isBooleanAttribute\(%s\)' % A): int(kind == 'boolean'), re.compile(r'isUnsignedLongAttribute\(%s\)' % A): int(kind == 'ulong'), re.compile(r'isByteStringAttribute\(%s\)' % A): 0,
               re.compile(J + r'\.ulValueLen'): 1 if kind == 'boolean' else 8}
        if kind == 'boolean':
            env.update({re.compile(r'\*' + J + r'\.pValue'): 1, re.compile(r'getBooleanValue\(getAttribute\(%s\)\)' % A): 1 if match else 0})
        else:
            env.update({re.compile(r'\*' + J + r'\.pValue'): 77, re.compile(r'getUnsignedLongValue\(getAttribute\(%s\)\)' % A): 77 if match else 78})
        return env
    for k0 in ('boolean', 'ulong'):
        for k1 in ('boolean', 'ulong'):
            for m0 in (0, 1):
                for m1 in (0, 1):
                    e = {pc_: 2, '#concrete-loops': 1}
                    e.update(entry_env(0, k0, m0))
                    e.update(entry_env(1, k1, m1))
                    run(e, 'two entries: %s %s, %s %s' % (k0, 'matches' if m0 else 'differs', k1, 'matches' if m1 else 'differs'), bool(m0 and m1), rounds=3)
    r.exhaustive = True


def r4_invalid(ctx, prog):
    r = ctx.rule('C19.R4', 'invalid (destroyed, corrupt) objects are never returned', floor=1, engine='E1+E3 finite-domain')
    f = prog.fn('SoftHSM::C_FindObjectsInit')
    USER = macro(prog, 'CKS_RW_USER_FUNCTIONS')
    o = Outcomes(f, prog, cenv={'isInitialised': 1, re.compile(r'getState\(\w+\)'): USER, re.compile(r'getOpType\(\w+\)'): 0, re.compile(r'isValid\(operator\*\(\w+\)\)'): 0, param_name(f, 2): 0}, record_calls=REG)
    o.CAP = 48
    o.LOOP_ROUNDS = 2
    o.go()
    r.paths += len(o.outcomes)
    bad = [oc for oc in o.outcomes if any(e[1] in ('addTokenObject', 'addSessionObject') for e in oc['events'])]
    if bad:
        r.violation(f['qname'], 'invalid object', 'an object whose isValid() is false is registered as a search result', file=f['file'], line=bad[0]['line'], path=bad[0]['path'])
    else:
        r.ok(f['qname'], 'invalid object', '%d paths' % len(o.outcomes), file=f['file'], line=f['line'])


def r5_batching(ctx, prog):
    r = ctx.rule('C19.R5', 'batching primitives: bounded store, zero-sized request is a no-op, as many handles discarded as returned', floor=5, engine='E1+E3+E8')
    f = prog.fn('FindOperation::retrieveHandles')
    ctx.analysed(f)
    ph, cnt = param_name(f, 0), param_name(f, 1)

    def atrig(lhs, rhs, st):
        if lhs.get('k') == 'Index' and lhs['base'].get('k') == 'Var' and lhs['base']['name'] == ph:
            idx = lhs['idx']
            return ('store', canon(idx['e'] if idx.get('k') == 'Un' else idx, st.env))
        return None
    sf = SiteFacts(f, prog, assign_trigger=atrig, track_facts=r'^LT\(')
    sf.assign_pre = True
    sf.go()
    r.paths += sf.paths_returned
    for (_, idx), hits in sf.sites.items():
        bad = [h for h in hits if not bounds.entails_le(idx + '+1', cnt, h['facts'], h['env']) and not (re.fullmatch(r'\d+', idx) and any(a == 'LT(%s,%s)' % (idx, cnt) and t for a, t in h['facts']))]
        site = 'store %s[%s]' % (ph, idx)
        if bad:
            r.violation(f['qname'], site, 'handle number %s is written although nothing entails %s < %s (the caller\'s array length)' % (idx, idx, cnt), file=f['file'], line=bad[0]['line'], path=bad[0]['path'])
        else:
            r.ok(f['qname'], site, 'index < %s' % cnt, file=f['file'], line=hits[0]['line'])
    if not sf.sites:
        r.undecided(f['qname'], 'store', 'no store through %s found' % ph, file=f['file'], line=f['line'])
    o = outcomes(f, prog, {cnt: 0, re.compile(r'operator!=\(\w+,end\(_handles\)\)'): 1}, rounds=2)
    bad = [oc for oc in o.outcomes if any(e[0] == 'write' and ph in e[1] for e in oc['events']) or oc['retv'] not in (0, None) or (oc['retv'] is None and oc['ret'] not in ('ulReturn', '0'))]
    site = 'zero-sized retrieve'
    (r.violation(f['qname'], site, 'a request for 0 handles writes a handle / reports a non-zero count', file=f['file'], line=bad[0]['line'], path=bad[0]['path']) if bad else r.ok(f['qname'], site, '%d paths' % len(o.outcomes), file=f['file'], line=f['line']))
    g = prog.fn('FindOperation::eraseHandles')
    ctx.analysed(g)
    o = outcomes(g, prog, {param_name(g, 0): 0, param_name(g, 1): 0, re.compile(r'operator!=\(\w+,end\(_handles\)\)'): 1}, record={'erase'}, rounds=3)
    r.paths += len(o.outcomes)
    bad = [oc for oc in o.outcomes if ev_calls(oc, 'erase')]
    site = 'zero-sized erase'
    (r.violation(g['qname'], site, 'eraseHandles(index, 0) erases handles: a C_FindObjects call with ulMaxObjectCount==0 throws away the rest of the search', file=g['file'], line=bad[0]['line'], path=bad[0]['path']) if bad else r.ok(g['qname'], site, '%d paths' % len(o.outcomes), file=g['file'], line=g['line']))
    # one handle requested, non-empty set: exactly one erase before the count stops the loop
    o = outcomes(g, prog, {param_name(g, 0): 0, param_name(g, 1): 1, re.compile(r'operator!=\(\w+,end\(_handles\)\)'): 1}, record={'erase'}, rounds=3)
    few = [oc for oc in o.outcomes if len(ev_calls(oc, 'erase')) == 0]
    site = 'erase of one handle'
    (r.violation(g['qname'], site, 'eraseHandles(0, 1) on a non-empty set erases nothing on some path: the same handle is returned again by the next C_FindObjects', file=g['file'], line=few[0]['line'], path=few[0]['path']) if few else r.ok(g['qname'], site, '%d paths' % len(o.outcomes), file=g['file'], line=g['line']))
    h = prog.fn('SoftHSM::C_FindObjects')
    ctx.analysed(h)
    o = outcomes(h, prog, {'isInitialised': 1}, record={'retrieveHandles', 'eraseHandles'})
    r.paths += len(o.outcomes)
    bad = None
    for oc in o.outcomes:
        if not may_succeed(oc):
            continue
        # whatever the form (one retrieve of up to ulMaxObjectCount handles, or a loop that takes them one at a time and skips the dead ones): every retrieveHandles(dst, n) is
        # followed, before the next one, by exactly one eraseHandles(0, m) with m = n or the number retrieve returned; only the last retrieve of a path may go without (it returned 0)
        seq = [e for e in oc['events'] if e[0] == 'call' and e[1] in ('retrieveHandles', 'eraseHandles')]
        wr = [e for e in oc['events'] if e[0] == 'write' and e[1] == '*' + param_name(h, 3)]
        rt = [e for e in seq if e[1] == 'retrieveHandles']
        if not wr:
            bad = ('reports no count', oc)
            continue
        i = 0
        while i < len(seq):
            e = seq[i]
            if e[1] != 'retrieveHandles':
                bad = ('discards handles (line %s) that no retrieveHandles returned before' % e[3], oc)
                break
            nxt = seq[i + 1] if i + 1 < len(seq) else None
            if nxt is None or nxt[1] == 'retrieveHandles':
                if nxt is not None:
                    bad = ('retrieves handles (line %s) that are not discarded before the next retrieve: they are returned again' % e[3], oc)
                    break
                i += 1
                continue
            n = e[2][2] if len(e[2]) > 2 else None
            if nxt[2][1] != '0' or not (nxt[2][2] == n or nxt[2][2] == '*' + param_name(h, 3) or nxt[2][2].startswith('retrieveHandles@')):
                bad = ('discards (%s, %s) handles, not exactly the ones just returned (%s)' % (nxt[2][1], nxt[2][2], n), oc)
                break
            i += 2
    site = 'C_FindObjects returns and discards the same handles'
    (r.violation(h['qname'], site, 'a successful path ' + bad[0], file=h['file'], line=bad[1]['line'], path=bad[1]['path']) if bad else r.ok(h['qname'], site, '%d paths' % len(o.outcomes), file=h['file'], line=h['line']))

    # C_FindObjects discards what it returned with eraseHandles (above): the retrieving side must then leave the result set alone, or every call drops further matches unseen
    MUT = {'erase', 'clear', 'insert', 'swap', 'operator=', 'emplace', 'extract', 'merge'}
    muts = [n for n in walk(f['body']) if (n.get('k') == 'Call' and short(n.get('callee')) in MUT and n.get('recv') is not None and n['recv'].get('k') == 'Member' and n['recv'].get('field') == '_handles')
            or (n.get('k') == 'Assign' and n['a'].get('k') == 'Member' and n['a'].get('field') == '_handles')]
    own = [c for c in calls(f['body']) if c.get('own') and not c.get('const') and '_handles' in Interp(f, prog).this_modset(c['callee'])]
    site = 'retrieveHandles only reads the result set'
    if muts or own:
        n0 = (muts or own)[0]
        r.violation(f['qname'], site, 'retrieveHandles itself removes handles from the result set (line %s) and C_FindObjects then discards the same number again with eraseHandles: every C_FindObjects call loses as many further matches as it returned' % n0['l'],
                    file=f['file'], line=n0['l'])
    else:
        r.ok(f['qname'], site, 'no mutating operation on _handles', file=f['file'], line=f['line'])


def r9_live_results(ctx, prog):
    """C_FindObjectsInit freezes the matching handles; objects can die before C_FindObjects hands them out (destroyed by another session, their session closed, the user logged
    out).  "Destroyed objects ... are never returned": every handle that C_FindObjects stores into the caller's array was looked up again in the handle table and found valid."""
    r = ctx.rule('C19.R9', 'C_FindObjects hands out only handles that still denote a valid object (re-validated at hand-out time)', floor=1, engine='E2 dominance')
    f = prog.fn('SoftHSM::C_FindObjects')
    ctx.analysed(f)
    ph = param_name(f, 1)

    def atrig(lhs, rhs, st):
        if lhs.get('k') == 'Index' and lhs['base'].get('k') == 'Var' and lhs['base']['name'] == ph:
            return ('store', lhs['l'])
        return None
    sf = SiteFacts(f, prog, assign_trigger=atrig, track_facts=r'^\w+$|^EQ\(\w+,NULL(_PTR)?\)$|isValid').go()
    r.paths += sf.paths_returned
    direct = [c for c in calls(f['body'], short='retrieveHandles') if c.get('args') and c['args'][0].get('k') == 'Var' and c['args'][0]['name'] == ph]
    if direct:
        r.violation(f['qname'], 'handles handed out', 'the frozen result set is copied straight into the caller\'s array (line %s): a handle whose object was destroyed, whose session was closed or that became invisible through C_Logout since C_FindObjectsInit is still returned' % direct[0]['l'],
                    file=f['file'], line=direct[0]['l'])
        return
    if not sf.sites:
        r.undecided(f['qname'], 'handles handed out', 'no store into %s found' % ph, file=f['file'], line=f['line'])
    for (_, line), hits in sorted(sf.sites.items()):
        objs = {v for v, c in local_from_call(f, 'getObject')}
        bad = [h for h in hits if not any(((v, True) in h['facts'] or ('EQ(%s,NULL)' % v, False) in h['facts'] or ('EQ(%s,NULL_PTR)' % v, False) in h['facts']) and ('isValid(%s)' % v, True) in h['facts'] for v in objs)]
        site = 'store into %s@%d' % (ph, line)
        if bad:
            r.violation(f['qname'], site, 'a handle is handed out on a path where it was not looked up again and found valid: an object destroyed (or hidden by C_Logout) since C_FindObjectsInit is returned', file=f['file'], line=line, path=bad[0]['path'])
        else:
            r.ok(f['qname'], site, 'after getObject() != NULL and isValid()', file=f['file'], line=line)


def r3b_map_comparison(ctx, prog):
    """The helper that R3 takes as the oracle for attribute-map attributes is itself decided on its finite domain of sizes: a search array matches a stored map only if it has
    exactly as many entries (a proper subset, or the empty array, is not *equal* to the attribute)."""
    r = ctx.rule('C19.R3b', 'the attribute-map comparison demands the same number of entries', floor=3, engine='E1 finite-domain evaluation')
    f0 = prog.fn('SoftHSM::C_FindObjectsInit')
    names = {c['callee'] for c in calls(f0['body']) if c.get('callee') and '::' not in c['callee'] and any(short(x.get('callee')) == 'getAttributeMapValue' for a in c.get('args', []) for x in walk(a) if x.get('k') == 'Call')}
    if not names:
        r.undecided(f0['qname'], 'attribute map helper', 'no helper compares an attribute map (C19.R3 reports the missing comparison)', file=f0['file'], line=f0['line'])
        return
    for hn in sorted(names):
        h = prog.fn(hn)
        ctx.analysed(h)
        pmap, pa, pl = param_name(h, 0), param_name(h, 1), param_name(h, 2)
        esz = 24          # sizeof(CK_ATTRIBUTE) on LP64
        for stored, given in ((2, 1), (2, 0), (1, 2), (2, 2)):
            o = Outcomes(h, prog, cenv={'size(%s)' % pmap: stored, pl: given * esz, pa: 1, re.compile(r'operator==\(find\(.*\),end\(.*\)\)'): 0, re.compile(r'operator!=\(find\(.*\),end\(.*\)\)'): 1})
            o.CAP = 64
            o.LOOP_ROUNDS = 1
            o.go()
            r.paths += len(o.outcomes)
            site = 'stored map of %d entries, search array of %d' % (stored, given)
            can_true = [oc for oc in o.outcomes if oc.get('ret') not in ('false', '0') and oc.get('retv') not in (0,)]
            if not o.outcomes:
                r.undecided(h['qname'], site, 'no path', file=h['file'], line=h['line'])
            elif stored != given and can_true:
                r.violation(h['qname'], site, 'a search array with %d entries can be found equal to a stored attribute map of %d entries: an object is returned whose attribute does not equal the template entry' % (given, stored),
                            file=h['file'], line=can_true[0]['line'], path=can_true[0]['path'])
            elif stored == given and not can_true:
                r.violation(h['qname'], site, 'equal sizes can never match: the object cannot be found by this attribute', file=h['file'], line=h['line'])
            else:
                r.ok(h['qname'], site, 'no match' if stored != given else 'can match', file=h['file'], line=h['line'])


def r10_batches_drain(ctx, prog):
    """"Each exactly once, split arbitrarily over the calls": C_FindObjects answers with fewer handles than the caller asked for only when the result set is exhausted.  With the
    request fixed to one handle and every handle found dead, the only way out of the hand-out loop is a retrieveHandles() that returned nothing."""
    r = ctx.rule('C19.R10', 'C_FindObjects reports fewer handles than requested only when the result set is exhausted (dead handles do not use up the batch)', floor=1, engine='E1+E3 finite-domain evaluation with recorded facts')
    f = prog.fn('SoftHSM::C_FindObjects')
    ctx.analysed(f)
    from rules.c13 import all_outcomes
    o = all_outcomes(f, prog, {'isInitialised': 1, param_name(f, 2): 1, re.compile(r'getObject(@\d+)?\(handleManager,.*\)'): 0}, {'retrieveHandles', 'eraseHandles'}, fact_rx=r'.*retrieveHandles.*')
    r.paths += len(o.outcomes)
    ok_paths = [oc for oc in o.outcomes if may_succeed(oc)]
    site = 'request for 1 handle, dead handles first'
    bad = None
    for oc in ok_paths:
        rts = [i for i, e in enumerate(oc['events']) if e[0] == 'call' and e[1] == 'retrieveHandles']
        if not rts:
            continue
        if any(e[0] == 'write' and re.match(r'%s\[' % re.escape(param_name(f, 1)), e[1]) for e in oc['events']):
            continue          # the one requested handle was handed out
        # the facts recorded after the last retrieve: did it return 0?
        tail = oc['events'][rts[-1]:]
        exhausted = any(e[0] == 'fact' and 'retrieveHandles' in e[1] and ((re.match(r'EQ\(retrieveHandles.*,0\)$', e[1]) and e[2]) or (re.match(r'retrieveHandles', e[1]) and e[2] is False)) for e in tail)
        if not exhausted:
            bad = oc
            break
    if not ok_paths:
        r.undecided(f['qname'], site, 'no successful path', file=f['file'], line=f['line'])
    elif bad:
        r.violation(f['qname'], site, 'with one handle requested and the next handles dead, C_FindObjects can return (0 handles) although the last retrieveHandles() still delivered one: the caller takes 0 for the end of the search and never sees the remaining matches',
                    file=f['file'], line=bad['line'], path=bad['path'])
    else:
        r.ok(f['qname'], site, '%d successful paths, each ends on an empty result set' % len(ok_paths), file=f['file'], line=f['line'])


def run(ctx):
    prog = ctx.prog('ossl-file')
    r1_filter(ctx, prog)
    r2_sources(ctx, prog)
    r3_matching(ctx, prog)
    r4_invalid(ctx, prog)
    r5_batching(ctx, prog)
    # which session objects a search can see depends on the (slot, session) they were booked under and on the session whose close removes them
    from rules import c11
    c11.r6_store_key(ctx, prog, rule_id='C19.R6')
    from rules import c03, c15
    c03.r3_lastclose(ctx, prog, rule_id='C19.R7')
    c03.r7_table_scans(ctx, prog, rule_id='C19.R7b')
    c15.r1_chain(ctx, prog, rule_id='C19.R8')
    r9_live_results(ctx, prog)
    r3b_map_comparison(ctx, prog)
    r10_batches_drain(ctx, prog)


MUTANTS = [
    dict(name='find-uses-slotless-getobjects', rule='C19.R2', file='src/lib/SoftHSM.cpp', after='CK_RV SoftHSM::C_FindObjectsInit(',
         old='sessionObjectStore->getObjects(slot->getSlotID(),allObjects);', new='sessionObjectStore->getObjects(allObjects);'),
    dict(name='match-flag-initialised-true-in-loop', rule='C19.R3', file='src/lib/SoftHSM.cpp', after='CK_RV SoftHSM::C_FindObjectsInit(',
         old='\t\t\tbAttrMatch = false;\n\n\t\t\tif (!(*it)->attributeExists(pTemplate[i].type))\n\t\t\t\tbreak;', new='\t\t\tbAttrMatch = true;\n\n\t\t\tif (!(*it)->attributeExists(pTemplate[i].type))\n\t\t\t\tbreak;'),
    dict(name='bytes-size-test-dropped', rule='C19.R3', file='src/lib/SoftHSM.cpp', after='CK_RV SoftHSM::C_FindObjectsInit(',
         old='\t\t\t\t\t\tif (bsAttrValue.size() != pTemplate[i].ulValueLen)\n\t\t\t\t\t\t\tbreak;\n', new=''),
    dict(name='ulong-size-test-dropped', rule='C19.R3', file='src/lib/SoftHSM.cpp', after='CK_RV SoftHSM::C_FindObjectsInit(',
         old='\t\t\t\t\tif (sizeof(CK_ULONG) != pTemplate[i].ulValueLen)\n\t\t\t\t\t\tbreak;\n', new=''),
    dict(name='invalid-objects-not-skipped', rule='C19.R4', file='src/lib/SoftHSM.cpp', after='CK_RV SoftHSM::C_FindObjectsInit(',
         old='\t\tif (!(*it)->isValid()) {\n\t\t\tDEBUG_MSG("Object is not valid, skipping");\n\t\t\tcontinue;\n\t\t}\n', new=''),
    dict(name='erasehandles-zero-count-erases-all', rule='C19.R5', file='src/lib/object_store/FindOperation.cpp',
         old='    for ( ; it != _handles.end() && ulReturn < ulCount; ++ulReturn) {\n', new='    while (it != _handles.end()) {\n        if (++ulReturn == ulCount) break;\n'),
    dict(name='retrievehandles-off-by-one', rule='C19.R5', file='src/lib/object_store/FindOperation.cpp', old='if (ulReturn >= ulCount) break;', new='if (ulReturn > ulCount) break;'),
]
