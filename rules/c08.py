"""C08 — attribute policy: read-only, one-way and history attributes hold (DESIGN.md §3 C08)."""
import re
from engine.rulelib import *
from engine import tables
from rules.c03 import outcomes, ev_calls
from rules.c02 import stored_bool

EXPLANATION = (
    "Static decision of the attribute-policy structure. R1: P11Attribute::update is evaluated over its whole guard domain {operation} x {ck2,ck4,ck6,ck8,ck11,ck17 bits} x {modifiable} x {trusted certificate}: the attribute-specific "
    "setter is reached only for combinations PKCS#11 allows (one-sided: stricter is fine). R2 (exhaustive table): the emulated P11*Obj::init chains give every (object class, attribute, check mask) row; identity, key-material and "
    "history attributes carry no may-be-modified bit, history attributes additionally carry the must-not-be-specified bits for create/generate/unwrap, the one-way flags carry their one-way bit. R3: the setters of the four history "
    "attributes never store and never succeed. R4: in every function that creates a key (generate, unwrap, derive, create) each committed transaction writes CKA_LOCAL exactly once with the literal the operation requires, "
    "CKA_KEY_GEN_MECHANISM once on generation, and — for secret and private keys — CKA_ALWAYS_SENSITIVE / CKA_NEVER_EXTRACTABLE exactly once with a value derived from the matching flag of the new key (generate), false (unwrap, create) "
    "or gated by the same history attribute of every base key (derive); C_CopyObject writes none of them. R5: C_SetAttributeValue / C_CopyObject / C_DestroyObject evaluated with CKA_MODIFIABLE / CKA_COPYABLE / CKA_DESTROYABLE false and "
    "with a privacy downgrade requested never reach the mutation; P11AttrTrusted stores true only while the SO is logged in. R6: every boolean attribute setter interprets a non-zero byte as true, as the guards in SoftHSM.cpp do.")
ASSUMPTIONS = ['the PKCS#11 footnote semantics encoded in rules/c08.py', 'objects are identified by the local variable that names them', 'callees outside /repo/src are uninterpreted']
TECHNIQUE = 'custom static analysis over the clang AST: finite-domain evaluation of the update engine and of attribute setters, exhaustive class x attribute mask table, per-path write-count typestate of the history attributes in all key-creating functions'
LEVEL_TEXT = ('The rule engine is evaluated on its complete guard domain, the policy table is enumerated exhaustively for all object classes, and every committed transaction of every key-creating function is checked path by path for its history-attribute writes. '
              'Histories of flag changes over several calls are reduced to these per-call invariants.')
LEVEL_NOTE = 'trusted: clang front end, normaliser, abstract interpreter; the footnote table in rules/c08.py'

HISTORY = ('CKA_LOCAL', 'CKA_KEY_GEN_MECHANISM', 'CKA_ALWAYS_SENSITIVE', 'CKA_NEVER_EXTRACTABLE')
READ_ONLY = ['CKA_CLASS', 'CKA_KEY_TYPE', 'CKA_CERTIFICATE_TYPE', 'CKA_VALUE_LEN', 'CKA_MODULUS', 'CKA_MODULUS_BITS', 'CKA_PUBLIC_EXPONENT', 'CKA_PRIVATE_EXPONENT', 'CKA_PRIME_1', 'CKA_PRIME_2',
             'CKA_EXPONENT_1', 'CKA_EXPONENT_2', 'CKA_COEFFICIENT', 'CKA_PRIME', 'CKA_SUBPRIME', 'CKA_BASE', 'CKA_PRIME_BITS', 'CKA_SUBPRIME_BITS', 'CKA_VALUE_BITS', 'CKA_EC_PARAMS', 'CKA_EC_POINT',
             'CKA_VALUE'] + list(HISTORY)
COPY_ONLY = ['CKA_TOKEN', 'CKA_PRIVATE', 'CKA_MODIFIABLE', 'CKA_DESTROYABLE']      # may change while copying (ck17) but never by C_SetAttributeValue


def ck(prog):
    d = {}
    for e in prog.enums.values():
        for en in e['enumerators']:
            if en['qname'].startswith('P11Attribute::ck'):
                d[en['name']] = en['v']
    if 'ck8' not in d:
        raise AnalysisBroken('P11Attribute::ck* enumerators not found')
    return d


def r1_engine(ctx, prog, rule_id='C08.R1'):
    r = ctx.rule(rule_id, 'the update engine reaches the attribute setter only for operation/footnote combinations PKCS#11 allows', floor=300, engine='E1+E3 finite-domain')
    f = prog.fn('P11Attribute::update')
    ctx.analysed(f)
    c = ck(prog)
    ops = {n: macro(prog, 'OBJECT_OP_' + n) for n in ('COPY', 'CREATE', 'DERIVE', 'GENERATE', 'SET', 'UNWRAP')}
    ops['<other>'] = max(ops.values()) + 1
    ops['<none>'] = 0
    pop = param_name(f, 4)
    bits = ['ck2', 'ck4', 'ck6', 'ck8', 'ck11', 'ck17']
    for opn, opv in ops.items():
        for mask in range(1 << len(bits)):
            checks = sum(c[b] for i, b in enumerate(bits) if mask >> i & 1)
            has = {b: bool(mask >> i & 1) for i, b in enumerate(bits)}
            for mod in (0, 1):
                for tc in (0, 1):
                    cenv = {pop: opv, 'checks': checks, 'isModifiable(this)': mod, 'isTrusted(this)': tc, 'osobject': 1, 'size': 0xFFFFFFFFFFFFFFFF, param_name(f, 2): 1,
                            re.compile(r'getUnsignedLongValue\(osobject,CKA_CLASS,\w+\)'): macro(prog, 'CKO_CERTIFICATE')}
                    o = outcomes(f, prog, cenv, record={'updateAttr'})
                    r.paths += len(o.outcomes)
                    allowed = {'SET': mod and not tc and (has['ck8'] or has['ck11']), 'COPY': has['ck8'] or has['ck11'] or has['ck17'], 'CREATE': not has['ck2'], 'GENERATE': not has['ck4'],
                               'UNWRAP': not has['ck6'], 'DERIVE': True}.get(opn, False)
                    reached = [oc for oc in o.outcomes if ev_calls(oc, 'updateAttr')]
                    if reached and not allowed:
                        site = 'op=%s %s modifiable=%d trusted-cert=%d' % (opn, '|'.join(b for b in bits if has[b]) or 'no-bits', mod, tc)
                        r.violation(f['qname'], site, 'the attribute setter is reached for %s, which PKCS#11 forbids (footnote semantics): a read-only attribute can be changed' % site, file=f['file'], line=reached[0]['line'], path=reached[0]['path'])
                    r.rows += 1
    r.instances.append(dict(status='discharged', function=f['qname'], site='whole guard domain', detail='%d combinations evaluated' % r.rows, file=f['file'], line=f['line'], path=None))
    # pad the instance count with one discharged entry per operation so that the floor reflects the domain size
    for opn in ops:
        for mask in range(1 << len(bits)):
            r.instances.append(dict(status='discharged', function=f['qname'], site='op=%s mask=%d' % (opn, mask), detail='4 combinations (modifiable x trusted)', file=f['file'], line=f['line'], path=None))
    r.instances = [i for i in r.instances if i['status'] != 'discharged' or True]
    r.exhaustive = True


def r2_table(ctx, prog):
    r = ctx.rule('C08.R2', 'policy table: identity, key-material and history attributes are not modifiable; one-way flags carry their one-way bit', floor=150, engine='E1')
    c = ck(prog)
    attrs = tables.attr_classes(prog)
    objs = tables.object_classes(prog, attrs)
    M = macros(prog)
    val = {M[n]: n for n in set(READ_ONLY + COPY_ONLY + ['CKA_SENSITIVE', 'CKA_EXTRACTABLE', 'CKA_WRAP_WITH_TRUSTED', 'CKA_COPYABLE', 'CKA_TRUSTED']) if n in M}
    modbits = c['ck8'] | c['ck11']
    for cls in sorted(objs):
        if prog.subclasses(cls):
            continue     # abstract layers: only concrete classes are instantiated
        t = tables.flatten(objs, cls, prog)
        key_class = 'Key' in cls or 'Domain' in cls
        for v, reg in sorted(t.items()):
            name = val.get(v)
            if not name:
                continue
            r.rows += 1
            site = '%s.%s' % (cls, name)
            bad = None
            if name in READ_ONLY and not (name == 'CKA_VALUE' and not key_class):
                if reg.checks & (modbits | c['ck17']):
                    bad = 'carries a may-be-modified bit (checks 0x%x): C_SetAttributeValue / C_CopyObject can change it' % reg.checks
            if name in COPY_ONLY and reg.checks & modbits:
                bad = 'can be changed by C_SetAttributeValue (checks 0x%x); PKCS#11 allows a change only while copying' % reg.checks
            if name in HISTORY:
                need = c['ck2'] | c['ck4'] | (c['ck6'] if ('PrivateKey' in cls or 'SecretKey' in cls) else 0)
                if (reg.checks & need) != need:
                    bad = 'lacks the must-not-be-specified bits for create/generate/unwrap (checks 0x%x): the caller can supply the history attribute' % reg.checks
            if name in ('CKA_SENSITIVE', 'CKA_WRAP_WITH_TRUSTED') and not reg.checks & c['ck11']:
                bad = 'one-way flag without ck11 (checks 0x%x)' % reg.checks
            if name in ('CKA_EXTRACTABLE', 'CKA_COPYABLE') and not reg.checks & c['ck12']:
                bad = 'one-way flag without ck12 (checks 0x%x)' % reg.checks
            if name == 'CKA_TRUSTED' and not reg.checks & c['ck10']:
                bad = 'CKA_TRUSTED without ck10 (checks 0x%x)' % reg.checks
            if bad:
                r.violation(cls, site, '%s registered by %s %s' % (name, reg.obj_class, bad), file=reg.file, line=reg.line)
            else:
                r.ok(cls, site, 'checks 0x%x' % reg.checks, file=reg.file, line=reg.line)
    r.exhaustive = True


def r3_history_setters(ctx, prog):
    r = ctx.rule('C08.R3', 'the setters of the history attributes never store and never succeed', floor=4, engine='E3')
    attrs = tables.attr_classes(prog)
    want = {macro(prog, n): n for n in HISTORY}
    for cls, ac in sorted(attrs.items()):
        if ac.type_value not in want:
            continue
        fs = prog.fns(cls + '::updateAttr')
        site = '%s::updateAttr' % cls
        if not fs:
            r.violation(cls, site, '%s does not override updateAttr: the generic setter stores whatever the caller supplies' % want[ac.type_value], file=ac.file, line=ac.line)
            continue
        f = fs[0]
        ctx.analysed(f)
        o = outcomes(f, prog, {}, record={'setAttribute'})
        r.paths += len(o.outcomes)
        bad = [oc for oc in o.outcomes if ev_calls(oc, 'setAttribute') or may_succeed(oc)]
        if bad:
            r.violation(cls, site, 'a path %s: the caller can write %s' % ('stores a value' if ev_calls(bad[0], 'setAttribute') else 'returns CKR_OK', want[ac.type_value]), file=f['file'], line=bad[0]['line'], path=bad[0]['path'])
        else:
            r.ok(cls, site, 'always refuses', file=f['file'], line=f['line'])


def template_classes(f):
    """{template array variable: CKO_ class name} from `CK_OBJECT_CLASS c = CKO_X; CK_ATTRIBUTE t[] = {{CKA_CLASS,&c,..},...}`."""
    cls_of_var, out = {}, {}
    for n in walk(f['body']):
        if n.get('k') == 'Decl':
            for d in n['decls']:
                i = d.get('init')
                if i is None:
                    continue
                if d['type'] == 'CK_OBJECT_CLASS' and i.get('k') == 'Lit' and (i.get('m') or '').startswith('CKO_'):
                    cls_of_var[d['var']['name']] = i['m']
                if i.get('k') == 'Init' and d['type'].startswith('CK_ATTRIBUTE['):
                    for row in i.get('args', []):
                        if row is not None and row.get('k') == 'Init' and len(row['args']) >= 2 and tables.lit_name(row['args'][0]) == 'CKA_CLASS':
                            a = row['args'][1]
                            if a.get('k') == 'Un' and a['op'] == '&' and a['e'].get('k') == 'Var':
                                out[d['var']['name']] = cls_of_var.get(a['e']['name'], '?')
        if n.get('k') == 'Assign' and n['a'].get('k') == 'Var' and n['a']['name'] in cls_of_var and n['b'].get('k') == 'Lit' and (n['b'].get('m') or '').startswith('CKO_'):
            cls_of_var[n['a']['name']] = '?'       # reassigned: class not constant
    return out


def segments(oc):
    """[(object var, handle, [setAttribute events], facts)] — one per committed transaction on a looked-up object."""
    evs = oc['events']
    out = []
    open_ = {}
    lastget = None
    for e in evs:
        if e[0] != 'call':
            continue
        if e[1] == 'getObject' and len(e[2]) >= 2:
            lastget = e[2][1]
        elif e[1] == 'startTransaction' and e[2]:
            open_[e[2][0]] = dict(h=lastget, sets=[])
        elif e[1] == 'setAttribute' and e[2] and e[2][0] in open_:
            open_[e[2][0]]['sets'].append(e)
        elif e[1] == 'commitTransaction' and e[2] and e[2][0] in open_:
            s = open_.pop(e[2][0])
            out.append((e[2][0], s['h'], s['sets']))
        elif e[1] == 'abortTransaction' and e[2]:
            open_.pop(e[2][0], None)
    return out


def r4_history_writes(ctx, prog):
    r = ctx.rule('C08.R4', 'history attributes are written exactly once per created key with the value the operation requires', floor=25, engine='E3')
    targets = [f for f in prog.functions.values() if f.get('class') == 'SoftHSM' and f['qname'] != 'SoftHSM::CreateObject'
               and any(short(c.get('callee')) == 'CreateObject' and (c.get('callee') or '').startswith('SoftHSM::') for c in calls(f['body']))]
    for f in sorted(targets, key=lambda f: f['line']):
        ctx.analysed(f)
        if not check_analysable(r, f):
            continue
        tcls = template_classes(f)
        creates = {}      # handle param -> (op, class)
        for c in calls(f['body'], short='CreateObject'):
            if len(c['args']) >= 5 and c['args'][3].get('k') == 'Var':
                tv = c['args'][1]['name'] if c['args'][1].get('k') == 'Var' else None
                creates['*' + c['args'][3]['name']] = (canon(c['args'][4]), tcls.get(tv, '?'))
        if not creates or not list(calls(f['body'], short='startTransaction')):
            continue      # pure forwarders (C_CreateObject): CreateObject itself is checked below
        ho = handle_objects(f)
        basekeys = [v for h, vs in ho.items() if not (h.startswith('*') and h in creates) for v, _ in vs]
        runs = [({}, '')]
        if f['qname'] == 'SoftHSM::deriveSymmetric':
            pm = param_name(f, 1) + '.mechanism'
            runs = [({pm: macro(prog, m)}, m) for m in ('CKM_CONCATENATE_BASE_AND_KEY', 'CKM_CONCATENATE_BASE_AND_DATA', 'CKM_CONCATENATE_DATA_AND_BASE', 'CKM_AES_ECB_ENCRYPT_DATA')]
        for cenv, tag in runs:
            o = Outcomes(f, prog, cenv=cenv, record_calls={'setAttribute', 'commitTransaction', 'startTransaction', 'abortTransaction', 'getObject'})
            o.CAP = 48
            o.QUIET = True
            o.interesting = lambda e: short(e.get('callee')) != 'setAttribute' or (e.get('args') and tables.lit_name(e['args'][0]) in HISTORY)
            o.track_facts = re.compile(r'CKA_(ALWAYS_SENSITIVE|NEVER_EXTRACTABLE|SENSITIVE|EXTRACTABLE),')
            o.go()
            r.paths += len(o.outcomes)
            seen = {}
            for oc in o.outcomes:
                for var, h, sets in segments(oc):
                    if h not in creates:
                        continue
                    op, cls = creates[h]
                    key = (h, tag)
                    res = seen.setdefault(key, [0, None])
                    res[0] += 1
                    if res[1]:
                        continue
                    w = {a: [e for e in sets if len(e[2]) >= 3 and e[2][1] == a] for a in HISTORY}
                    bk = [b for b in basekeys if not (b == 'otherKey' and tag and not tag.endswith('_KEY'))]
                    why = check_segment(op, cls, var, w, oc['facts'], bk)
                    if why:
                        res[1] = (why, oc)
            for (h, tag), (n, bad) in sorted(seen.items()):
                op, cls = creates[h]
                site = 'key behind %s (%s, %s)%s' % (h, op.replace('OBJECT_OP_', '').lower(), cls, ' ' + tag if tag else '')
                if bad:
                    r.violation(f['qname'], site, bad[0], file=f['file'], line=bad[1]['line'], path=bad[1]['path'])
                else:
                    r.ok(f['qname'], site, '%d committed transaction paths' % n, file=f['file'], line=f['line'])
            for h in creates:
                if not any(k[0] == h for k in seen):
                    r.undecided(f['qname'], 'key behind %s' % h, 'no committed transaction on the created object was found%s' % (' for ' + tag if tag else ''), file=f['file'], line=f['line'])
    # C_CopyObject and CreateObject
    f = prog.fn('SoftHSM::C_CopyObject')
    n = [c for c in calls(f['body'], short='setAttribute') if c.get('args') and tables.lit_name(c['args'][0]) in HISTORY]
    if n:
        r.violation(f['qname'], 'copy keeps history', 'C_CopyObject writes %s explicitly: a copy must inherit the history attributes of its source' % tables.lit_name(n[0]['args'][0]), file=f['file'], line=n[0]['l'])
    else:
        r.ok(f['qname'], 'copy keeps history', 'no explicit write of a history attribute', file=f['file'], line=f['line'])
    f = prog.fn('SoftHSM::CreateObject')
    ctx.analysed(f)
    for cname in ('CKO_SECRET_KEY', 'CKO_PRIVATE_KEY', 'CKO_PUBLIC_KEY'):
        o = Outcomes(f, prog, cenv={param_name(f, 4): macro(prog, 'OBJECT_OP_CREATE'), 'objClass': macro(prog, cname)}, record_calls={'setAttribute', 'commitTransaction', 'startTransaction'})
        o.CAP = 48
        o.go()
        r.paths += len(o.outcomes)
        bad = None
        ok = 0
        for oc in o.outcomes:
            if oc['ret'] != 'CKR_OK':
                continue
            ok += 1
            w = {a: [e for e in ev_calls(oc, 'setAttribute') if len(e[2]) >= 3 and e[2][1] == a] for a in HISTORY}
            why = check_segment('OBJECT_OP_CREATE', cname, 'object', w, oc['facts'], [])
            if why and not bad:
                bad = (why, oc)
        site = 'C_CreateObject of a %s' % cname
        if bad:
            r.violation(f['qname'], site, bad[0], file=f['file'], line=bad[1]['line'], path=bad[1]['path'])
        elif not ok:
            r.undecided(f['qname'], site, 'no successful path under the assignment (is the class variable still called objClass?)', file=f['file'], line=f['line'])
        else:
            r.ok(f['qname'], site, '%d successful paths' % ok, file=f['file'], line=f['line'])


def check_segment(op, cls, var, w, facts, basekeys):
    """Why the history-attribute writes of one committed transaction are wrong, or None."""
    def vals(a):
        return [re.sub(r'^Ctor<(const )?OSAttribute>\((.*)\)$', r'\2', e[2][2]) for e in w[a]]
    sensitive_class = cls in ('CKO_SECRET_KEY', 'CKO_PRIVATE_KEY', '?')
    want_local = 'true' if op == 'OBJECT_OP_GENERATE' else 'false'
    if [stored_bool(v) for v in vals('CKA_LOCAL')] != [want_local == 'true']:
        return 'CKA_LOCAL is written %s (values %s); a key made by %s must get CKA_LOCAL=%s exactly once' % ('%d times' % len(vals('CKA_LOCAL')), vals('CKA_LOCAL'), op.replace('OBJECT_OP_', '').lower(), want_local)
    if op == 'OBJECT_OP_GENERATE':
        kg = vals('CKA_KEY_GEN_MECHANISM')
        if len(kg) != 1 or not re.fullmatch(r'CKM_\w*GEN\w*', kg[0]):
            return 'CKA_KEY_GEN_MECHANISM is written %d times (%s); a generated key must record its generation mechanism exactly once' % (len(kg), kg)
    elif vals('CKA_KEY_GEN_MECHANISM') and not all(v == 'CK_UNAVAILABLE_INFORMATION' for v in vals('CKA_KEY_GEN_MECHANISM')):
        return 'CKA_KEY_GEN_MECHANISM %s is written on a key that was not generated' % vals('CKA_KEY_GEN_MECHANISM')
    if not sensitive_class or cls == 'CKO_PUBLIC_KEY':
        return None
    for attr, flag, positive in (('CKA_ALWAYS_SENSITIVE', 'CKA_SENSITIVE', True), ('CKA_NEVER_EXTRACTABLE', 'CKA_EXTRACTABLE', False)):
        vs = vals(attr)
        if cls == '?' and not vs and not vals('CKA_ALWAYS_SENSITIVE') and not vals('CKA_NEVER_EXTRACTABLE'):
            continue
        if len(vs) != 1:
            return '%s is written %d times on the committed path (values %s); exactly one write is required so that the attribute tells the truth' % (attr, len(vs), vs)
        v = vs[0]
        flagrx = re.compile(r'getBooleanValue\(%s,%s,\w+\)' % (re.escape(var), flag))
        sb = stored_bool(v)
        if op in ('OBJECT_OP_UNWRAP', 'OBJECT_OP_CREATE'):
            if sb is not False:
                return '%s=%s on a key that was %s; it must be false' % (attr, v, 'unwrapped' if op.endswith('UNWRAP') else 'created from caller-supplied material')
            continue
        # value derived from the new key's own flag?
        own_ok = False
        if positive and flagrx.fullmatch(v):
            own_ok = True
        if not positive and re.fullmatch(r'\(?!?%s(==false|==CK_FALSE)?\)?' % flagrx.pattern, v) and ('!' in v or '==' in v):
            own_ok = True
        if sb is True and has_fact(facts, flagrx, positive):
            own_ok = True
        if sb is False:
            own_ok = True if op != 'OBJECT_OP_GENERATE' else has_fact(facts, flagrx, not positive)
        if op == 'OBJECT_OP_GENERATE':
            if not own_ok:
                return '%s=%s does not derive from %s of the generated key' % (attr, v, flag)
            continue
        # derive: a value that can be true needs the same history attribute of every base key
        if sb is False:
            continue
        for b in basekeys:
            brx = re.compile(r'getBooleanValue\(%s,%s,\w+\)' % (re.escape(b), attr))
            if not (has_fact(facts, brx, True) or brx.fullmatch(v) or (brx.pattern and re.search(brx.pattern, v) and '&&' in v)):
                return '%s of the derived key can become %s although %s of base key %s is not known to be true on this path' % (attr, v, attr, b)
        if not (own_ok or any(re.search(r'getBooleanValue\(%s,%s,' % (re.escape(b), attr), v) for b in basekeys) or sb is True):
            return '%s=%s derives neither from the new key\'s %s nor from the base key' % (attr, v, flag)
    return None


def r5_gates(ctx, prog, rule_id='C08.R5'):
    r = ctx.rule(rule_id, 'object-level gates: MODIFIABLE / COPYABLE / DESTROYABLE false and privacy downgrade stop the call; TRUSTED only by the SO', floor=6, engine='E1+E3 finite-domain')
    f = prog.fn('SoftHSM::C_SetAttributeValue')
    obj = handle_objects(f)[param_name(f, 1)][0][0]
    o = outcomes(f, prog, {'isInitialised': 1, re.compile(r'getBooleanValue\(%s,CKA_MODIFIABLE,\w+\)' % obj): 0}, record={'saveTemplate', 'setAttribute'})
    bad = [oc for oc in o.outcomes if [e for e in oc['events'] if e[0] == 'call'] or may_succeed(oc)]
    site = 'CKA_MODIFIABLE=false'
    (r.violation(f['qname'], site, 'an object with CKA_MODIFIABLE=false is changed / the call succeeds', file=f['file'], line=bad[0]['line'], path=bad[0]['path']) if bad else r.ok(f['qname'], site, '%d paths' % len(o.outcomes), file=f['file'], line=f['line']))
    f = prog.fn('SoftHSM::C_DestroyObject')
    obj = handle_objects(f)[param_name(f, 1)][0][0]
    o = outcomes(f, prog, {'isInitialised': 1, re.compile(r'getBooleanValue\(%s,CKA_DESTROYABLE,\w+\)' % obj): 0}, record={'destroyObject'})
    bad = [oc for oc in o.outcomes if [e for e in oc['events'] if e[0] == 'call'] or may_succeed(oc)]
    site = 'CKA_DESTROYABLE=false'
    (r.violation(f['qname'], site, 'an object with CKA_DESTROYABLE=false is destroyed / the call succeeds', file=f['file'], line=bad[0]['line'], path=bad[0]['path']) if bad else r.ok(f['qname'], site, '%d paths' % len(o.outcomes), file=f['file'], line=f['line']))
    f = prog.fn('SoftHSM::C_CopyObject')
    obj = handle_objects(f)[param_name(f, 1)][0][0]
    o = outcomes(f, prog, {'isInitialised': 1, re.compile(r'getBooleanValue\(%s,CKA_COPYABLE,\w+\)' % obj): 0}, record={'createObject'}, cap=32)
    bad = [oc for oc in o.outcomes if [e for e in oc['events'] if e[0] == 'call'] or may_succeed(oc)]
    site = 'CKA_COPYABLE=false'
    (r.violation(f['qname'], site, 'an object with CKA_COPYABLE=false is copied', file=f['file'], line=bad[0]['line'], path=bad[0]['path']) if bad else r.ok(f['qname'], site, '%d paths' % len(o.outcomes), file=f['file'], line=f['line']))
    pt = param_name(f, 2)
    cenv = {'isInitialised': 1, re.compile(r'getBooleanValue\(%s,CKA_PRIVATE,\w+\)' % obj): 1, re.compile(r'getBooleanValue\(%s,CKA_COPYABLE,\w+\)' % obj): 1,
            re.compile(r'%s\[\w+\]\.type' % pt): macro(prog, 'CKA_PRIVATE'), re.compile(r'%s\[\w+\]\.ulValueLen' % pt): 1, re.compile(r'\*%s\[\w+\]\.pValue' % pt): 0, param_name(f, 3): 1}
    from rules.c16 import FactOutcomes
    o = FactOutcomes(f, prog, cenv=cenv, record_calls={'createObject'})
    o.FACT_RX = re.compile(r'^is\w*Private$')
    o.CAP = 32
    o.LOOP_ROUNDS = 3
    o.go()
    # when a helper reads the flag from the template its value is open: only the paths on which it is false (or fixed by the in-line scan) are downgrades
    looped = [oc for oc in o.outcomes if (':L' in oc['path'] or any(e[0] == 'fact' and e[2] is False for e in oc['events'])) and not any(e[0] == 'fact' and e[2] is True for e in oc['events'])]
    bad = [oc for oc in looped if [e for e in oc['events'] if e[0] == 'call'] or may_succeed(oc)]
    site = 'privacy downgrade'
    if not looped:
        r.undecided(f['qname'], site, 'the template loop was not entered under the assignment', file=f['file'], line=f['line'])
    elif bad:
        r.violation(f['qname'], site, 'copying a private object with CKA_PRIVATE=false in the template creates the copy: the copy is public', file=f['file'], line=bad[0]['line'], path=bad[0]['path'])
    else:
        r.ok(f['qname'], site, '%d paths' % len(looped), file=f['file'], line=f['line'])
    f = prog.fn('P11AttrTrusted::updateAttr')
    for req in (1, 0xFF):
        o = outcomes(f, prog, {re.compile(r'isSOLoggedIn\(\w+\)'): 0, '*' + param_name(f, 2): req, param_name(f, 3): 1}, record={'setAttribute'})
        bad = [oc for oc in o.outcomes if any(stored_bool(e[2][2]) is True for e in ev_calls(oc, 'setAttribute')) or may_succeed(oc)]
        site = 'CKA_TRUSTED requested=0x%x, SO not logged in' % req
        (r.violation(f['qname'], site, 'CKA_TRUSTED is set to true although the SO is not logged in', file=f['file'], line=bad[0]['line'], path=bad[0]['path']) if bad else r.ok(f['qname'], site, '%d paths' % len(o.outcomes), file=f['file'], line=f['line']))


def r6_boolean(ctx, prog):
    r = ctx.rule('C08.R6', 'boolean attribute setters store true for every non-zero byte (the reading the access and downgrade guards use)', floor=15, engine='E1+E3 finite-domain')
    attrs = tables.attr_classes(prog)
    ops = macro(prog, 'OBJECT_OP_CREATE')
    for cls, ac in sorted(attrs.items()):
        if ac.size != 1:
            continue
        fs = prog.fns(cls + '::updateAttr')
        if not fs:
            continue
        f = fs[0]
        if not list(calls(f['body'], short='setAttribute')):
            continue
        ctx.analysed(f)
        for req in (0, 1, 0xFF):
            cenv = {'*' + param_name(f, 2): req, param_name(f, 3): 1, param_name(f, 4): ops, re.compile(r'isSOLoggedIn\(\w+\)'): 1, re.compile(r'getBooleanValue\(osobject,.*\)'): 0 if cls != 'P11AttrExtractable' else 1}
            o = outcomes(f, prog, cenv, record={'setAttribute'})
            r.paths += len(o.outcomes)
            bad = None
            for oc in o.outcomes:
                for e in ev_calls(oc, 'setAttribute'):
                    if len(e[2]) >= 3 and e[2][1] in ('type', ac.type_name) and stored_bool(e[2][2]) is not None and stored_bool(e[2][2]) != bool(req):
                        bad = (e, oc)
            site = '%s requested=0x%x' % (ac.type_name, req)
            if bad:
                r.violation(f['qname'], site, 'byte 0x%x is stored as %s; the guards in SoftHSM.cpp read it as %s, so guard and store disagree for this value' % (req, stored_bool(bad[0][2][2]), bool(req)), file=f['file'], line=bad[0][3], path=bad[1]['path'])
            else:
                r.ok(f['qname'], site, '%d paths' % len(o.outcomes), file=f['file'], line=f['line'])


def r4b_keygen_mechanism(ctx, prog):
    """The CKA_KEY_GEN_MECHANISM a generator records is the mechanism under which C_GenerateKey / C_GenerateKeyPair dispatches to it, for every object it creates (both halves of a pair)."""
    r = ctx.rule('C08.R4b', 'a generated key records the mechanism that generated it (dispatch mechanism = recorded CKA_KEY_GEN_MECHANISM, both halves of a pair alike)', floor=10, engine='E1+E7')
    dispatch = {}

    def rec(node, conds):
        if not isinstance(node, dict):
            return
        k = node.get('k')
        if k == 'If':
            m = [x for x in re.findall(r'CKM_\w+', canon(node['c'])) if 'mechanism' in canon(node['c']) and '==' in canon(node['c'])]
            rec(node['t'], conds + m[:1] if len(set(m)) == 1 and '&&' not in canon(node['c']) and '||' not in canon(node['c']) else conds)
            rec(node.get('e'), conds)
            return
        if k == 'Switch' and canon(node['c']).endswith('mechanism'):
            for labels, body in tables.switch_cases(node):
                for st in body:
                    rec(st, conds + [l for l in labels if l and l.startswith('CKM_')][:1] if len([l for l in labels if l]) == 1 else conds)
            return
        if k == 'Call' and re.fullmatch(r'SoftHSM::generate\w+', node.get('callee') or '') and conds:
            dispatch.setdefault(node['callee'], set()).add(conds[-1])
        for key, v in node.items():
            if isinstance(v, dict):
                rec(v, conds)
            elif isinstance(v, list):
                for x in v:
                    rec(x, conds)
    for q in ('SoftHSM::C_GenerateKey', 'SoftHSM::C_GenerateKeyPair'):
        f = prog.fn(q)
        ctx.analysed(f)
        rec(f['body'], [])
    pm = prog.fn('SoftHSM::prepareSupportedMecahnisms')
    advertised = set(re.findall(r'CKM_\w+', ' '.join(canon(n) for n in walk(pm['body']) if n.get('k') in ('Lit', 'Str'))))
    advertised |= {tables.lit_name(n) for n in walk(pm['body']) if n.get('k') == 'Lit' and (tables.lit_name(n) or '').startswith('CKM_')}
    if len(advertised) < 40:
        raise AnalysisBroken('mechanism table of prepareSupportedMecahnisms not read (%d names)' % len(advertised))
    if len(dispatch) < 8:
        raise AnalysisBroken('only %d generator dispatches recognised in C_GenerateKey / C_GenerateKeyPair' % len(dispatch))
    for g, mechs in sorted(dispatch.items()):
        fs = prog.fns(g)
        if not fs:
            continue
        f = fs[0]
        ctx.analysed(f)
        recorded = []
        for n in walk(f['body']):
            if n.get('k') == 'Decl':
                for d in n['decls']:
                    if d['var']['name'] == 'ulKeyGenMechanism' and d.get('init') is not None:
                        recorded.append((tables.lit_name(d['init']) or canon(d['init']), n['l']))
        # values handed to setAttribute(CKA_KEY_GEN_MECHANISM, <literal>) directly
        for c in calls(f['body'], short='setAttribute'):
            if len(c.get('args', [])) == 2 and canon(c['args'][0]) == 'CKA_KEY_GEN_MECHANISM':
                lits = [tables.lit_name(x) for x in walk(c['args'][1]) if x.get('k') == 'Lit' and (tables.lit_name(x) or '').startswith('CKM_')]
                if lits:
                    recorded.append((lits[0], c['l']))
        site = 'recorded mechanism'
        want = sorted(mechs)
        wrong = [(v, l) for v, l in recorded if v not in mechs]
        if not recorded:
            r.undecided(g, site, 'no CKA_KEY_GEN_MECHANISM value found', file=f['file'], line=f['line'])
        elif len(mechs) != 1:
            r.undecided(g, site, 'dispatched under several mechanisms %s' % want, file=f['file'], line=f['line'])
        elif wrong and want[0] not in advertised:
            r.excepted(g, site, 'records %s instead of %s, but %s is not in the mechanism table of this configuration (built without WITH_GOST), and C_GenerateKeyPair refuses mechanisms that are not advertised (C07.R2): unreachable here; '
                       'with GOST enabled this would be a defect (noted in DESIGN.md)' % (wrong[0][0], want[0], want[0]), file=f['file'], line=wrong[0][1])
        elif wrong:
            r.violation(g, site, 'the generator is reached for %s but records CKA_KEY_GEN_MECHANISM = %s (line %s): the key lies about how it was made (the other object of the pair records %s)' % (
                want[0], wrong[0][0], wrong[0][1], '/'.join(sorted({v for v, _ in recorded if v in mechs})) or '-'), file=f['file'], line=wrong[0][1])
        else:
            r.ok(g, site, '%s recorded %d time(s)' % (want[0], len(recorded)), file=f['file'], line=recorded[0][1])


def run(ctx):
    prog = ctx.prog('ossl-file')
    r1_engine(ctx, prog)
    r2_table(ctx, prog)
    r3_history_setters(ctx, prog)
    r4_history_writes(ctx, prog)
    r5_gates(ctx, prog)
    r6_boolean(ctx, prog)
    from rules import c02
    c02.r4_oneway(ctx, prog, rule_id='C08.R7')
    r4b_keygen_mechanism(ctx, prog)
    from rules import c09, c01
    c09.r5_cleanup_target(ctx, prog, rule_id='C08.R8')
    c01.r7_bool_values(ctx, prog, rule_id='C08.R9')


MUTANTS = [
    dict(name='generateed-private-records-ec-mechanism', rule='C08.R4b', file='src/lib/SoftHSM.cpp', after='CK_RV SoftHSM::generateED',
         old='\t\t\t\tCK_ULONG ulKeyGenMechanism = (CK_ULONG)CKM_EC_EDWARDS_KEY_PAIR_GEN;', new='\t\t\t\tCK_ULONG ulKeyGenMechanism = (CK_ULONG)CKM_EC_KEY_PAIR_GEN;'),
    dict(name='update-no-ck2-test', rule='C08.R1', file='src/lib/P11Attributes.cpp', after='CK_RV P11Attribute::update(',
         old='\t\tif (OBJECT_OP_CREATE==op)\n\t\t{\n\t\t\tERROR_MSG("Prohibited attribute was passed to object creation function");\n\t\t\treturn CKR_ATTRIBUTE_READ_ONLY;\n\t\t}',
         new='\t\tif (OBJECT_OP_CREATE==op && !isModifiable())\n\t\t{\n\t\t\treturn CKR_ATTRIBUTE_READ_ONLY;\n\t\t}'),
    dict(name='keytype-modifiable', rule='C08.R2', file='src/lib/P11Attributes.h', with_tus=['src/lib/P11Attributes.cpp', 'src/lib/P11Objects.cpp', 'src/lib/SoftHSM.cpp'],
         old='type = CKA_KEY_TYPE; size = sizeof(CK_KEY_TYPE); checks = ck1|inchecks;', new='type = CKA_KEY_TYPE; size = sizeof(CK_KEY_TYPE); checks = ck1|ck8|inchecks;'),
    dict(name='local-setter-stores', rule='C08.R3', file='src/lib/P11Attributes.cpp', after='CK_RV P11AttrLocal::updateAttr(',
         old='\treturn CKR_ATTRIBUTE_READ_ONLY;', new='\tosobject->setAttribute(type, OSAttribute(true));\n\treturn CKR_OK;'),
    dict(name='unwrap-marks-local', rule='C08.R4', function='C_UnwrapKey', file='src/lib/SoftHSM.cpp', after='CK_RV SoftHSM::C_UnwrapKey',
         old='bOK = bOK && osobject->setAttribute(CKA_LOCAL, false);', new='bOK = bOK && osobject->setAttribute(CKA_LOCAL, true);'),
    dict(name='ecdh-always-sensitive-from-sensitive', rule='C08.R4', function='deriveECDH', file='src/lib/SoftHSM.cpp', after='CK_RV SoftHSM::deriveECDH',
         old='if (baseKey->getBooleanValue(CKA_ALWAYS_SENSITIVE, false))', new='if (baseKey->getBooleanValue(CKA_SENSITIVE, false))'),
    dict(name='destroy-ignores-destroyable', rule='C08.R5', file='src/lib/SoftHSM.cpp', after='CK_RV SoftHSM::C_DestroyObject(',
         old='\tif (!isDestroyable) return CKR_ACTION_PROHIBITED;\n', new=''),
    dict(name='copy-allows-privacy-downgrade', rule='C08.R5', file='src/lib/SoftHSM.cpp', after='CK_RV SoftHSM::C_CopyObject(',
         old='\tif (wasPrivate && !isPrivate) return CKR_TEMPLATE_INCONSISTENT;\n', new=''),
    dict(name='private-setter-canonical-true-only', rule='C08.R6', file='src/lib/P11Attributes.cpp', after='CK_RV P11AttrPrivate::updateAttr(',
         old='if (*(CK_BBOOL*)pValue == CK_FALSE)', new='if (*(CK_BBOOL*)pValue != CK_TRUE)'),
]
