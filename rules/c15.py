"""C15 — processes sharing a token directory (DESIGN.md §3 C15; very narrow: the refresh / generation protocol's structure)."""
import re
from engine.rulelib import *
from rules.c16 import outcomes, fact_of

EXPLANATION = (
    "Interleavings of processes are NOT decidable by this family and are not claimed. Decided are structural necessary conditions of the refresh protocol that lets one process see another's committed change. "
    "R1 (refresh chain): ObjectFile::isValid() calls refresh(); every path of refresh() outside a transaction and not at first load consults token->index() and gen->wasUpdated() before it returns 'unchanged'; both OSToken::getObjects() call index() "
    "before touching the object set; DBToken/DBObject have no cache to refresh for object lists (not part of the rule). R2 (re-index completeness): every path of OSToken::index() that lists the directory and reports success has replaced currentFiles by the "
    "new listing and rebuilt `objects` (a 'nothing changed' short-cut is accepted only under a comparison of the two name sets themselves). R3 (generation derived from disk): on every path of ObjectFile::writeAttributes that writes, a successful "
    "gen->sync(objectFile) — which reads the generation number another process may have bumped — precedes the truncate and the write of the new number. R4 (dormant token-level counter): Generation's token mode adopts the on-disk counter in commit() "
    "without comparing it with the value it last saw, which would hide a foreign change made between two of its own commits; the rule checks that this mode stays unreachable (every Generation::create call site passes isToken=false — on the pinned tree "
    "OSToken passes `true` in the umask position, so wasUpdated() finds no file and always answers 'updated') or that commit() compares before adopting. R5 (I/O under the file lock): in refresh / store / writeAttributes / Generation::wasUpdated / commit "
    "every read, write, truncate or seek on a File happens between lock() and unlock() of that File on every path.")
ASSUMPTIONS = ['fcntl locks exclude other processes as documented', 'abstract paths: loops unrolled once or twice, then summarised', 'validate-before-use of handles in SoftHSM.cpp is C11.R3']
TECHNIQUE = 'custom static analysis over the clang AST: must-pass-through and typestate (file lock) rules on enumerated abstract paths of the refresh/generation protocol, call-site constant check'
LEVEL_TEXT = ('All abstract paths of the eight protocol functions are enumerated. Necessary conditions only: which interleavings of two processes lose or duplicate an object is not explored.')
LEVEL_NOTE = 'trusted: clang front end, normaliser, abstract interpreter; the protocol reading of Generation/OSToken stated in the rule texts'

IO = {'readULong', 'readByteString', 'readBool', 'readMechanismTypeSet', 'readAttributeMap', 'readString', 'writeULong', 'writeByteString', 'writeBool', 'writeMechanismTypeSet', 'writeAttributeMap', 'writeString',
      'truncate', 'seek', 'rewind', 'flush'}


def r1_chain(ctx, prog, rule_id='C15.R1'):
    r = ctx.rule(rule_id, 'every access path re-validates against the disk: isValid -> refresh -> index + wasUpdated; getObjects -> index', floor=5, engine='E6+E3')
    f = prog.fn('ObjectFile::isValid')
    ctx.analysed(f)
    o = outcomes(f, prog, {}, record={'refresh'}, rounds=1)
    bad = [oc for oc in o.outcomes if not any(e[0] == 'call' and e[1] == 'refresh' for e in oc['events'])]
    if bad or not o.outcomes:
        r.violation(f['qname'], 'refresh first', 'isValid() can answer without refresh(): a change made by another process is not seen', file=f['file'], line=f['line'], path=bad[0]['path'] if bad else None)
    else:
        r.ok(f['qname'], 'refresh first', '%d paths' % len(o.outcomes), file=f['file'], line=f['line'])
    f = prog.fn('ObjectFile::refresh')
    ctx.analysed(f)
    cenv = {'isFirstTime': 0, 'inTransaction': 0, 'token': 1}
    o = outcomes(f, prog, cenv, record={'index', 'wasUpdated', 'isValid', 'readULong'}, rounds=1, cap=256)
    r.paths += len(o.outcomes)
    bad = None
    unchanged = 0
    for oc in o.outcomes:
        evs = oc['events']
        idx = [e for e in evs if e[0] == 'call' and e[1] == 'index']
        wu = [(i, e) for i, e in enumerate(evs) if e[0] == 'call' and e[1] == 'wasUpdated']
        reads = [e for e in evs if e[0] == 'call' and e[1] == 'readULong']
        if not reads:
            # returns without reloading: must have asked both
            unchanged += 1
            if not idx:
                bad = (oc, 'returns without reloading and without token->index()')
            elif not wu and ('gen', False) not in oc['facts']:
                bad = (oc, 'returns without reloading and without gen->wasUpdated()')
    if bad:
        r.violation(f['qname'], 'unchanged only after asking', bad[1] + ': the cached attributes stay in use after another process changed the object', file=f['file'], line=bad[0]['line'], path=bad[0]['path'])
    elif unchanged == 0:
        r.undecided(f['qname'], 'unchanged only after asking', 'no path that keeps the cache found', file=f['file'], line=f['line'])
    else:
        r.ok(f['qname'], 'unchanged only after asking', '%d cache-keeping paths of %d, each after index() and wasUpdated()' % (unchanged, len(o.outcomes)), file=f['file'], line=f['line'])
    # the generation must be the decider: wasUpdated()==true leads to a reload
    cenv2 = dict(cenv)
    cenv2.update({re.compile(r'wasUpdated@\d+\(gen\)'): 1, re.compile(r'isValid(@\d+)?\(objectFile\)'): 1, re.compile(r'isEmpty(@\d+)?\(objectFile\)'): 0, 'gen': 1})
    o2 = outcomes(f, prog, cenv2, record={'readULong', 'discardAttributes'}, rounds=1, cap=256)
    stale = [oc for oc in o2.outcomes if not any(e[0] == 'call' and e[1] == 'readULong' for e in oc['events'])]
    if stale or not o2.outcomes:
        r.violation(f['qname'], 'updated => reload', 'the generation says "updated" and a path returns without reading the file', file=f['file'], line=f['line'], path=stale[0]['path'] if stale else None)
    else:
        r.ok(f['qname'], 'updated => reload', '%d paths' % len(o2.outcomes), file=f['file'], line=f['line'])
    for g in prog.fns('OSToken::getObjects'):
        ctx.analysed(g)
        o = outcomes(g, prog, {}, record={'index', 'insert', 'begin'}, rounds=1)
        site = 'index first (%s)' % (g['sig'] or 'void')
        first = [oc['events'][0] if oc['events'] else None for oc in o.outcomes]
        if not o.outcomes or any(e is None or e[1] != 'index' for e in first):
            r.violation(g['qname'], site, 'the object set is handed out without re-indexing the directory first', file=g['file'], line=g['line'])
        else:
            r.ok(g['qname'], site, 'index() is the first effect', file=g['file'], line=g['line'])


def r2_index(ctx, prog):
    r = ctx.rule('C15.R2', 're-indexing replaces the file list and rebuilds the object set on every successful path that listed the directory', floor=1, engine='E3')
    f = prog.fn('OSToken::index')
    ctx.analysed(f)
    for first in (0, 1):
        cenv = {'isFirstTime': first, 'valid': 1, re.compile(r'wasUpdated@\d+\(gen\)'): 1, re.compile(r'refresh@\d+\(tokenDir\)'): 1, re.compile(r'tokenObject(->|\.)valid'): 1}
        o = outcomes(f, prog, cenv, record={'getFiles', 'wasUpdated', 'invalidate', 'operator==', 'operator=', 'swap'}, rounds=1, cap=512)
        r.paths += len(o.outcomes)
        bad = None
        n = 0
        for oc in o.outcomes:
            evs = oc['events']
            gf = [i for i, e in enumerate(evs) if e[0] == 'call' and e[1] == 'getFiles']
            if not gf or oc['retv'] in (0, '0', 'false') or oc['ret'] == 'false':
                continue
            n += 1
            after = evs[gf[0]:]
            wcf = any(e[0] == 'write' and re.fullmatch(r'(this->)?currentFiles', e[1]) for e in after) or any(e[0] == 'call' and e[1] in ('operator=', 'swap') and e[2] and e[2][0] == 'currentFiles' for e in after)
            wobj = any(e[0] == 'write' and re.fullmatch(r'(this->)?objects', e[1]) for e in after) or any(e[0] == 'call' and e[1] in ('operator=', 'swap') and e[2] and e[2][0] == 'objects' for e in after)
            same = any(e[0] == 'fact' and re.match(r'operator==@?\d*\((newSet,currentFiles|currentFiles,newSet)\)', e[1]) and e[2] for e in evs)
            if not (wcf and wobj) and not same:
                bad = (oc, 'currentFiles %s, objects %s' % ('replaced' if wcf else 'NOT replaced', 'rebuilt' if wobj else 'NOT rebuilt'))
        site = 'isFirstTime=%d' % first
        if bad:
            r.violation(f['qname'], site, 'a path lists the directory, reports success and leaves the index as it was (%s): objects created or deleted by another process are not picked up' % bad[1], file=f['file'], line=bad[0]['line'], path=bad[0]['path'])
        elif n == 0:
            r.undecided(f['qname'], site, 'no successful listing path found', file=f['file'], line=f['line'])
        else:
            r.ok(f['qname'], site, '%d successful listing paths' % n, file=f['file'], line=f['line'])


class WriteOutcomes:
    pass


def r3_sync(ctx, prog):
    r = ctx.rule('C15.R3', 'the new generation number is derived from the one on disk: sync precedes truncate and write on every path', floor=1, engine='E3')
    f = prog.fn('ObjectFile::writeAttributes')
    ctx.analysed(f)
    for intx in (0, 1):
        o = outcomes(f, prog, {'inTransaction': intx}, record={'sync', 'truncate', 'writeULong', 'update', 'get'}, rounds=1, cap=256)
        r.paths += len(o.outcomes)
        bad = None
        n = 0
        for oc in o.outcomes:
            evs = oc['events']
            w = [i for i, e in enumerate(evs) if e[0] == 'call' and e[1] in ('truncate', 'writeULong')]
            if not w:
                continue
            n += 1
            s = [i for i, e in enumerate(evs) if e[0] == 'call' and e[1] == 'sync' and i < w[0]]
            if not s or fact_of(oc, 'sync', evs[s[-1]][3], s[-1]) is not True:
                bad = oc
        site = 'inTransaction=%d' % intx
        if bad:
            r.violation(f['qname'], site, 'the file is truncated / the new generation written without a successful gen->sync(objectFile) first: the number is computed from this process\'s stale counter and can collide with the one another process wrote, '
                        'whose change then goes unnoticed', file=f['file'], line=bad['line'], path=bad['path'])
        elif n == 0:
            r.undecided(f['qname'], site, 'no writing path found', file=f['file'], line=f['line'])
        else:
            r.ok(f['qname'], site, '%d writing paths, each after sync' % n, file=f['file'], line=f['line'])
    # sync itself reads the number from the file it is given
    s = prog.fn('Generation::sync')
    ctx.analysed(s)
    rd = [c for c in calls(s['body'], short='readULong') if c.get('recv') is not None and c['recv'].get('k') == 'Var' and c['recv'].get('kind') == 'param']
    wr = [n for n in walk(s['body']) if n.get('k') == 'Assign' and canon(n['a']).endswith('currentValue')]
    if rd and wr:
        r.ok(s['qname'], 'reads the disk', 'currentValue is set from the number read from the locked file', file=s['file'], line=s['line'])
    else:
        r.violation(s['qname'], 'reads the disk', 'sync() no longer takes the generation from the file', file=s['file'], line=s['line'])


def r4_token_mode(ctx, prog):
    r = ctx.rule('C15.R4', 'the token-level generation counter either stays unreachable or does not adopt a foreign value unseen', floor=2, engine='E1+E2')
    sites = [(g, c) for g in prog.functions.values() for c in calls(g['body']) if c.get('callee') == 'Generation::create']
    if len(sites) < 2:
        raise AnalysisBroken('Generation::create call sites: %d' % len(sites))
    cm = prog.fn('Generation::commit')
    ctx.analysed(cm)
    # does commit() compare the on-disk value with the remembered one before adopting it?
    adopts = [n for n in walk(cm['body']) if n.get('k') == 'Assign' and canon(n['a']).endswith('currentValue') and 'onDisk' in canon(n['b'])]
    compares = [n for n in walk(cm['body']) if n.get('k') == 'Bin' and n.get('op') in ('==', '!=', '<', '>') and 'onDisk' in canon(n) and 'currentValue' in canon(n)]
    blind = bool(adopts) and not compares
    for g, c in sorted(sites, key=lambda x: (x[0]['file'], x[1]['l'])):
        ctx.analysed(g)
        a = c.get('args', [])
        tok = a[2] if len(a) > 2 else None
        site = 'Generation::create@%s' % g['qname']
        v = tok.get('v') if tok is not None and tok.get('k') == 'Lit' else None
        if tok is None or tok.get('k') != 'Lit':
            r.undecided(g['qname'], site, 'isToken is not a literal', file=g['file'], line=c['l'])
        elif not v:
            r.ok(g['qname'], site, 'isToken=false%s' % (' (the literal `true` is bound to umask)' if len(a) > 1 and a[1].get('k') == 'Lit' and a[1].get('b') else ''), file=g['file'], line=c['l'])
        elif blind:
            r.violation(g['qname'], site, 'a token-mode Generation is created, and Generation::commit() overwrites currentValue with the on-disk counter (+1) without comparing the two: a change another process committed between two commits of this process '
                        'is adopted unseen, wasUpdated() then answers "not updated" and OSToken::index() never picks the foreign object up', file=g['file'], line=c['l'])
        else:
            r.ok(g['qname'], site, 'token mode, commit() compares before adopting', file=g['file'], line=c['l'])


def r5_io_locked(ctx, prog):
    r = ctx.rule('C15.R5', 'file I/O happens under the fcntl lock of the same File object', floor=6, engine='E3 typestate')
    targets = [('ObjectFile::refresh', {}, set()), ('ObjectFile::store', {}, set()), ('ObjectFile::writeAttributes', {}, {'objectFile'}), ('Generation::wasUpdated', {'isToken': 0}, set()), ('Generation::wasUpdated', {'isToken': 1}, set()),
               ('Generation::commit', {'isToken': 1}, set()), ('Generation::sync', {'isToken': 0}, {'objectFile'})]
    # methods that open (and close again) a descriptor of their own: POSIX record locks belong to the process and the file, closing *any* descriptor of the file drops them all
    openers = {short(g['qname']) for g in prog.functions.values() if g.get('class') == 'Generation' and any(n.get('k') in ('Ctor', 'New') and n.get('type', '').replace('class ', '') == 'File' for n in walk(g['body']))}
    for q, cenv, prelocked in targets:
        f = prog.fn(q)
        ctx.analysed(f)
        cenv = dict(cenv)
        cenv[re.compile(r'isValid(@\d+)?\(\w+\)')] = 1
        o = outcomes(f, prog, cenv, record=IO | {'lock', 'unlock', 'writeAttributes', 'sync'} | (openers if f.get('class') == 'ObjectFile' else set()), rounds=1, cap=512)
        r.paths += len(o.outcomes)
        bad = None
        nio = 0
        for oc in o.outcomes:
            locked = set(prelocked)
            for e in oc['events']:
                if e[0] != 'call' or not e[2]:
                    continue
                rc = e[2][0]
                if e[1] == 'lock':
                    locked.add(rc)
                elif e[1] == 'unlock':
                    locked.discard(rc)
                elif e[1] in openers and f.get('class') == 'ObjectFile' and rc == 'gen' and locked:
                    bad = (oc, 'gen->%s() at line %s opens and closes its own descriptor of the object file while %s is locked: closing it releases the fcntl lock this process holds, the rest of the region runs unlocked' % (e[1], e[3], '/'.join(sorted(locked))))
                elif e[1] in IO and rc not in ('this',):
                    nio += 1
                    if rc not in locked:
                        bad = (oc, '%s on %s at line %s without lock() of that file on the path' % (e[1], rc, e[3]))
                elif e[1] in ('writeAttributes', 'sync') and len(e[2]) > 1:
                    arg = e[2][1]
                    nio += 1
                    if arg not in locked:
                        bad = (oc, '%s(%s) is called at line %s with the file unlocked (it relies on the caller\'s lock)' % (e[1], arg, e[3]))
                    if e[1] == 'writeAttributes':
                        locked.discard(arg)      # returns with the file unlocked
        site = 'I/O under lock%s' % (' [%s]' % ','.join('%s=%s' % kv for kv in cenv.items() if isinstance(kv[0], str)) if any(isinstance(k, str) for k in cenv) else '')
        if bad:
            r.violation(q, site, bad[1] + ': another process can read a half-written file or write at the same time', file=f['file'], line=bad[0]['line'], path=bad[0]['path'])
        elif nio == 0:
            r.undecided(q, site, 'no file I/O found on any path', file=f['file'], line=f['line'])
        else:
            r.ok(q, site, '%d I/O events on %d paths, all locked' % (nio, len(o.outcomes)), file=f['file'], line=f['line'])
    # writeAttributes' precondition at its call sites is part of the store() instance above (the call is an event there)


def r8_transactions_start_from_disk(ctx, prog, rule_id='C15.R8'):
    """Two processes that change the same object serialise on its lock file - but the later one must then work on what the earlier one committed: after ObjectFile::startTransaction()
    has taken the lock, the cached attributes are re-validated against the disk (the generation is looked at / the file re-read) before the transaction is declared open.  Without that
    the later committer rewrites the whole file from its stale cache: the other process's committed change is lost, an object the other process destroyed is written back."""
    r = ctx.rule(rule_id, 'a transaction on an object file starts from what is on disk: the cached copy is re-validated after the lock was taken', floor=1, engine='E3 must-pass-through between the lock and the open transaction')
    f = prog.fn('ObjectFile::startTransaction')
    ctx.analysed(f)
    from engine.interp import Outcomes
    o = Outcomes(f, prog, cenv={'inTransaction': 0}, record_calls={'lock', 'wasUpdated', 'refresh', 'sync', 'index'})
    o.CAP = 64
    o.go()
    r.paths += len(o.outcomes)
    site = 'between lock() and the open transaction'
    opened = [oc for oc in o.outcomes if str(oc.get('ret')) in ('true', '1')]
    bad = [oc for oc in opened if not any(e[0] == 'call' and e[1] in ('wasUpdated', 'refresh', 'sync') and any(x[0] == 'call' and x[1] == 'lock' and x[3] <= e[3] for x in oc['events']) for e in oc['events'])]
    if not opened:
        r.undecided(f['qname'], site, 'no path opens a transaction', file=f['file'], line=f['line'])
    elif bad:
        r.violation(f['qname'], site, 'the transaction is opened on the cached attributes without looking at the disk after the lock was taken: a change another process committed while this one waited for the lock is overwritten by this commit (lost update), an object the other process destroyed is written back',
                    file=f['file'], line=bad[0]['line'], path=bad[0]['path'])
    else:
        r.ok(f['qname'], site, '%d opening paths re-validate' % len(opened), file=f['file'], line=f['line'])


def r9_pin_blobs_current(ctx, prog, rule_id='C15.R9'):
    """The SO and user PIN blobs live in token.object, which every process re-reads - but a login verifies against the SecureDataManager, which is filled from the blobs when the
    Token object is constructed.  A PIN another process changed must be the PIN this process checks: the functions that verify a PIN re-read the blob from the token object first."""
    r = ctx.rule(rule_id, 'a PIN is verified against the PIN blob that is on disk now (re-read from the token object), not against the copy taken at C_Initialize', floor=2, engine='E5 must-read before the verification')
    for q in ('Token::loginSO', 'Token::loginUser'):
        f = prog.fn(q)
        ctx.analysed(f)
        rereads = [c for c in calls(f['body']) if short(c.get('callee')) in ('getSOPIN', 'getUserPIN')]
        site = 'PIN blob re-read'
        if rereads:
            r.ok(q, site, 'line %s' % rereads[0]['l'], file=f['file'], line=rereads[0]['l'])
        else:
            r.violation(q, site, 'the PIN is verified by the SecureDataManager that was filled at C_Initialize; the blob in token.object is not read again: after another process changed the PIN this process still accepts the old PIN and refuses the new one (and a C_InitToken with the old SO PIN wipes the token)',
                        file=f['file'], line=f['line'])


def r10_lock_type(ctx, prog, rule_id='C15.R10'):
    """The object file is rewritten under its fcntl lock, and readers in other processes take the same lock: that excludes a reader from a half-written file only if a file opened
    for writing takes an *exclusive* lock.  File::lock is evaluated for the three ways a file is opened (read, write, read+write)."""
    r = ctx.rule(rule_id, 'a file opened for writing is locked exclusively (F_WRLCK), whatever else it is opened for', floor=3, engine='E1 finite-domain evaluation')
    f = prog.fn('File::lock')
    ctx.analysed(f)
    WR, RD = macro(prog, 'F_WRLCK'), macro(prog, 'F_RDLCK')
    for rd, wr in ((1, 0), (0, 1), (1, 1)):
        o = Outcomes(f, prog, cenv={re.compile(r'isRead(@\d+)?\(.*\)'): rd, re.compile(r'isWrite(@\d+)?\(.*\)'): wr, 'isReadable': rd, 'isWritable': wr, 'locked': 0, 'valid': 1})
        o.CAP = 32
        o.go()
        r.paths += len(o.outcomes)
        site = 'opened read=%d write=%d' % (rd, wr)
        types = set()
        for oc in o.outcomes:
            for e in oc['events']:
                if e[0] == 'write' and re.search(r'l_type$', e[1]):
                    types.add(str(e[2]))
        want = str(WR) if wr else str(RD)
        names = {str(WR): 'F_WRLCK', str(RD): 'F_RDLCK'}
        if not types:
            r.undecided(f['qname'], site, 'no assignment of the lock type was followed', file=f['file'], line=f['line'])
        elif types != {want} and types != {names[want]}:
            r.violation(f['qname'], site, 'the lock type is %s, required %s: %s' % ('/'.join(sorted(names.get(t, t) for t in types)), names[want],
                        'a writer that rewrites the file does not exclude readers in other processes - they parse the half-written file and drop a live object' if wr else 'a reader excludes other readers'), file=f['file'], line=f['line'])
        else:
            r.ok(f['qname'], site, names[want], file=f['file'], line=f['line'])


def run(ctx):
    prog = ctx.prog('ossl-file')
    r1_chain(ctx, prog)
    r2_index(ctx, prog)
    r3_sync(ctx, prog)
    r4_token_mode(ctx, prog)
    r5_io_locked(ctx, prog)
    # isValid() is where an object is re-read from disk (R1): every API use of an object reached through a handle must pass it for THAT object, or this process works on stale attributes
    from rules import c11
    c11.r3_validate(ctx, prog, rule_id='C15.R6')
    from rules import c09
    c09.r2_pairing(ctx, prog, rule_id='C15.R7')
    r8_transactions_start_from_disk(ctx, prog)
    r9_pin_blobs_current(ctx, prog)
    r10_lock_type(ctx, prog)


MUTANTS = [
    dict(name='refresh-rechecks-generation-under-lock', rule='C15.R5', file='src/lib/object_store/ObjectFile.cpp', after='void ObjectFile::refresh(bool isFirstTime',
         old='\tobjectFile.lock();\n\n\tif (objectFile.isEmpty())', new='\tobjectFile.lock();\n\n\tif (!isFirstTime && !gen->wasUpdated())\n\t{\n\t\tobjectFile.unlock();\n\t\treturn;\n\t}\n\n\tif (objectFile.isEmpty())'),
    dict(name='isvalid-without-refresh', rule='C15.R1', file='src/lib/object_store/ObjectFile.cpp', after='bool ObjectFile::isValid()', old='\trefresh();\n\n\treturn valid;', new='\treturn valid;'),
    dict(name='refresh-skips-token-index', rule='C15.R1', file='src/lib/object_store/ObjectFile.cpp', after='void ObjectFile::refresh(bool isFirstTime',
         old='\t\ttoken->index();\n', new='\t\t(void) token;\n'),
    dict(name='getobjects-without-index', rule='C15.R1', file='src/lib/object_store/OSToken.cpp', after='void OSToken::getObjects(std::set<OSObject*> &inObjects)', old='\tindex();\n', new=''),
    dict(name='index-count-shortcut', rule='C15.R2', file='src/lib/object_store/OSToken.cpp', after='bool OSToken::index(bool isFirstTime',
         old='\t// Compute the changes compared to the last list of files\n', new='\tif (!isFirstTime && (newSet.size() == currentFiles.size())) return true;\n'),
    dict(name='commit-skips-sync', rule='C15.R3', file='src/lib/object_store/ObjectFile.cpp', after='bool ObjectFile::writeAttributes(File &objectFile)',
         old='\tif (!gen->sync(objectFile))', new='\tif (!inTransaction && !gen->sync(objectFile))'),
    dict(name='token-generation-switched-on', rule='C15.R4', file='src/lib/object_store/OSToken.cpp', after='OSToken::OSToken(const std::string inTokenPath, int inUmask)',
         old='gen = Generation::create(tokenPath + OS_PATHSEP + "generation", true);', new='gen = Generation::create(tokenPath + OS_PATHSEP + "generation", umask, true);'),
    dict(name='refresh-reads-unlocked', rule='C15.R5', file='src/lib/object_store/ObjectFile.cpp', after='void ObjectFile::refresh(bool isFirstTime',
         old='\tobjectFile.lock();\n\n\tif (objectFile.isEmpty())', new='\tif (objectFile.isEmpty())'),
]
