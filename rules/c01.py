"""C01 — private objects are unreachable unless the normal user is logged in (DESIGN.md §3 C01)."""
import re
from engine.rulelib import *
from rules import common_handles as ch

EXPLANATION = (
    "Static decision of the access-control structure behind C01. R1: for every place in SoftHSM.cpp where a caller-supplied object handle becomes an OSObject* "
    "(handleManager->getObject), every later use of that object other than the probes the check itself needs is dominated, on every abstract path, by the fact "
    "haveRead/haveWrite(state of this call's session, CKA_TOKEN of that object, CKA_PRIVATE of that object)==CKR_OK — haveWrite for the modifying entry points; "
    "private helpers that re-fetch a handle receive the fact only if every call site establishes it. R2: haveRead/haveWrite are evaluated over their whole finite domain "
    "(6 states x token x private) and compared with the PKCS#11 access table. R3: every object creation (token->createObject / sessionObjectStore->createObject) is dominated "
    "by haveWrite on the very flags that select the store and are stored; the CKA_PRIVATE default assumed by the access check equals the default the attribute layer stores. "
    "R4: SecureDataManager::encrypt/decrypt evaluated with nobody logged in never reach the key; the login flags are written only by login/logout. R5: C_FindObjectsInit "
    "evaluated for every session state: a private object never reaches a handle registration outside the two USER states. The behaviour over call histories is not executed; "
    "its structural necessary conditions are decided for all sites and all paths.")
ASSUMPTIONS = [
    "objects are identified by the local variable that names them (no re-aliasing of OSObject* locals)",
    "handles to private objects do not survive a logout (decided separately by C11.R2/R5)",
    "callees outside /repo/src are uninterpreted",
]
TECHNIQUE = 'custom static analysis over the clang AST: path-sensitive dominating-fact dataflow at every handle-to-object site, finite-domain evaluation of the access matrix, the find filter and the decrypt gate, who-may-write sets'
LEVEL_TEXT = ('Every handle-use site, every creation site, all 168 cells of the access matrix (non-canonical CK_BBOOL values included) and every session state of the find filter are decided on every abstract path of the current source. '
              'This is the right level for the access-control clause (its truth is in the shape of the code at ~25 entry points); the quantification over call histories is reduced to it plus the purge rules of C11.')
LEVEL_NOTE = 'trusted: clang front end, normaliser, abstract interpreter (ESP-style merging keyed on the access facts); alias assumption on OSObject* locals'

WRITE_ENTRY = {'SoftHSM::C_DestroyObject': 'Write', 'SoftHSM::C_SetAttributeValue': 'Write'}
EXCEPT_MECHPARAM = {}      # the second key of CKM_CONCATENATE_BASE_AND_KEY was excepted here until F38 gave it an access check of its own


def session_var_ok(fn, svar):
    """svar is the local obtained from handleManager->getSession(<first parameter>)."""
    hs = param_name(fn, 0)
    for v, call in local_from_call(fn, 'getSession'):
        if v == svar and call.get('args') and canon(call['args'][0]) == hs:
            return True
    return False


def r1_access(ctx, prog):
    r = ctx.rule('C01.R1', 'access check (haveRead/haveWrite on this session and this object) dominates every use of a handle-derived object', floor=60, engine='E2')
    fns = [f for f in prog.functions.values() if f.get('class') == 'SoftHSM' and handle_objects(f)]
    results = {}
    for f in sorted(fns, key=lambda f: f['line']):
        ctx.analysed(f)
        if not check_analysable(r, f):
            continue
        res = ch.analyse(prog, f)
        results[f['qname']] = (f, res)
        r.paths += res[0]['paths'] if res else 0
    # first pass: direct discharge; collect helpers that need entry facts
    need_entry = []
    for q, (f, res) in results.items():
        for o in res:
            var = o['var']
            kinds = set(o['kinds'])
            if not check_shadowing(r, f, [var]):
                continue
            if kinds == {'own'}:
                # object created by this very call: the handle parameter must be filled by CreateObject in this function
                ok = any(short(c.get('callee')) == 'CreateObject' and any(a is not None and a.get('k') == 'Var' and ('*' + a['name']) in [h for h, _ in o['handles']] for a in c.get('args', []))
                         for c in calls(f['body']))
                if ok:
                    r.excepted(q, 'object %s' % var, 'look-up of the object this call created itself (handle written by CreateObject after its own haveWrite, C01.R3)', file=f['file'], line=o['handles'][0][1])
                else:
                    r.violation(q, 'object %s' % var, 'object fetched through an output-handle parameter that no CreateObject call of this function fills', file=f['file'], line=o['handles'][0][1])
                continue
            if 'mechparam' in kinds or 'other' in kinds:
                why = EXCEPT_MECHPARAM.get((q, var))
                if why:
                    r.excepted(q, 'object %s' % var, why, file=f['file'], line=o['handles'][0][1])
                    continue
                # a handle taken from a mechanism parameter (the second key of CKM_CONCATENATE_BASE_AND_KEY): no caller can have checked it, the check must dominate the uses here
            kind = WRITE_ENTRY.get(q, '(Read|Write)')
            rx = ch.access_fact_rx(var, kind)
            for site, hits in sorted(o['uses'].items()):
                bad = None
                for h in hits:
                    m = [rx.fullmatch(a) for a, t in h['facts'] if t]
                    m = [x for x in m if x]
                    if not m:
                        bad = h
                        break
                    svar = m[0].group(m[0].re.groups)       # last group = session variable
                    if not session_var_ok(f, svar):
                        bad = h
                        break
                if bad is None:
                    r.ok(q, site, '%d abstract states, all carry the access fact' % len(hits), file=f['file'], line=hits[0]['line'])
                else:
                    need_entry.append((q, f, o, site, bad))
    # second pass: helpers whose handle parameter is checked by every caller
    for q, f, o, site, bad in need_entry:
        var = o['var']
        hp = o['handles'][0][0]
        idx = param_index(f, hp)
        why = None
        if q.startswith('SoftHSM::C_') or idx is None:
            why = 'entry point' if idx is not None or q.startswith('SoftHSM::C_') else 'the handle comes from a mechanism parameter, no caller can have checked it'
        else:
            callers = [(g, c) for g in prog.functions.values() for c in calls(g['body'], callee=q)]
            if not callers:
                why = 'no caller found'
            for g, c in callers:
                if why:
                    break
                arg = c['args'][idx] if idx < len(c.get('args', [])) else None
                gho = handle_objects(g)
                gvars = [v for v, _ in gho.get(canon(arg), [])] if arg is not None else []
                if not gvars or canon(c['args'][0]) != param_name(g, 0):
                    why = 'caller %s passes a handle it did not check' % g['qname']
                    break
                gv = gvars[0]
                sf = SiteFacts(g, prog, trigger=lambda e, st, c=c: 'call' if e is c else None, track_facts=r'^EQ\(have(Read|Write)').go()
                rx = ch.access_fact_rx(gv)
                for h in sf.sites.get('call', []):
                    if not has_fact(h['facts'], rx):
                        why = 'caller %s reaches the call at line %s without the access fact on %s' % (g['qname'], c['l'], gv)
                        break
                if not sf.sites.get('call'):
                    why = 'call site in %s not reached by the analysis' % g['qname']
        if why is None:
            r.ok(q, site, 'entry fact: every caller establishes the access check on the handle it passes', file=f['file'], line=bad['line'])
        else:
            r.violation(q, site, 'object %s (from handle %s) is used on a path without a dominating haveRead/haveWrite==CKR_OK for this session and this object (%s)' % (var, hp, why),
                        file=f['file'], line=bad['line'], path=bad['path'])


def r2_matrix(ctx, prog):
    r = ctx.rule('C01.R2', 'the access matrix equals the PKCS#11 table on its whole domain, non-canonical CK_BBOOL values included', floor=48, engine='E1 finite-domain evaluation')
    st = {n: macro(prog, n) for n in ('CKS_RO_PUBLIC_SESSION', 'CKS_RO_USER_FUNCTIONS', 'CKS_RW_PUBLIC_SESSION', 'CKS_RW_USER_FUNCTIONS', 'CKS_RW_SO_FUNCTIONS')}
    st['<invalid state>'] = max(st.values()) + 1
    user = {'CKS_RO_USER_FUNCTIONS', 'CKS_RW_USER_FUNCTIONS'}
    ro = {'CKS_RO_PUBLIC_SESSION', 'CKS_RO_USER_FUNCTIONS'}
    for fname in ('haveRead', 'haveWrite'):
        f = prog.fn(fname)
        ctx.analysed(f)
        ps = [param_name(f, i) for i in range(3)]
        for sname, sval in st.items():
            # CK_BBOOL is a byte: every non-zero value means true - for the attribute layer, which stores it as true, and therefore for the matrix as well
            for tok in (0, 1, 2, 0xFF):
                for priv in (0, 1, 2, 0xFF):
                    if (tok > 1) != (priv > 1) and not (tok > 1 or priv > 1):
                        pass
                    if tok > 1 and priv > 1 and tok != priv:
                        continue
                    o = Outcomes(f, prog, cenv={ps[0]: sval, ps[1]: tok, ps[2]: priv}).go()
                    r.rows += 1
                    allowed = sname != '<invalid state>' and (not priv or sname in user)
                    if fname == 'haveWrite':
                        allowed = allowed and not (tok and sname in ro)
                    site = '%s(%s,token=%d,private=%d)' % (fname, sname, tok, priv)
                    rets = {oc['retv'] for oc in o.outcomes}
                    if None in rets or not rets:
                        r.undecided(fname, site, 'return value not constant under the finite-domain assignment: %s' % [oc['ret'] for oc in o.outcomes], file=f['file'], line=f['line'])
                    elif allowed and rets != {0}:
                        r.info('%s is stricter than PKCS#11 (returns %s)' % (site, rets))
                        r.ok(fname, site, 'stricter than required', file=f['file'], line=f['line'])
                    elif not allowed and 0 in rets:
                        r.violation(fname, site, '%s returns CKR_OK but PKCS#11 forbids this access' % site, file=f['file'], line=o.outcomes[0]['line'], path=o.outcomes[0]['path'])
                    else:
                        r.ok(fname, site, 'returns %s' % sorted(rets), file=f['file'], line=f['line'])
    r.exhaustive = True


def r3_creation(ctx, prog):
    r = ctx.rule('C01.R3', 'every object creation is dominated by haveWrite on the flags that select the store', floor=4, engine='E2')
    for f in sorted(prog.functions.values(), key=lambda f: (f['file'], f['line'])):
        if f.get('class') != 'SoftHSM':
            continue
        sites = [c for c in calls(f['body'], short='createObject')]
        if not sites:
            continue
        ctx.analysed(f)

        def trig(e, st):
            if e.get('k') == 'Call' and short(e.get('callee')) == 'createObject':
                return 'token store' if (e.get('callee') or '').startswith('Token') or not e.get('args') else 'session store'
            return None
        sf = SiteFacts(f, prog, trigger=trig, track_facts=r'^EQ\(haveWrite|CKA_TOKEN|^\w+$').go()
        r.paths += sf.paths_returned
        for site, hits in sorted(sf.sites.items()):
            bad = None
            for h in hits:
                ok = False
                for a, t in h['facts']:
                    pc = parse_call(a) if t and a.startswith('EQ(haveWrite(') else None
                    if not pc or pc[1][1] != 'CKR_OK':
                        continue
                    hw = parse_call(pc[1][0])
                    sv = re.fullmatch(r'getState\((\w+)\)', hw[1][0]) if hw and len(hw[1]) == 3 else None
                    if not sv or not session_var_ok(f, sv.group(1)):
                        continue
                    T, Pv = hw[1][1], hw[1][2]
                    if site == 'token store' and (T, True) in h['facts']:
                        ok = True
                    if site == 'session store' and (T, False) in h['facts']:
                        ok = True
                if not ok:
                    bad = h
                    break
            if bad:
                r.violation(f['qname'], 'createObject in ' + site, 'an object is created on a path without haveWrite(state, isOnToken, isPrivate)==CKR_OK on the flag that selected the %s' % site,
                            file=f['file'], line=bad['line'], path=bad['path'])
            else:
                r.ok(f['qname'], 'createObject in ' + site, '%d abstract states' % len(hits), file=f['file'], line=hits[0]['line'])
    # the CKA_PRIVATE default assumed by the access check == the default the attribute layer stores
    sd = prog.fn('P11AttrPrivate::setDefault')
    stored = None
    for n in walk(sd['body']):
        if n.get('k') == 'Ctor' and 'OSAttribute' in n.get('type', '') and n.get('args'):
            stored = const_or_none(n['args'][0])
    if stored is None:
        raise AnalysisBroken('P11AttrPrivate::setDefault: stored default not found')
    for f in sorted(prog.functions.values(), key=lambda f: (f['file'], f['line'])):
        for c in calls(f['body'], short='extractObjectInformation'):
            if f.get('class') != 'SoftHSM' or len(c.get('args', [])) < 7 or not list(calls(f['body'], short='createObject')):
                continue      # only the function that actually creates the object: its check is the binding one
            pv = c['args'][6]
            init = None
            for n in walk(f['body']):
                if n.get('k') == 'Decl':
                    for d in n['decls']:
                        if pv.get('k') == 'Var' and d['var']['name'] == pv['name'] and d.get('init') is not None:
                            init = const_or_none(d['init'])
            site = 'CKA_PRIVATE default before extractObjectInformation'
            if init is None:
                r.undecided(f['qname'], site, 'the privacy flag passed to extractObjectInformation has no constant initialiser', file=f['file'], line=c['l'])
            elif bool(init) != bool(stored) and not init:
                r.violation(f['qname'], site, 'the access check assumes CKA_PRIVATE=%d when the template omits it, but P11AttrPrivate::setDefault stores %d: a private object would be created after a public-object check' % (init, stored), file=f['file'], line=c['l'])
            else:
                r.ok(f['qname'], site, 'assumed default %d, stored default %d' % (init, stored), file=f['file'], line=c['l'])


def const_or_none(e):
    from engine.tables import const_eval
    return const_eval(e)


def r4_gate(ctx, prog):
    r = ctx.rule('C01.R4', 'attribute encryption/decryption is impossible while nobody is logged in; login flags are written only by login/logout', floor=4, engine='E1 finite-domain + E5 who-may-write')
    for name in ('SecureDataManager::decrypt', 'SecureDataManager::encrypt'):
        f = prog.fn(name)
        ctx.analysed(f)
        o = Outcomes(f, prog, cenv={'userLoggedIn': 0, 'soLoggedIn': 0}).go()
        r.paths += len(o.outcomes)
        bad = [oc for oc in o.outcomes if oc['retv'] != 0 or any(e[0] == 'call' and e[1] in ('unmask', 'setKeyBits', 'decryptInit', 'encryptInit') for e in oc['events'])]
        if bad:
            r.violation(name, 'nobody logged in', 'with userLoggedIn=soLoggedIn=false a path returns %s / reaches the master key' % bad[0]['ret'], file=f['file'], line=bad[0]['line'], path=bad[0]['path'])
        else:
            r.ok(name, 'nobody logged in', '%d paths, all return false before the key is touched' % len(o.outcomes), file=f['file'], line=f['line'])
    allowed = {'SecureDataManager::SecureDataManager', 'SecureDataManager::loginSO', 'SecureDataManager::loginUser', 'SecureDataManager::logout'}
    writers = {}
    for f in prog.functions.values():
        for n in walk(f['body']):
            if n.get('k') == 'Assign':
                for side in [n['a']]:
                    if side.get('k') == 'Member' and side.get('fq') in ('SecureDataManager::soLoggedIn', 'SecureDataManager::userLoggedIn'):
                        writers.setdefault(side['fq'], set()).add((f['qname'], n['l'], canon(n['b']), f['file']))
    for fq in ('SecureDataManager::soLoggedIn', 'SecureDataManager::userLoggedIn'):
        for q, line, val, file in sorted(writers.get(fq, ())):
            site = 'write of %s' % fq.split('::')[1]
            if re.fullmatch(r'false|\((so|user)LoggedIn=false\)', val):
                r.ok(q, site, 'cleared', file=file, line=line)
            elif q not in allowed:
                r.violation(q, site, '%s is assigned (%s) outside login/logout' % (fq, val), file=file, line=line)
            elif q.endswith('loginSO') or q.endswith('loginUser'):
                if not re.match(r'login@\d+\(this,', val):
                    r.violation(q, site, '%s is set to %s, not to the result of the PIN check' % (fq, val), file=file, line=line)
                else:
                    r.ok(q, site, 'assigned from login()', file=file, line=line)
            else:
                r.ok(q, site, 'assigned %s' % val, file=file, line=line)


def r5_find(ctx, prog):
    r = ctx.rule('C01.R5', 'search filter: outside the USER states a private object never reaches a handle registration', floor=4, engine='E1+E3 finite-domain path enumeration')
    f = prog.fn('SoftHSM::C_FindObjectsInit')
    ctx.analysed(f)
    if not check_analysable(r, f):
        return
    st = {n: macro(prog, n) for n in ('CKS_RO_PUBLIC_SESSION', 'CKS_RO_USER_FUNCTIONS', 'CKS_RW_PUBLIC_SESSION', 'CKS_RW_USER_FUNCTIONS', 'CKS_RW_SO_FUNCTIONS')}
    st['<invalid state>'] = max(st.values()) + 1
    for sname, sval in st.items():
        if sname in ('CKS_RO_USER_FUNCTIONS', 'CKS_RW_USER_FUNCTIONS'):
            continue
        # the filter does not depend on the template: the empty template (which matches every object) keeps the matching loop out of the enumeration
        cenv = {re.compile(r'getState\(\w+\)'): sval, re.compile(r'getBooleanValue\(.*,CKA_PRIVATE,\w+\)'): 1, param_name(f, 2): 0}
        o = Outcomes(f, prog, cenv=cenv, record_calls={'addTokenObject', 'addSessionObject', 'insert'})
        o.CAP = 48
        o.LOOP_ROUNDS = 1
        o.go()
        r.paths += len(o.outcomes)
        bad = [oc for oc in o.outcomes if oc['events']]
        site = 'state %s, private object' % sname
        if bad:
            e = bad[0]['events'][0]
            r.violation(f['qname'], site, 'in session state %s a private object reaches %s (line %s): the search hands out a handle to it' % (sname, e[1], e[3]), file=f['file'], line=e[3], path=bad[0]['path'])
        else:
            r.ok(f['qname'], site, '%d abstract paths, none registers a handle' % len(o.outcomes), file=f['file'], line=f['line'])


def bbool_reads(fn):
    """Assignments / initialisations whose right-hand side reads a CK_BBOOL through the pValue of a template entry: [(target Var node, rhs, template variable name, line)]."""
    out = []
    for n in walk(fn['body']):
        pairs = []
        if n.get('k') == 'Assign' and n.get('op') == '=':
            pairs.append((n['a'], n['b']))
        elif n.get('k') == 'Decl':
            pairs += [(d['var'], d['init']) for d in n['decls'] if d.get('init')]
        for lhs, rhs in pairs:
            for x in walk(rhs):
                if x.get('k') == 'Un' and x.get('op') == '*' and x['e'].get('k') == 'Member' and x['e'].get('field') == 'pValue' and 'CK_BBOOL' in (x['e'].get('cast') or ''):
                    base = [v['name'] for v in walk(x['e']['base']) if v.get('k') == 'Var' and v.get('kind') == 'param']
                    if lhs.get('k') == 'Var' and base:
                        out.append((lhs, rhs, base[0], n.get('l')))
    return out


class BoolReads(Outcomes):
    """Records the concrete value every policy flag receives from a template entry."""
    targets = ()
    NO_RETURN_SPLIT = True      # `flag = (byte == CK_TRUE) ? CK_TRUE : CK_FALSE` is evaluated as one expression: the hook has to see the template read

    def on_assign(self, lhs, rhs, st):
        if lhs.get('k') == 'Var' and lhs['name'] in self.targets and rhs is not None and any(x.get('k') == 'Member' and x.get('field') == 'pValue' for x in walk(rhs)):
            self.ev(st, ('flag', lhs['name'], self.ceval(rhs, st), lhs.get('l')))
        return super().on_assign(lhs, rhs, st)


def r7_bool_values(ctx, prog, rule_id='C01.R7'):
    """The access decision for a new object is taken on the CKA_TOKEN / CKA_PRIVATE values read from the template; the attribute layer then stores the same template values. Both must read a
    CK_BBOOL the same way for EVERY byte value (0, 1, and the non-canonical 2 / 0xff), otherwise an object is checked as public and stored as private (or checked as session, stored on the token)."""
    r = ctx.rule(rule_id, 'policy flags and stored flags read a template CK_BBOOL the same way', floor=12, engine='E2 finite-domain evaluation + E7 sibling agreement')
    # what the store does with the byte: P11AttrPrivate / P11AttrToken ::updateAttr
    stored = {}
    for attr, cls in (('CKA_PRIVATE', 'P11AttrPrivate'), ('CKA_TOKEN', 'P11AttrToken')):
        u = prog.fn(cls + '::updateAttr')
        ctx.analysed(u)
        inits = {d['var']['name']: d['init'] for n in walk(u['body']) if n.get('k') == 'Decl' for d in n['decls'] if d.get('init')}
        for v in (0, 1, 2, 255):
            o = Outcomes(u, prog, cenv={re.compile(r'\*%s' % param_name(u, 2)): v, param_name(u, 3): 1, param_name(u, 4): macro(prog, 'OBJECT_OP_CREATE')}, record_calls={'setAttribute'}).go()
            r.paths += len(o.outcomes)
            vals = set()
            for oc in o.outcomes:
                for e in oc['events']:
                    if e[0] == 'call' and e[1] == 'setAttribute':
                        a = e[2][-1]
                        i = inits.get(a)
                        lit = [x for x in walk(i)] if i else []
                        lv = [x['v'] for x in lit if x.get('k') == 'Lit']
                        vals.add(bool(int(lv[0])) if lv and str(lv[0]).lstrip('-').isdigit() else ('true' in a if ('true' in a or 'false' in a) else None))
            if len(vals) != 1 or None in vals:
                r.undecided(u['qname'], 'stored value for byte %d' % v, 'cannot tell what is stored: %s' % sorted(map(str, vals)), file=u['file'], line=u['line'])
                return
            stored[(attr, v)] = vals.pop()
    for g in sorted(prog.functions.values(), key=lambda g: (g['file'], g['line'])):
        if not g['file'].endswith('SoftHSM.cpp'):
            continue
        reads = bbool_reads(g)
        if not reads:
            continue
        # policy flags: by-reference outputs, or variables handed to haveWrite/haveRead in this function
        pol = {x['name'] for c in calls(g['body']) if short(c.get('callee')) in ('haveWrite', 'haveRead') for a in c.get('args', []) if a for x in walk(a) if x.get('k') == 'Var'}
        pol |= {pp['var']['name'] for pp in g['params'] if pp.get('var') and '&' in (pp.get('type') or '')}
        reads = [x for x in reads if x[0]['name'] in pol]
        if not reads:
            continue
        ctx.analysed(g)
        tmpl = reads[0][2]
        seen_any = False
        for attr in ('CKA_PRIVATE', 'CKA_TOKEN'):
            seen = 0
            for v in (0, 1, 2, 255):
                cenv = {'isInitialised': 1, re.compile(r'%s\[\w+\]\.type' % tmpl): macro(prog, attr), re.compile(r'%s\[\w+\]\.ulValueLen' % tmpl): 1, re.compile(r'\*%s\[\w+\]\.pValue' % tmpl): v}
                o = BoolReads(g, prog, cenv=cenv, record_calls=set())
                o.targets = {x[0]['name'] for x in reads}
                o.CAP = 64
                o.LOOP_ROUNDS = 2
                o.go()
                r.paths += len(o.outcomes)
                got = {(e[1], e[2], e[3]) for oc in o.outcomes for e in oc['events'] if e[0] == 'flag'}
                site = '%s byte %d' % (attr, v)
                if not got:
                    continue
                seen += 1
                und = [x for x in got if not isinstance(x[1], int)]
                bad = [x for x in got if isinstance(x[1], int) and bool(x[1]) != stored[(attr, v)]]
                if bad:
                    r.violation(g['qname'], site, 'a template %s of byte value %d makes the policy flag %s %s (line %s), while %s::updateAttr stores %s for the same byte: the access check and the stored object disagree'
                                % (attr, v, bad[0][0], 'true' if bad[0][1] else 'false', bad[0][2], 'P11AttrPrivate' if attr == 'CKA_PRIVATE' else 'P11AttrToken', 'true' if stored[(attr, v)] else 'false'),
                                file=g['file'], line=bad[0][2])
                elif und:
                    r.undecided(g['qname'], site, 'value of %s not concrete' % und[0][0], file=g['file'], line=und[0][2])
                else:
                    r.ok(g['qname'], site, ', '.join('%s=%s' % (x[0], x[1]) for x in sorted(got)), file=g['file'], line=sorted(got)[0][2])
            seen_any = seen_any or bool(seen)
            if not seen:
                continue        # this function does not take that flag from the template for a policy decision (decided below: at least one of the two must be seen)
            # the same attribute twice: the attribute layer applies the entries in order, so the last one is what gets stored; the policy flag must be the last one too
            names = [pp['var']['name'] for pp in g['params']]
            cnt = names[names.index(tmpl) + 1] if tmpl in names and names.index(tmpl) + 1 < len(names) else None
            for v0, v1 in ((1, 0), (0, 1)):
                site = '%s given twice (%d then %d)' % (attr, v0, v1)
                if cnt is None:
                    r.undecided(g['qname'], site, 'no count parameter after %s' % tmpl, file=g['file'], line=g['line'])
                    continue
                cenv = {'isInitialised': 1, cnt: 3, '#concrete-loops': 1}
                other = 'CKA_TOKEN' if attr == 'CKA_PRIVATE' else 'CKA_PRIVATE'
                for j, a, v in ((0, attr, v0), (1, other, 1), (2, attr, v1)):       # the other policy attribute in between: a scan that stops once it has seen one of each is caught too
                    cenv.update({re.compile(r'%s\[%d\]\.type' % (tmpl, j)): macro(prog, a), re.compile(r'%s\[%d\]\.ulValueLen' % (tmpl, j)): 1, re.compile(r'\*%s\[%d\]\.pValue' % (tmpl, j)): v})
                o = BoolReads(g, prog, cenv=cenv, record_calls=set())
                o.targets = {x[0]['name'] for x in reads}
                o.CAP = 64
                o.LOOP_ROUNDS = 4
                o.go()
                r.paths += len(o.outcomes)
                finals = set()
                for oc in o.outcomes:
                    fl = [e for e in oc['events'] if e[0] == 'flag']
                    fl = [e for e in fl if e[1] == fl[0][1]]        # the variable the first entry (this attribute) went to
                    if len(fl) >= 1 and (may_succeed(oc) or oc['ret'] is None):
                        finals.add((fl[-1][1], fl[-1][2], fl[-1][3], len(fl)))
                if not finals:
                    r.undecided(g['qname'], site, 'no path reads the flag', file=g['file'], line=g['line'])
                elif any(not isinstance(x[1], int) for x in finals):
                    r.undecided(g['qname'], site, 'flag value not concrete', file=g['file'], line=g['line'])
                elif any(bool(x[1]) != bool(v1) for x in finals):
                    x = [x for x in finals if bool(x[1]) != bool(v1)][0]
                    r.violation(g['qname'], site, 'the policy flag %s ends up %s (taken from the first entry, line %s), while saveTemplate applies both entries in order and stores %s: the access / downgrade check and the stored object disagree'
                                % (x[0], 'true' if x[1] else 'false', x[2], 'true' if v1 else 'false'), file=g['file'], line=x[2])
                else:
                    r.ok(g['qname'], site, 'last entry wins (%s)' % ', '.join(sorted('%s=%s' % (x[0], x[1]) for x in finals)), file=g['file'], line=g['line'])
        if not seen_any:
            r.undecided(g['qname'], 'template flags', 'no read of CKA_PRIVATE / CKA_TOKEN into a policy flag was reached', file=g['file'], line=g['line'])


def r11_operations_end_with_login(ctx, prog):
    """A running sign / decrypt / encrypt / derive operation holds its own copy of the key.  "A private object can be used as a key only through a session of a token on which the normal
    user is logged in" therefore needs every transition that leaves the user state (C_Logout; closing sessions destroys them anyway) to end the operations of the token's sessions:
    Session::resetOp must be reachable from the transition."""
    r = ctx.rule('C01.R11', 'leaving the user state ends the active operations of the token\'s sessions (they hold copies of private keys)', floor=1, engine='E6 call-graph reachability (must-reach)')
    from engine import callgraph
    for q in ('SoftHSM::C_Logout',):
        f = prog.fn(q)
        ctx.analysed(f)
        rs = callgraph.reach(prog, q)
        site = 'operations of the other sessions'
        if 'Session::resetOp' in rs:
            r.ok(q, site, 'Session::resetOp is reached', file=f['file'], line=f['line'])
        else:
            r.violation(q, site, 'nothing reachable from %s ends the active operations of the token\'s sessions: after C_SignInit / C_DecryptInit / C_EncryptInit with a private key, C_Logout, the pending C_Sign / C_Decrypt / C_Encrypt still succeeds in what is now a public session - the private key is used without the normal user being logged in' % short(q),
                        file=f['file'], line=f['line'])


def run(ctx):
    prog = ctx.prog('ossl-file')
    r1_access(ctx, prog)
    r2_matrix(ctx, prog)
    r3_creation(ctx, prog)
    r4_gate(ctx, prog)
    r5_find(ctx, prog)
    from rules import c11
    c11.r5_predicates(ctx, prog, rule_id='C01.R6')
    r7_bool_values(ctx, prog)
    from rules import c06
    c06.r7_default_privacy(ctx, prog, rule_id='C01.R8')
    from rules import c09, c08
    c09.r5_cleanup_target(ctx, prog, rule_id='C01.R9')
    c08.r1_engine(ctx, prog, rule_id='C01.R10')
    r11_operations_end_with_login(ctx, prog)
    from rules import c05
    c05.r7_placement_flags(ctx, prog, rule_id='C01.R12')


MUTANTS = [
    dict(name='extract-private-canonical-only', rule='C01.R7', file='src/lib/SoftHSM.cpp', after='static CK_RV extractObjectInformation(',
         old='isPrivate = *(CK_BBOOL*)pTemplate[i].pValue;', new='isPrivate = (*(CK_BBOOL*)pTemplate[i].pValue == CK_TRUE) ? CK_TRUE : CK_FALSE;'),
    dict(name='symdecryptinit-no-access-check', rule='C01.R1', function='SymDecryptInit', file='src/lib/SoftHSM.cpp',
         after='CK_RV SoftHSM::SymDecryptInit(',
         old='\tCK_RV rv = haveRead(session->getState(), isOnToken, isPrivate);\n', new='\tCK_RV rv = CKR_OK;\n'),
    dict(name='setattribute-read-instead-of-write', rule='C01.R1', function='C_SetAttributeValue', file='src/lib/SoftHSM.cpp',
         old='''	CK_RV rv = haveWrite(session->getState(), isOnToken, isPrivate);
	if (rv != CKR_OK)
	{
		if (rv == CKR_USER_NOT_LOGGED_IN)
			INFO_MSG("User is not authorized");
		if (rv == CKR_SESSION_READ_ONLY)
			INFO_MSG("Session is read-only");

		return rv;
	}

	// Check if the object is modifiable''',
         new='''	CK_RV rv = haveRead(session->getState(), isOnToken, isPrivate);
	if (rv != CKR_OK)
	{
		return rv;
	}

	// Check if the object is modifiable'''),
    dict(name='haveread-so-sees-private', rule='C01.R2', file='src/lib/access.cpp',
         old='''        case CKS_RW_PUBLIC_SESSION:
        case CKS_RW_SO_FUNCTIONS:
            return isPrivateObject ? CKR_USER_NOT_LOGGED_IN : CKR_OK;
        case CKS_RO_USER_FUNCTIONS:
        case CKS_RW_USER_FUNCTIONS:
            return CKR_OK;''',
         new='''        case CKS_RW_PUBLIC_SESSION:
            return isPrivateObject ? CKR_USER_NOT_LOGGED_IN : CKR_OK;
        case CKS_RW_SO_FUNCTIONS:
        case CKS_RO_USER_FUNCTIONS:
        case CKS_RW_USER_FUNCTIONS:
            return CKR_OK;'''),
    dict(name='find-filter-dropped', rule='C01.R5', file='src/lib/SoftHSM.cpp',
         old='		if (isPublicSession && isPrivateObject)\n			continue; // skip object\n', new=''),
    dict(name='find-so-counts-as-user', rule='C01.R5', file='src/lib/SoftHSM.cpp',
         old='''		case CKS_RO_USER_FUNCTIONS:
		case CKS_RW_USER_FUNCTIONS:
			isPublicSession = false;''',
         new='''		case CKS_RO_USER_FUNCTIONS:
		case CKS_RW_USER_FUNCTIONS:
		case CKS_RW_SO_FUNCTIONS:
			isPublicSession = false;'''),
    dict(name='decrypt-gate-user-only-dropped', rule='C01.R4', file='src/lib/data_mgr/SecureDataManager.cpp',
         old='''bool SecureDataManager::decrypt(const ByteString& encrypted, ByteString& plaintext)
{
	// Check the object logged in state
	if ((!userLoggedIn && !soLoggedIn) || (maskedKey.size() != 32))''',
         new='''bool SecureDataManager::decrypt(const ByteString& encrypted, ByteString& plaintext)
{
	// Check the object logged in state
	if (maskedKey.size() != 32)'''),
    dict(name='copyobject-havewrite-on-old-flag', rule='C01.R3', file='src/lib/SoftHSM.cpp', after='CK_RV SoftHSM::C_CopyObject(',
         old='\trv = haveWrite(session->getState(), isOnToken, isPrivate);\n', new='\trv = haveWrite(session->getState(), wasOnToken, isPrivate);\n'),
    dict(name='createobject-public-default', rule='C01.R3', function='CreateObject', file='src/lib/SoftHSM.cpp',
         old='''	CK_BBOOL isOnToken = CK_FALSE;
	CK_BBOOL isPrivate = CK_TRUE;
	bool isImplicit = false;
	CK_RV rv = extractObjectInformation(pTemplate,ulCount,objClass,keyType,certType, isOnToken, isPrivate, isImplicit);
	if (rv != CKR_OK)
	{
		ERROR_MSG("Mandatory attribute not present in template");''',
         new='''	CK_BBOOL isOnToken = CK_FALSE;
	CK_BBOOL isPrivate = CK_FALSE;
	bool isImplicit = false;
	CK_RV rv = extractObjectInformation(pTemplate,ulCount,objClass,keyType,certType, isOnToken, isPrivate, isImplicit);
	if (rv != CKR_OK)
	{
		ERROR_MSG("Mandatory attribute not present in template");'''),
]
