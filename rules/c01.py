"""C01 — private objects are unreachable unless the normal user is logged in (DESIGN.md §3 C01)."""
import re
from engine.rulelib import *
from rules import common_handles as ch

EXPLANATION = (
    "Static decision of the access-control structure behind C01. R1: for every place in SoftHSM.cpp where a caller-supplied object handle becomes an OSObject* "
    "(handleManager->getObject), every later use of that object other than the probes the check itself needs is dominated, on every abstract path, by the fact "
    "haveRead/haveWrite(state of this call's session, CKA_TOKEN of that object, CKA_PRIVATE of that object)==CKR_OK — haveWrite for the modifying entry points; "
    "private helpers that re-fetch a handle receive the fact only if every call site establishes it. R2: haveRead/haveWrite are evaluated over their whole finite domain "
    "(6 states x token x private) and compared with the PKCS#11 access table. R3: every object creation (token->createObject / sessionObjectStore->createObject) is dominated "
    "by haveWrite on the very flags that select the store and are stored; the CKA_PRIVATE default assumed by the access check equals the default the attribute layer stores. "
    "R4: SecureDataManager::encrypt/decrypt evaluated with nobody logged in never reach the key; the login flags are written only by login/logout. R5: C_FindObjectsInit "
    "evaluated for every session state: a private object never reaches a handle registration outside the two USER states. The behaviour over call histories is not executed; "
    "its structural necessary conditions are decided for all sites and all paths.")
ASSUMPTIONS = [
    "objects are identified by the local variable that names them (no re-aliasing of OSObject* locals)",
    "handles to private objects do not survive a logout (decided separately by C11.R2/R5)",
    "callees outside /repo/src are uninterpreted",
]
TECHNIQUE = 'custom static analysis over the clang AST: path-sensitive dominating-fact dataflow at every handle-to-object site, finite-domain evaluation of the access matrix, the find filter and the decrypt gate, who-may-write sets'
LEVEL_TEXT = ('Every handle-use site, every creation site, all 48 cells of the access matrix and every session state of the find filter are decided on every abstract path of the current source. '
              'This is the right level for the access-control clause (its truth is in the shape of the code at ~25 entry points); the quantification over call histories is reduced to it plus the purge rules of C11.')
LEVEL_NOTE = 'trusted: clang front end, normaliser, abstract interpreter (ESP-style merging keyed on the access facts); alias assumption on OSObject* locals'

WRITE_ENTRY = {'SoftHSM::C_DestroyObject': 'Write', 'SoftHSM::C_SetAttributeValue': 'Write'}
EXCEPT_MECHPARAM = {('SoftHSM::deriveSymmetric', 'otherKey'):
                    'second key of CKM_CONCATENATE_BASE_AND_KEY: no handle to a private object exists outside the USER states (C11.R2/R5, C01.R5) and its value is only read through Token::decrypt (C01.R4)'}


def session_var_ok(fn, svar):
    """svar is the local obtained from handleManager->getSession(<first parameter>)."""
    hs = param_name(fn, 0)
    for v, call in local_from_call(fn, 'getSession'):
        if v == svar and call.get('args') and canon(call['args'][0]) == hs:
            return True
    return False


def r1_access(ctx, prog):
    r = ctx.rule('C01.R1', 'access check (haveRead/haveWrite on this session and this object) dominates every use of a handle-derived object', floor=60, engine='E2')
    fns = [f for f in prog.functions.values() if f.get('class') == 'SoftHSM' and handle_objects(f)]
    results = {}
    for f in sorted(fns, key=lambda f: f['line']):
        ctx.analysed(f)
        if not check_analysable(r, f):
            continue
        res = ch.analyse(prog, f)
        results[f['qname']] = (f, res)
        r.paths += res[0]['paths'] if res else 0
    # first pass: direct discharge; collect helpers that need entry facts
    need_entry = []
    for q, (f, res) in results.items():
        for o in res:
            var = o['var']
            kinds = set(o['kinds'])
            if not check_shadowing(r, f, [var]):
                continue
            if kinds == {'own'}:
                # object created by this very call: the handle parameter must be filled by CreateObject in this function
                ok = any(short(c.get('callee')) == 'CreateObject' and any(a is not None and a.get('k') == 'Var' and ('*' + a['name']) in [h for h, _ in o['handles']] for a in c.get('args', []))
                         for c in calls(f['body']))
                if ok:
                    r.excepted(q, 'object %s' % var, 'look-up of the object this call created itself (handle written by CreateObject after its own haveWrite, C01.R3)', file=f['file'], line=o['handles'][0][1])
                else:
                    r.violation(q, 'object %s' % var, 'object fetched through an output-handle parameter that no CreateObject call of this function fills', file=f['file'], line=o['handles'][0][1])
                continue
            if 'mechparam' in kinds or 'other' in kinds:
                why = EXCEPT_MECHPARAM.get((q, var))
                if why:
                    r.excepted(q, 'object %s' % var, why, file=f['file'], line=o['handles'][0][1])
                else:
                    r.violation(q, 'object %s' % var, 'object obtained from a handle that is neither a parameter nor an own output handle (%s) and is used without access check' % (o['handles'],), file=f['file'], line=o['handles'][0][1])
                continue
            kind = WRITE_ENTRY.get(q, '(Read|Write)')
            rx = ch.access_fact_rx(var, kind)
            for site, hits in sorted(o['uses'].items()):
                bad = None
                for h in hits:
                    m = [rx.fullmatch(a) for a, t in h['facts'] if t]
                    m = [x for x in m if x]
                    if not m:
                        bad = h
                        break
                    svar = m[0].group(m[0].re.groups)       # last group = session variable
                    if not session_var_ok(f, svar):
                        bad = h
                        break
                if bad is None:
                    r.ok(q, site, '%d abstract states, all carry the access fact' % len(hits), file=f['file'], line=hits[0]['line'])
                else:
                    need_entry.append((q, f, o, site, bad))
    # second pass: helpers whose handle parameter is checked by every caller
    for q, f, o, site, bad in need_entry:
        var = o['var']
        hp = o['handles'][0][0]
        idx = param_index(f, hp)
        why = None
        if q.startswith('SoftHSM::C_') or idx is None:
            why = 'entry point'
        else:
            callers = [(g, c) for g in prog.functions.values() for c in calls(g['body'], callee=q)]
            if not callers:
                why = 'no caller found'
            for g, c in callers:
                if why:
                    break
                arg = c['args'][idx] if idx < len(c.get('args', [])) else None
                gho = handle_objects(g)
                gvars = [v for v, _ in gho.get(canon(arg), [])] if arg is not None else []
                if not gvars or canon(c['args'][0]) != param_name(g, 0):
                    why = 'caller %s passes a handle it did not check' % g['qname']
                    break
                gv = gvars[0]
                sf = SiteFacts(g, prog, trigger=lambda e, st, c=c: 'call' if e is c else None, track_facts=r'^EQ\(have(Read|Write)').go()
                rx = ch.access_fact_rx(gv)
                for h in sf.sites.get('call', []):
                    if not has_fact(h['facts'], rx):
                        why = 'caller %s reaches the call at line %s without the access fact on %s' % (g['qname'], c['l'], gv)
                        break
                if not sf.sites.get('call'):
                    why = 'call site in %s not reached by the analysis' % g['qname']
        if why is None:
            r.ok(q, site, 'entry fact: every caller establishes the access check on the handle it passes', file=f['file'], line=bad['line'])
        else:
            r.violation(q, site, 'object %s (from handle %s) is used on a path without a dominating haveRead/haveWrite==CKR_OK for this session and this object (%s)' % (var, hp, why),
                        file=f['file'], line=bad['line'], path=bad['path'])


def r2_matrix(ctx, prog):
    r = ctx.rule('C01.R2', 'the access matrix equals the PKCS#11 table on its whole domain', floor=48, engine='E1 finite-domain evaluation')
    st = {n: macro(prog, n) for n in ('CKS_RO_PUBLIC_SESSION', 'CKS_RO_USER_FUNCTIONS', 'CKS_RW_PUBLIC_SESSION', 'CKS_RW_USER_FUNCTIONS', 'CKS_RW_SO_FUNCTIONS')}
    st['<invalid state>'] = max(st.values()) + 1
    user = {'CKS_RO_USER_FUNCTIONS', 'CKS_RW_USER_FUNCTIONS'}
    ro = {'CKS_RO_PUBLIC_SESSION', 'CKS_RO_USER_FUNCTIONS'}
    for fname in ('haveRead', 'haveWrite'):
        f = prog.fn(fname)
        ctx.analysed(f)
        ps = [param_name(f, i) for i in range(3)]
        for sname, sval in st.items():
            for tok in (0, 1):
                for priv in (0, 1):
                    o = Outcomes(f, prog, cenv={ps[0]: sval, ps[1]: tok, ps[2]: priv}).go()
                    r.rows += 1
                    allowed = sname != '<invalid state>' and (not priv or sname in user)
                    if fname == 'haveWrite':
                        allowed = allowed and not (tok and sname in ro)
                    site = '%s(%s,token=%d,private=%d)' % (fname, sname, tok, priv)
                    rets = {oc['retv'] for oc in o.outcomes}
                    if None in rets or not rets:
                        r.undecided(fname, site, 'return value not constant under the finite-domain assignment: %s' % [oc['ret'] for oc in o.outcomes], file=f['file'], line=f['line'])
                    elif allowed and rets != {0}:
                        r.info('%s is stricter than PKCS#11 (returns %s)' % (site, rets))
                        r.ok(fname, site, 'stricter than required', file=f['file'], line=f['line'])
                    elif not allowed and 0 in rets:
                        r.violation(fname, site, '%s returns CKR_OK but PKCS#11 forbids this access' % site, file=f['file'], line=o.outcomes[0]['line'], path=o.outcomes[0]['path'])
                    else:
                        r.ok(fname, site, 'returns %s' % sorted(rets), file=f['file'], line=f['line'])
    r.exhaustive = True


def r3_creation(ctx, prog):
    r = ctx.rule('C01.R3', 'every object creation is dominated by haveWrite on the flags that select the store', floor=4, engine='E2')
    for f in sorted(prog.functions.values(), key=lambda f: (f['file'], f['line'])):
        if f.get('class') != 'SoftHSM':
            continue
        sites = [c for c in calls(f['body'], short='createObject')]
        if not sites:
            continue
        ctx.analysed(f)

        def trig(e, st):
            if e.get('k') == 'Call' and short(e.get('callee')) == 'createObject':
                return 'token store' if (e.get('callee') or '').startswith('Token') or not e.get('args') else 'session store'
            return None
        sf = SiteFacts(f, prog, trigger=trig, track_facts=r'^EQ\(haveWrite|CKA_TOKEN|^\w+$').go()
        r.paths += sf.paths_returned
        for site, hits in sorted(sf.sites.items()):
            bad = None
            for h in hits:
                ok = False
                for a, t in h['facts']:
                    pc = parse_call(a) if t and a.startswith('EQ(haveWrite(') else None
                    if not pc or pc[1][1] != 'CKR_OK':
                        continue
                    hw = parse_call(pc[1][0])
                    sv = re.fullmatch(r'getState\((\w+)\)', hw[1][0]) if hw and len(hw[1]) == 3 else None
                    if not sv or not session_var_ok(f, sv.group(1)):
                        continue
                    T, Pv = hw[1][1], hw[1][2]
                    if site == 'token store' and (T, True) in h['facts']:
                        ok = True
                    if site == 'session store' and (T, False) in h['facts']:
                        ok = True
                if not ok:
                    bad = h
                    break
            if bad:
                r.violation(f['qname'], 'createObject in ' + site, 'an object is created on a path without haveWrite(state, isOnToken, isPrivate)==CKR_OK on the flag that selected the %s' % site,
                            file=f['file'], line=bad['line'], path=bad['path'])
            else:
                r.ok(f['qname'], 'createObject in ' + site, '%d abstract states' % len(hits), file=f['file'], line=hits[0]['line'])
    # the CKA_PRIVATE default assumed by the access check == the default the attribute layer stores
    sd = prog.fn('P11AttrPrivate::setDefault')
    stored = None
    for n in walk(sd['body']):
        if n.get('k') == 'Ctor' and 'OSAttribute' in n.get('type', '') and n.get('args'):
            stored = const_or_none(n['args'][0])
    if stored is None:
        raise AnalysisBroken('P11AttrPrivate::setDefault: stored default not found')
    for f in sorted(prog.functions.values(), key=lambda f: (f['file'], f['line'])):
        for c in calls(f['body'], short='extractObjectInformation'):
            if f.get('class') != 'SoftHSM' or len(c.get('args', [])) < 7 or not list(calls(f['body'], short='createObject')):
                continue      # only the function that actually creates the object: its check is the binding one
            pv = c['args'][6]
            init = None
            for n in walk(f['body']):
                if n.get('k') == 'Decl':
                    for d in n['decls']:
                        if pv.get('k') == 'Var' and d['var']['name'] == pv['name'] and d.get('init') is not None:
                            init = const_or_none(d['init'])
            site = 'CKA_PRIVATE default before extractObjectInformation'
            if init is None:
                r.undecided(f['qname'], site, 'the privacy flag passed to extractObjectInformation has no constant initialiser', file=f['file'], line=c['l'])
            elif bool(init) != bool(stored) and not init:
                r.violation(f['qname'], site, 'the access check assumes CKA_PRIVATE=%d when the template omits it, but P11AttrPrivate::setDefault stores %d: a private object would be created after a public-object check' % (init, stored), file=f['file'], line=c['l'])
            else:
                r.ok(f['qname'], site, 'assumed default %d, stored default %d' % (init, stored), file=f['file'], line=c['l'])


def const_or_none(e):
    from engine.tables import const_eval
    return const_eval(e)


def r4_gate(ctx, prog):
    r = ctx.rule('C01.R4', 'attribute encryption/decryption is impossible while nobody is logged in; login flags are written only by login/logout', floor=4, engine='E1 finite-domain + E5 who-may-write')
    for name in ('SecureDataManager::decrypt', 'SecureDataManager::encrypt'):
        f = prog.fn(name)
        ctx.analysed(f)
        o = Outcomes(f, prog, cenv={'userLoggedIn': 0, 'soLoggedIn': 0}).go()
        r.paths += len(o.outcomes)
        bad = [oc for oc in o.outcomes if oc['retv'] != 0 or any(e[0] == 'call' and e[1] in ('unmask', 'setKeyBits', 'decryptInit', 'encryptInit') for e in oc['events'])]
        if bad:
            r.violation(name, 'nobody logged in', 'with userLoggedIn=soLoggedIn=false a path returns %s / reaches the master key' % bad[0]['ret'], file=f['file'], line=bad[0]['line'], path=bad[0]['path'])
        else:
            r.ok(name, 'nobody logged in', '%d paths, all return false before the key is touched' % len(o.outcomes), file=f['file'], line=f['line'])
    allowed = {'SecureDataManager::SecureDataManager', 'SecureDataManager::loginSO', 'SecureDataManager::loginUser', 'SecureDataManager::logout'}
    writers = {}
    for f in prog.functions.values():
        for n in walk(f['body']):
            if n.get('k') == 'Assign':
                for side in [n['a']]:
                    if side.get('k') == 'Member' and side.get('fq') in ('SecureDataManager::soLoggedIn', 'SecureDataManager::userLoggedIn'):
                        writers.setdefault(side['fq'], set()).add((f['qname'], n['l'], canon(n['b']), f['file']))
    for fq in ('SecureDataManager::soLoggedIn', 'SecureDataManager::userLoggedIn'):
        for q, line, val, file in sorted(writers.get(fq, ())):
            site = 'write of %s' % fq.split('::')[1]
            if re.fullmatch(r'false|\((so|user)LoggedIn=false\)', val):
                r.ok(q, site, 'cleared', file=file, line=line)
            elif q not in allowed:
                r.violation(q, site, '%s is assigned (%s) outside login/logout' % (fq, val), file=file, line=line)
            elif q.endswith('loginSO') or q.endswith('loginUser'):
                if not re.match(r'login@\d+\(this,', val):
                    r.violation(q, site, '%s is set to %s, not to the result of the PIN check' % (fq, val), file=file, line=line)
                else:
                    r.ok(q, site, 'assigned from login()', file=file, line=line)
            else:
                r.ok(q, site, 'assigned %s' % val, file=file, line=line)


def r5_find(ctx, prog):
    r = ctx.rule('C01.R5', 'search filter: outside the USER states a private object never reaches a handle registration', floor=4, engine='E1+E3 finite-domain path enumeration')
    f = prog.fn('SoftHSM::C_FindObjectsInit')
    ctx.analysed(f)
    if not check_analysable(r, f):
        return
    st = {n: macro(prog, n) for n in ('CKS_RO_PUBLIC_SESSION', 'CKS_RO_USER_FUNCTIONS', 'CKS_RW_PUBLIC_SESSION', 'CKS_RW_USER_FUNCTIONS', 'CKS_RW_SO_FUNCTIONS')}
    st['<invalid state>'] = max(st.values()) + 1
    for sname, sval in st.items():
        if sname in ('CKS_RO_USER_FUNCTIONS', 'CKS_RW_USER_FUNCTIONS'):
            continue
        cenv = {re.compile(r'getState\(\w+\)'): sval, re.compile(r'getBooleanValue\(.*,CKA_PRIVATE,\w+\)'): 1}
        o = Outcomes(f, prog, cenv=cenv, record_calls={'addTokenObject', 'addSessionObject', 'insert'})
        o.CAP = 48
        o.go()
        r.paths += len(o.outcomes)
        bad = [oc for oc in o.outcomes if oc['events']]
        site = 'state %s, private object' % sname
        if bad:
            e = bad[0]['events'][0]
            r.violation(f['qname'], site, 'in session state %s a private object reaches %s (line %s): the search hands out a handle to it' % (sname, e[1], e[3]), file=f['file'], line=e[3], path=bad[0]['path'])
        else:
            r.ok(f['qname'], site, '%d abstract paths, none registers a handle' % len(o.outcomes), file=f['file'], line=f['line'])


def run(ctx):
    prog = ctx.prog('ossl-file')
    r1_access(ctx, prog)
    r2_matrix(ctx, prog)
    r3_creation(ctx, prog)
    r4_gate(ctx, prog)
    r5_find(ctx, prog)
    from rules import c11
    c11.r5_predicates(ctx, prog, rule_id='C01.R6')


MUTANTS = [
    dict(name='symdecryptinit-no-access-check', rule='C01.R1', function='SymDecryptInit', file='src/lib/SoftHSM.cpp',
         after='CK_RV SoftHSM::SymDecryptInit(',
         old='\tCK_RV rv = haveRead(session->getState(), isOnToken, isPrivate);\n', new='\tCK_RV rv = CKR_OK;\n'),
    dict(name='setattribute-read-instead-of-write', rule='C01.R1', function='C_SetAttributeValue', file='src/lib/SoftHSM.cpp',
         old='''	CK_RV rv = haveWrite(session->getState(), isOnToken, isPrivate);
	if (rv != CKR_OK)
	{
		if (rv == CKR_USER_NOT_LOGGED_IN)
			INFO_MSG("User is not authorized");
		if (rv == CKR_SESSION_READ_ONLY)
			INFO_MSG("Session is read-only");

		return rv;
	}

	// Check if the object is modifiable''',
         new='''	CK_RV rv = haveRead(session->getState(), isOnToken, isPrivate);
	if (rv != CKR_OK)
	{
		return rv;
	}

	// Check if the object is modifiable'''),
    dict(name='haveread-so-sees-private', rule='C01.R2', file='src/lib/access.cpp',
         old='''        case CKS_RW_PUBLIC_SESSION:
        case CKS_RW_SO_FUNCTIONS:
            return isPrivateObject ? CKR_USER_NOT_LOGGED_IN : CKR_OK;
        case CKS_RO_USER_FUNCTIONS:
        case CKS_RW_USER_FUNCTIONS:
            return CKR_OK;''',
         new='''        case CKS_RW_PUBLIC_SESSION:
            return isPrivateObject ? CKR_USER_NOT_LOGGED_IN : CKR_OK;
        case CKS_RW_SO_FUNCTIONS:
        case CKS_RO_USER_FUNCTIONS:
        case CKS_RW_USER_FUNCTIONS:
            return CKR_OK;'''),
    dict(name='find-filter-dropped', rule='C01.R5', file='src/lib/SoftHSM.cpp',
         old='		if (isPublicSession && isPrivateObject)\n			continue; // skip object\n', new=''),
    dict(name='find-so-counts-as-user', rule='C01.R5', file='src/lib/SoftHSM.cpp',
         old='''		case CKS_RO_USER_FUNCTIONS:
		case CKS_RW_USER_FUNCTIONS:
			isPublicSession = false;''',
         new='''		case CKS_RO_USER_FUNCTIONS:
		case CKS_RW_USER_FUNCTIONS:
		case CKS_RW_SO_FUNCTIONS:
			isPublicSession = false;'''),
    dict(name='decrypt-gate-user-only-dropped', rule='C01.R4', file='src/lib/data_mgr/SecureDataManager.cpp',
         old='''bool SecureDataManager::decrypt(const ByteString& encrypted, ByteString& plaintext)
{
	// Check the object logged in state
	if ((!userLoggedIn && !soLoggedIn) || (maskedKey.size() != 32))''',
         new='''bool SecureDataManager::decrypt(const ByteString& encrypted, ByteString& plaintext)
{
	// Check the object logged in state
	if (maskedKey.size() != 32)'''),
    dict(name='copyobject-havewrite-on-old-flag', rule='C01.R3', file='src/lib/SoftHSM.cpp', after='CK_RV SoftHSM::C_CopyObject(',
         old='\trv = haveWrite(session->getState(), isOnToken, isPrivate);\n', new='\trv = haveWrite(session->getState(), wasOnToken, isPrivate);\n'),
    dict(name='createobject-public-default', rule='C01.R3', function='CreateObject', file='src/lib/SoftHSM.cpp',
         old='''	CK_BBOOL isOnToken = CK_FALSE;
	CK_BBOOL isPrivate = CK_TRUE;
	bool isImplicit = false;
	CK_RV rv = extractObjectInformation(pTemplate,ulCount,objClass,keyType,certType, isOnToken, isPrivate, isImplicit);
	if (rv != CKR_OK)
	{
		ERROR_MSG("Mandatory attribute not present in template");''',
         new='''	CK_BBOOL isOnToken = CK_FALSE;
	CK_BBOOL isPrivate = CK_FALSE;
	bool isImplicit = false;
	CK_RV rv = extractObjectInformation(pTemplate,ulCount,objClass,keyType,certType, isOnToken, isPrivate, isImplicit);
	if (rv != CKR_OK)
	{
		ERROR_MSG("Mandatory attribute not present in template");'''),
]
