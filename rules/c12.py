"""C12 — one active operation per session and an honest output-length protocol (DESIGN.md §3 C12)."""
import re
from engine.rulelib import *
from engine.interp import Outcomes
from engine import bounds

EXPLANATION = (
    "Static decision of the structural clauses of C12. R1a: every setOpType(X != NONE) is dominated by getOpType()==SESSION_OP_NONE on this session, and after it every return that is not provably CKR_OK "
    "has passed resetOp(). R1b: in every continue/finish entry point the operation's algorithm object is only touched under the fact getOpType()==<the operation of that entry point> (PKCS#11 table). "
    "R1c: operation typestate of the 30 work functions — after a finalising call (…Final, one-shot sign/verify/encrypt/decrypt) or a failed advancing call every return has passed resetOp(); a successful non-soft "
    "return of a single-part/final function has passed resetOp(). R1d: the two soft returns (NULL output pointer size query, CKR_BUFFER_TOO_SMALL) passed neither resetOp() nor any state-advancing call. "
    "R2 (difference-bound entailment, no solver): at every memcpy into a caller buffer the number of bytes written is entailed to be <= the length the caller announced (*pulLen at entry or the count parameter) by "
    "the comparison facts dominating the write, the bytes read are <= the size of the source, and the length reported on success equals the bytes written. Not decided: tightness of the reported length.")
ASSUMPTIONS = ['ByteString::resize/wipe(n) make size()==n; ByteString(p,n) has size n', 'methods named get*/is*/check* on an algorithm object do not advance it',
               'the announced length is read through the length pointer before it is overwritten']
TECHNIQUE = 'custom static analysis over the clang AST: ESP-style typestate of the session operation over all abstract paths, dominating-fact dataflow, difference-bound (<=-graph) entailment for every write into a caller buffer'
LEVEL_TEXT = ('All abstract paths of the 11 operation-start and ~30 continue/finish functions are explored for the operation typestate, and every memcpy into a caller-supplied buffer carries a discharged n <= announced-length obligation. '
              'Interleavings over several calls are reduced to the per-call typestate; exactness of lengths is a runtime quantity and is not claimed.')
LEVEL_NOTE = 'trusted: clang front end, normaliser, abstract interpreter, the small lemma set of engine/bounds.py; ByteString size model'

GETOPS = ('getSymmetricCryptoOp', 'getAsymmetricCryptoOp', 'getMacOp', 'getDigestOp', 'getFindOp')
ONESHOT = ('sign', 'verify', 'encrypt', 'decrypt', 'wrapKey', 'unwrapKey')
API_OP = {
    'C_Encrypt': 'ENCRYPT', 'C_EncryptUpdate': 'ENCRYPT', 'C_EncryptFinal': 'ENCRYPT', 'C_Decrypt': 'DECRYPT', 'C_DecryptUpdate': 'DECRYPT', 'C_DecryptFinal': 'DECRYPT',
    'C_Digest': 'DIGEST', 'C_DigestUpdate': 'DIGEST', 'C_DigestKey': 'DIGEST', 'C_DigestFinal': 'DIGEST', 'C_Sign': 'SIGN', 'C_SignUpdate': 'SIGN', 'C_SignFinal': 'SIGN',
    'C_Verify': 'VERIFY', 'C_VerifyUpdate': 'VERIFY', 'C_VerifyFinal': 'VERIFY', 'C_FindObjects': 'FIND', 'C_FindObjectsFinal': 'FIND',
}
FINISHING = {'C_Encrypt', 'C_EncryptFinal', 'C_Decrypt', 'C_DecryptFinal', 'C_Digest', 'C_DigestFinal', 'C_Sign', 'C_SignFinal', 'C_Verify', 'C_VerifyFinal', 'C_FindObjectsFinal'}


def is_query(name):
    return is_pure_name(name) or name.startswith('check') or name in ('recycleKey', 'retrieveHandles')      # FindOperation::retrieveHandles only reads the result set (C19.R5)


def session_var(f):
    """The Session* of this call: first parameter of type Session*, or the local from getSession(hSession)."""
    for p in f['params']:
        if p['type'].replace(' ', '') == 'Session*':
            return p['var']['name']
    for v, c in local_from_call(f, 'getSession'):
        return v
    return None


def op_vars(f, sv):
    return {v for g in GETOPS for v, c in local_from_call(f, g) if c.get('recv') is not None and canon(c['recv']) == sv}


def is_op_recv(recv, opv, sv):
    if recv is None:
        return False
    if recv.get('k') == 'Var' and recv['name'] in opv:
        return True
    if recv.get('k') == 'Call' and short(recv.get('callee')) in GETOPS and recv.get('recv') is not None and canon(recv['recv']) == sv:
        return True
    return False


def helpers_of(prog, f):
    """Static helpers called from an entry point with the session as first argument."""
    sv = session_var(f)
    out = []
    for c in calls(f['body']):
        if c.get('own') and c.get('args') and c['args'][0] is not None and canon(c['args'][0]) == sv and not c.get('recv'):
            for g in prog.fns(c['callee']):
                if g not in out:
                    out.append(g)
    return out


class OpState(Interp):
    """Typestate of the session operation inside one work function."""
    TRACK = ('rv', 'bOK')

    def __init__(self, fn, prog, sv, opv, out_ptr):
        super().__init__(fn, prog)
        self.sv, self.opv, self.out_ptr = sv, opv, out_ptr
        self.returns = []
        self.track_facts = re.compile(r'^%s$' % re.escape(out_ptr)) if out_ptr else None

    def on_call(self, e, st):
        if e.get('k') != 'Call':
            return
        c = short(e.get('callee'))
        if c == 'resetOp' and e.get('recv') is not None and canon(e['recv']) == self.sv:
            st.aut['reset'] = True
            return
        if is_op_recv(e.get('recv'), self.opv, self.sv) and not is_query(c):
            st.aut['adv'] = True
            if c.endswith('Final') or c in ONESHOT:
                st.aut['spent'] = e.get('l')

    def on_fact(self, atom, truth, st):
        if truth:
            return
        pc = parse_call(atom)
        if not pc:
            return
        name = pc[0].split('@')[0]
        recv = pc[1][0] if pc[1] else ''
        if (recv in self.opv or re.fullmatch(r'(%s)\(%s\)' % ('|'.join(GETOPS), re.escape(self.sv)), recv)) and not is_query(name):
            st.aut['spent'] = st.aut.get('spent') or int(pc[0].split('@')[1]) if '@' in pc[0] else True

    def on_return(self, s, st):
        self.returns.append((s, st.copy(), ret_class(s, st), canon(s['e'], st.env) if s.get('e') else None))


def out_buffer(f):
    """(buffer parameter, length-pointer parameter) of an output function, by the PKCS#11 convention of adjacent parameters."""
    ps = f['params']
    for i in range(len(ps) - 1):
        if ps[i]['type'] in ('CK_BYTE_PTR', 'CK_VOID_PTR', 'CK_BYTE *') and ps[i + 1]['type'] in ('CK_ULONG_PTR', 'CK_ULONG *'):
            return ps[i]['var']['name'], ps[i + 1]['var']['name']
    return None, None


def r1a_init(ctx, prog):
    r = ctx.rule('C12.R1a', 'an operation is started only when none is active, and a failing start leaves none active', floor=11, engine='E2+E3')
    none = 'SESSION_OP_NONE'
    for f in sorted(prog.functions.values(), key=lambda f: (f['file'], f['line'])):
        if f.get('class') != 'SoftHSM':
            continue
        sets = [c for c in calls(f['body'], short='setOpType') if c.get('args') and canon(c['args'][0]) != none]
        if not sets:
            continue
        ctx.analysed(f)
        if not check_analysable(r, f):
            continue
        sv = session_var(f)

        class A(Interp):
            TRACK = ('rv', 'bOK')
            track_facts = re.compile(r'getOpType')

            def __init__(s2, fn, prog):
                super().__init__(fn, prog)
                s2.sets, s2.rets = [], []

            def on_call(s2, e, st):
                if e.get('k') != 'Call':
                    return
                c = short(e.get('callee'))
                if c == 'setOpType' and e.get('recv') is not None and canon(e['recv']) == sv:
                    if canon(e['args'][0]) != none:
                        s2.sets.append((e, st.copy()))
                        st.aut['set'] = e['l']
                        st.aut.pop('reset', None)
                    else:
                        st.aut['reset'] = True
                if c == 'resetOp' and e.get('recv') is not None and canon(e['recv']) == sv:
                    st.aut['reset'] = True
                    st.aut.pop('touched', None)
                elif c.startswith('set') and c != 'setOpType' and e.get('recv') is not None and canon(e['recv']) == sv and e.get('callee', '').startswith('Session::'):
                    st.aut.setdefault('touched', (c, e['l']))

            def on_return(s2, s, st):
                s2.rets.append((s, st.copy(), ret_class(s, st)))
        a = A(f, prog).go()
        r.paths += a.paths_returned
        want = 'EQ(getOpType(%s),SESSION_OP_NONE)' % sv
        bad = [(e, st) for e, st in a.sets if (want, True) not in st.facts]
        site = 'setOpType(%s)' % '|'.join(sorted({canon(c['args'][0]) for c in sets}))
        if bad:
            r.violation(f['qname'], site, 'an operation is started although the session is not known to be idle (no dominating getOpType()==SESSION_OP_NONE on this session): a running operation would be replaced',
                        file=f['file'], line=bad[0][0]['l'], path=bad[0][1].show_path())
        else:
            r.ok(f['qname'], site, '%d abstract states reach the start, all idle' % len(a.sets), file=f['file'], line=sets[0]['l'])
        badr = [(s, st) for s, st, rc in a.rets if st.aut.get('set') and not st.aut.get('reset') and rc != 'OK']
        for s, st in badr[:1]:
            r.violation(f['qname'], 'failing exit after ' + site, 'return at line %s can fail after the operation type was set at line %s without resetOp(): the session stays in an operation that never started (%d such exits)' % (s['l'], st.aut['set'], len({x[0]['l'] for x in badr})),
                        file=f['file'], line=s['l'], path=st.show_path())
        if not badr:
            r.ok(f['qname'], 'failing exit after ' + site, 'no failing exit after the start', file=f['file'], line=sets[0]['l'])
        # a refused start leaves no session state behind either (only Session::resetOp() clears what the setters store)
        badt = [(s, st) for s, st, rc in a.rets if st.aut.get('touched') and rc != 'OK']
        for s, st in badt[:1]:
            r.violation(f['qname'], 'session state on refusing exits of ' + site, 'return at line %s refuses the start after Session::%s (line %s) without resetOp(): what the setter stored survives into the next operation of this session (%d such exits)' % (
                s['l'], st.aut['touched'][0], st.aut['touched'][1], len({x[0]['l'] for x in badt})), file=f['file'], line=s['l'], path=st.show_path())
        if not badt:
            r.ok(f['qname'], 'session state on refusing exits of ' + site, 'no setter precedes a refusing exit', file=f['file'], line=sets[0]['l'])


def work_functions(prog):
    """[(api name, function, is finishing, session var, op vars)] for the entry points of API_OP and their static helpers."""
    out = []
    for api, op in sorted(API_OP.items()):
        f = prog.fn('SoftHSM::' + api)
        fs = [f] + helpers_of(prog, f)
        for g in fs:
            sv = session_var(g)
            out.append((api, op, g, api in FINISHING, sv, op_vars(g, sv) if sv else set()))
    return out


def r1b_gate(ctx, prog):
    r = ctx.rule('C12.R1b', 'continue/finish entry points touch the operation only under getOpType()==<their operation>', floor=18, engine='E2')
    for api, op in sorted(API_OP.items()):
        f = prog.fn('SoftHSM::' + api)
        ctx.analysed(f)
        sv = session_var(f)
        helpers = {g['qname'] for g in helpers_of(prog, f)}

        def trig(e, st):
            if e.get('k') != 'Call':
                return None
            c = short(e.get('callee'))
            if e.get('callee') in helpers:
                return 'dispatch to ' + c
            if c in GETOPS and e.get('recv') is not None and canon(e['recv']) == sv:
                return 'use of ' + c
            return None

        def rtrig(s, st):
            return 'successful return' if ret_class(s, st) == 'OK' else None
        sf = SiteFacts(f, prog, trigger=trig, return_trigger=rtrig, track_facts='getOpType').go()
        r.paths += sf.paths_returned
        want = 'EQ(getOpType(%s),SESSION_OP_%s)' % (sv, op)
        if not sf.sites:
            r.undecided('SoftHSM::' + api, 'operation use', 'no use of the operation object and no dispatch found', file=f['file'], line=f['line'])
        for site, hits in sorted(sf.sites.items()):
            bad = [h for h in hits if (want, True) not in h['facts']]
            if bad:
                r.violation('SoftHSM::' + api, site, 'the %s operation is continued without a dominating getOpType()==SESSION_OP_%s: a call without (or with another) active operation is not answered CKR_OPERATION_NOT_INITIALIZED' % (op.lower(), op),
                            file=f['file'], line=bad[0]['line'], path=bad[0]['path'])
            else:
                r.ok('SoftHSM::' + api, site, '%d abstract states' % len(hits), file=f['file'], line=hits[0]['line'])


def r1cd_typestate(ctx, prog, rule_ids=('C12.R1c', 'C12.R1d')):
    rc_ = ctx.rule(rule_ids[0], 'a finished or failed operation is gone: resetOp() on every exit after a finalising or failed advancing call', floor=25, engine='E3')
    rd = ctx.rule(rule_ids[1], 'size query and CKR_BUFFER_TOO_SMALL leave the operation active and unchanged', floor=12, engine='E3')
    seen = set()
    for api, op, g, finishing, sv, opv in work_functions(prog):
        if g['qname'] in seen or not sv:
            continue
        seen.add(g['qname'])
        ctx.analysed(g)
        if not check_analysable(rc_, g):
            continue
        buf, plen = out_buffer(g)
        a = OpState(g, prog, sv, opv, buf).go()
        rc_.paths += a.paths_returned
        bad_c, bad_fin, bad_d, nsoft, bad_err = None, None, None, 0, None
        for s, st, rcl, rv in a.returns:
            soft = rv == 'CKR_BUFFER_TOO_SMALL' or (buf and rcl == 'OK' and (buf, False) in st.facts)
            if soft:
                nsoft += 1
                if (st.aut.get('reset') or st.aut.get('adv')) and bad_d is None:
                    bad_d = (s, st, 'resetOp() was called' if st.aut.get('reset') else 'the algorithm object was advanced')
                continue
            if st.aut.get('spent') and not st.aut.get('reset') and bad_c is None:
                bad_c = (s, st)
            # the helpers that finish an operation (single-part and *Final workers): whatever makes them fail, the operation they were called to finish is over
            if finishing and not g['qname'].startswith('SoftHSM::C_') and rcl != 'OK' and not st.aut.get('reset') and bad_err is None:
                bad_err = (s, st, rv)
            if finishing and rcl == 'OK' and not st.aut.get('reset') and bad_fin is None and (g['qname'].startswith('SoftHSM::C_') is False or a.returns):
                # a successful, non-soft return of a single-part / final function: only when this function does the work itself
                if st.aut.get('adv') or not helpers_of(prog, g):
                    bad_fin = (s, st)
        site = 'exits of %s' % g['qname'].split('::')[-1]
        if bad_c:
            rc_.violation(g['qname'], site, 'return at line %s is reached after the algorithm object was finalised or failed (line %s) without resetOp(): the spent operation stays active' % (bad_c[0]['l'], bad_c[1].aut.get('spent')),
                          file=g['file'], line=bad_c[0]['l'], path=bad_c[1].show_path())
        elif bad_err:
            rc_.violation(g['qname'], site, 'the error return at line %s (%s) of this finishing function is reached without resetOp(): the call failed, yet the operation stays active and blocks the session (its siblings all end the operation on every error)' % (bad_err[0]['l'], bad_err[2]),
                          file=g['file'], line=bad_err[0]['l'], path=bad_err[1].show_path())
        elif bad_fin:
            rc_.violation(g['qname'], site, 'successful return at line %s of a single-part/final function without resetOp(): the finished operation stays active' % bad_fin[0]['l'],
                          file=g['file'], line=bad_fin[0]['l'], path=bad_fin[1].show_path())
        else:
            rc_.ok(g['qname'], site, '%d abstract return paths' % len(a.returns), file=g['file'], line=g['line'])
        if buf:
            sited = 'soft returns of %s' % g['qname'].split('::')[-1]
            if bad_d:
                rd.violation(g['qname'], sited, 'the size-query / CKR_BUFFER_TOO_SMALL return at line %s is reached after %s: the caller cannot retry with a larger buffer' % (bad_d[0]['l'], bad_d[2]),
                             file=g['file'], line=bad_d[0]['l'], path=bad_d[1].show_path())
            elif nsoft == 0:
                if list(calls(g['body'], short='memcpy')):
                    rd.undecided(g['qname'], sited, 'function writes to a caller buffer but no size-query / BUFFER_TOO_SMALL return was recognised', file=g['file'], line=g['line'])
            else:
                rd.ok(g['qname'], sited, '%d soft return paths' % nsoft, file=g['file'], line=g['line'])


def r1e_wrong_part_mode(ctx, prog):
    """A mechanism is single-part only, multi-part only, or both (Session::getAllowSinglePartOp / getAllowMultiPartOp).  A call that does not fit fails - and per PKCS#11 a failing
    continue/finish call ends the operation.  Every exit that is taken *because* the mode flag forbids the call therefore passes resetOp(); 18 of the 20 guards always did
    (contradiction rule), the two that did not left C_SignInit answering CKR_OPERATION_ACTIVE after C_SignFinal had answered CKR_OPERATION_NOT_INITIALIZED."""
    r = ctx.rule('C12.R1e', 'a call refused because the mechanism has no such (single-/multi-part) form ends the operation', floor=18, engine='E3 typestate (contradiction rule: the siblings reset)')
    seen = set()
    for api, op, g, finishing, sv, opv in work_functions(prog):
        if g['qname'] in seen or not sv:
            continue
        seen.add(g['qname'])
        modes = [c for c in calls(g['body']) if short(c.get('callee')) in ('getAllowMultiPartOp', 'getAllowSinglePartOp') and c.get('recv') is not None and canon(c['recv']) == sv]
        if not modes or not check_analysable(r, g):
            continue
        ctx.analysed(g)

        class A(Interp):
            TRACK = ('rv', 'bOK')

            def __init__(self, fn, prog):
                super().__init__(fn, prog)
                self.track_facts = re.compile(r'getAllow(Multi|Single)PartOp\(%s\)' % re.escape(sv))
                self.rets = []

            def on_call(self, e, st):
                if e.get('k') == 'Call' and short(e.get('callee')) == 'resetOp' and e.get('recv') is not None and canon(e['recv']) == sv:
                    st.aut['reset'] = True

            def on_return(self, s, st):
                self.rets.append((s, st.copy(), ret_class(s, st)))
        a = A(g, prog).go()
        r.paths += a.paths_returned
        for which in sorted({short(c['callee']) for c in modes}):
            atom = '%s(%s)' % (which, sv)
            site = 'exits under !%s of %s' % (which, g['qname'].split('::')[-1])
            taken = [(s, st, rcl) for s, st, rcl in a.rets if (atom, False) in st.facts]
            bad = [(s, st) for s, st, rcl in taken if rcl != 'OK' and not st.aut.get('reset')]
            if not taken:
                # the flag only selects a branch (single-part functions that also serve the multi-part form)
                r.ok(g['qname'], site, 'the flag selects a branch, no exit depends on it being false', file=g['file'], line=g['line'])
            elif bad:
                r.violation(g['qname'], site, 'the error return at line %s is taken because %s() is false - the mechanism has no such form - without resetOp(): the call fails, yet the operation stays active (the next *Init answers CKR_OPERATION_ACTIVE); the sibling entry points all end the operation here' % (bad[0][0]['l'], which),
                            file=g['file'], line=bad[0][0]['l'], path=bad[0][1].show_path())
            else:
                r.ok(g['qname'], site, '%d exits, all after resetOp()' % len(taken), file=g['file'], line=g['line'])


def r1f_dispatch_keeps_soft_answers(ctx, prog):
    """The API-level functions that only dispatch to a worker (C_SignFinal -> MacSignFinal / AsymSignFinal ...) hand the worker's answer on.  When that answer is
    CKR_BUFFER_TOO_SMALL the operation must still be there: the dispatcher is evaluated with every worker answering CKR_BUFFER_TOO_SMALL - it may not call resetOp()."""
    r = ctx.rule('C12.R1f', 'a dispatching entry point does not end the operation when its worker answered CKR_BUFFER_TOO_SMALL', floor=6, engine='E1+E3 finite-domain evaluation of the dispatcher')
    small = macro(prog, 'CKR_BUFFER_TOO_SMALL')
    for api, op in sorted(API_OP.items()):
        f = prog.fn('SoftHSM::' + api)
        hs = helpers_of(prog, f)
        buf, plen = out_buffer(f)
        if not hs or not plen:
            continue
        ctx.analysed(f)
        cenv = {'isInitialised': 1, re.compile(r'getOpType(@\d+)?\(\w+\)'): macro(prog, 'SESSION_OP_' + op), re.compile(r'getAllow(Multi|Single)PartOp(@\d+)?\(\w+\)'): 1, plen: 1}
        for h in hs:
            cenv[re.compile(r'%s(@\d+)?\(.*\)' % re.escape(short(h['qname'])))] = small
        o = Outcomes(f, prog, cenv=cenv, record_calls={'resetOp'} | {short(h['qname']) for h in hs})
        o.CAP = 64
        o.go()
        r.paths += len(o.outcomes)
        site = 'worker answers CKR_BUFFER_TOO_SMALL'
        disp = [oc for oc in o.outcomes if any(e[0] == 'call' and e[1] in {short(h['qname']) for h in hs} for e in oc['events'])]
        bad = [oc for oc in disp if any(e[0] == 'call' and e[1] == 'resetOp' for e in oc['events'])]
        if not disp:
            r.undecided(f['qname'], site, 'no path reaches a worker under the assignment', file=f['file'], line=f['line'])
        elif bad:
            r.violation(f['qname'], site, 'after the worker answered CKR_BUFFER_TOO_SMALL the dispatcher calls resetOp(): the caller who comes back with a larger buffer finds no operation (CKR_OPERATION_NOT_INITIALIZED), the data fed so far is lost',
                        file=f['file'], line=bad[0]['line'], path=bad[0]['path'])
        else:
            r.ok(f['qname'], site, '%d dispatching paths, none resets' % len(disp), file=f['file'], line=f['line'])


def r2_bounds(ctx, prog):
    r = ctx.rule('C12.R2', 'bytes written into a caller buffer <= announced length; bytes read <= source size; reported length == bytes written', floor=18, engine='E8')
    todo = []
    for f in sorted(prog.functions.values(), key=lambda f: (f['file'], f['line'])):
        if not (f['file'].endswith('SoftHSM.cpp') or f['qname'] == 'P11Attribute::retrieve'):
            continue
        ptrs = {p['var']['name']: i for i, p in enumerate(f['params']) if p['type'].endswith('*') or p['type'].endswith('_PTR')}
        sites = [c for c in calls(f['body']) if short(c.get('callee')) in ('memcpy', 'memmove', 'strncpy') and c['args'][0].get('k') == 'Var' and c['args'][0]['name'] in ptrs]
        if sites:
            todo.append((f, ptrs, sites))
    for f, ptrs, sites in todo:
        ctx.analysed(f)
        if not check_analysable(r, f):
            continue
        caps = {}
        for c in sites:
            dst = c['args'][0]['name']
            i = ptrs[dst]
            nxt = f['params'][i + 1] if i + 1 < len(f['params']) else None
            if nxt is not None and nxt['type'] in ('CK_ULONG_PTR', 'CK_ULONG *'):
                caps[dst] = '*' + nxt['var']['name']
            elif nxt is not None and nxt['type'] in ('CK_ULONG', 'size_t'):
                caps[dst] = nxt['var']['name']
        written = {}

        class B(SiteFacts):
            TRACK = ('rv', 'bOK')

            def on_call(s2, e, st):
                if e.get('k') == 'Call' and short(e.get('callee')) in ('memcpy', 'memmove', 'strncpy') and e['args'][0].get('k') == 'Var' and e['args'][0]['name'] in ptrs:
                    dst = e['args'][0]['name']
                    n = canon(e['args'][2], st.env)
                    src = e['args'][1]
                    srcsize = None
                    if src.get('k') == 'Call' and short(src.get('callee')) in ('byte_str', 'const_byte_str') and src.get('recv') is not None:
                        srcsize = canon({'k': 'Call', 'callee': 'size', 'recv': src['recv'], 'args': []}, st.env)
                    elif src.get('k') == 'Var' and st.env.get(src['name'], '').startswith(('const_byte_str(', 'byte_str(')):
                        srcsize = 'size(' + st.env[src['name']].split('(', 1)[1]
                        srcsize = st.env.get(srcsize, srcsize)
                    capkey = caps.get(dst)
                    overwritten = capkey is not None and capkey.startswith('*') and capkey in st.env
                    s2.hit(('memcpy', dst, e['l']), e, st)
                    s2.sites[('memcpy', dst, e['l'])][-1].update(n=n, srcsize=srcsize, overwritten=overwritten)
                    st.aut['wrote'] = (dst, n)

            def on_return(s2, s, st):
                if st.aut.get('wrote') and ret_class(s, st) == 'OK':
                    dst, n = st.aut['wrote']
                    capkey = caps.get(dst)
                    if capkey and capkey.startswith('*'):
                        s2.hit(('report', dst, s['l']), s, st)
                        s2.sites[('report', dst, s['l'])][-1].update(n=n, reported=st.env.get(capkey))
        b = B(f, prog, track_facts=r'^LT\(|^EQ\(.*size').go()
        r.paths += b.paths_returned
        for key, hits in sorted(b.sites.items()):
            kind, dst, line = key
            cap = caps.get(dst)
            if kind == 'memcpy':
                site = 'memcpy into %s' % dst
                if cap is None:
                    r.undecided(f['qname'], site, 'no announced-length parameter follows the buffer parameter', file=f['file'], line=line)
                    continue
                bad = None
                for h in hits:
                    if h['overwritten']:
                        bad = ('the announced length %s was overwritten before the copy' % cap, h)
                    elif not bounds.entails_le(h['n'], cap, h['facts'], h['env']):
                        bad = ('%s bytes are written but nothing on this path entails %s <= %s (the length the caller announced)' % (h['n'], h['n'], cap), h)
                    elif h['srcsize'] is not None and not bounds.entails_le(h['n'], h['srcsize'], h['facts'], h['env']):
                        bad = ('%s bytes are read from a source of %s bytes and nothing entails %s <= %s' % (h['n'], h['srcsize'], h['n'], h['srcsize']), h)
                    if bad:
                        break
                if bad:
                    r.violation(f['qname'], site, bad[0], file=f['file'], line=line, path=bad[1]['path'])
                else:
                    r.ok(f['qname'], site, '%d abstract states, n=%s cap=%s' % (len(hits), hits[0]['n'], cap), file=f['file'], line=line)
            else:
                site = 'length reported for %s' % dst
                bad = [h for h in hits if h['reported'] is None or bounds.strip_parens(h['reported']) != bounds.strip_parens(h['n'])]
                bad = [h for h in bad if not (h['reported'] and bounds.entails_le(h['n'], h['reported'], h['facts'], h['env']) and bounds.entails_le(h['reported'], h['n'], h['facts'], h['env']))]
                if bad:
                    r.violation(f['qname'], site, 'success return at line %s reports length %s but %s bytes were written' % (line, bad[0]['reported'], bad[0]['n']), file=f['file'], line=line, path=bad[0]['path'])
                else:
                    r.ok(f['qname'], site, '%d abstract states' % len(hits), file=f['file'], line=line)


def r2c_reported_bound(ctx, prog, rule_id='C12.R2c'):
    """CKR_BUFFER_TOO_SMALL tells the caller which length to come back with: the length stored into *pulLen on that exit is the very bound the announced length was found to be
    smaller than (`if (*pulLen < need) { *pulLen = need; return CKR_BUFFER_TOO_SMALL; }`).  A smaller value makes the retry fail again (an insufficient answer), a different one is not the
    length the NULL-pointer query reports."""
    r = ctx.rule(rule_id, 'the length reported with CKR_BUFFER_TOO_SMALL is the bound the announced length failed against', floor=10, engine='E3 typestate over the failed comparison')
    seen = set()
    for api, op, g, finishing, sv, opv in work_functions(prog):
        if g['qname'] in seen:
            continue
        seen.add(g['qname'])
        buf, plen = out_buffer(g)
        if not plen or not check_analysable(r, g):
            continue
        star = '*' + plen

        class A(Interp):
            TRACK = ('rv', 'bOK')

            def __init__(self, fn, prog):
                super().__init__(fn, prog)
                self.soft = []

            def on_fact(self, atom, truth, st):
                m = re.fullmatch(r'LT\(%s,(.*)\)' % re.escape(star), atom)
                if m and truth:
                    st.aut['bound'] = m.group(1)

            def on_return(self, s, st):
                if s.get('e') is not None and canon(s['e'], st.env) == 'CKR_BUFFER_TOO_SMALL':
                    self.soft.append((s, st.copy()))
        a = A(g, prog).go()
        r.paths += a.paths_returned
        if not a.soft:
            continue
        ctx.analysed(g)
        site = 'length reported by %s' % g['qname'].split('::')[-1]
        bad = None
        for s_, st in a.soft:
            rep, bound = st.env.get(star), st.aut.get('bound')
            if bound is None:
                bad = bad or (s_, st, 'no failed comparison `%s < need` precedes the CKR_BUFFER_TOO_SMALL exit' % star)
            elif rep is None:
                bad = bad or (s_, st, '%s is not set on the CKR_BUFFER_TOO_SMALL exit: the caller learns no length' % star)
            elif rep != bound and st.env.get(bound) != rep and st.env.get(rep) != bound:
                bad = (s_, st, 'the announced length failed against %s, but %s is set to %s: the caller who comes back with the reported length is refused again (or the answer differs from the NULL-pointer query)' % (bound, star, rep))
                break
        if bad:
            r.violation(g['qname'], site, bad[2], file=g['file'], line=bad[0]['l'], path=bad[1].show_path())
        else:
            r.ok(g['qname'], site, '%d exits, each reports the bound it compared with' % len(a.soft), file=g['file'], line=g['line'])


def r3_length_siblings(ctx, prog):
    r = ctx.rule('C12.R3', 'the public and the private key class of an algorithm report the same output length', floor=4, engine='E7')
    for alg in ('RSA', 'DSA', 'EC', 'ED', 'DH', 'GOST'):
        a, b = prog.fns('%sPublicKey::getOutputLength' % alg), prog.fns('%sPrivateKey::getOutputLength' % alg)
        if not a or not b:
            continue
        ra = sorted({canon(n.get('e')) for n in walk(a[0]['body']) if n.get('k') == 'Return'})
        rb = sorted({canon(n.get('e')) for n in walk(b[0]['body']) if n.get('k') == 'Return'})
        ctx.analysed(a[0])
        ctx.analysed(b[0])
        site = '%s getOutputLength' % alg
        if ra == rb:
            r.ok('%sPublicKey/%sPrivateKey' % (alg, alg), site, ra[0] if ra else '-', file=b[0]['file'], line=b[0]['line'])
        else:
            r.violation('%sPrivateKey::getOutputLength' % alg, site, 'the private key reports %s, the public key %s: the length C_Sign / C_Decrypt announce and demand differs from the size of the signature / ciphertext block the public side works with '
                        '(they differ e.g. for a stored modulus with a leading zero octet)' % (rb, ra), file=b[0]['file'], line=b[0]['line'])


def run(ctx):
    prog = ctx.prog('ossl-file')
    r1a_init(ctx, prog)
    r1b_gate(ctx, prog)
    r1cd_typestate(ctx, prog)
    r1e_wrong_part_mode(ctx, prog)
    r1f_dispatch_keeps_soft_answers(ctx, prog)
    r2_bounds(ctx, prog)
    r2c_reported_bound(ctx, prog)
    r3_length_siblings(ctx, prog)
    from rules import c17
    c17.r3_underflow(ctx, prog, rule_id='C12.R2b', text='a reported length is never the result of an unsigned subtraction that can wrap', floor=3, only={g['qname'] for g in prog.functions.values() if g['file'].endswith('/SoftHSM.cpp')}, mode='reported')


MUTANTS = [
    dict(name='verifyfinal-wrong-mode-keeps-operation', rule='C12.R1e', file='src/lib/SoftHSM.cpp', after='CK_RV SoftHSM::C_VerifyFinal(',
         old='\tif (!session->getAllowMultiPartOp())\n\t{\n\t\tsession->resetOp();\n', new='\tif (!session->getAllowMultiPartOp())\n\t{\n'),
    dict(name='symencryptupdate-wrong-mode-keeps-operation', rule='C12.R1e', file='src/lib/SoftHSM.cpp', after='static CK_RV SymEncryptUpdate(',
         old='\tif (cipher == NULL || !session->getAllowMultiPartOp())\n\t{\n\t\tsession->resetOp();\n', new='\tif (cipher == NULL || !session->getAllowMultiPartOp())\n\t{\n'),
    dict(name='rsa-private-output-length-from-stored-modulus', rule='C12.R3', file='src/lib/crypto/RSAPrivateKey.cpp', after='unsigned long RSAPrivateKey::getOutputLength() const',
         old='\treturn (getBitLength() + 7) / 8;', new='\treturn getN().size();'),
    dict(name='digestinit-no-idle-test', rule='C12.R1a', file='src/lib/SoftHSM.cpp', after='CK_RV SoftHSM::C_DigestInit(',
         old='\tif (session->getOpType() != SESSION_OP_NONE) return CKR_OPERATION_ACTIVE;\n', new=''),
    dict(name='encryptupdate-wrong-gate', rule='C12.R1b', file='src/lib/SoftHSM.cpp', after='CK_RV SoftHSM::C_EncryptUpdate(',
         old='if (session->getOpType() != SESSION_OP_ENCRYPT)', new='if (session->getOpType() == SESSION_OP_NONE)'),
    dict(name='macsign-success-without-reset', rule='C12.R1c', file='src/lib/SoftHSM.cpp', after='static CK_RV MacSign(',
         old='\t*pulSignatureLen = size;\n\n\tsession->resetOp();\n\treturn CKR_OK;', new='\t*pulSignatureLen = size;\n\n\treturn CKR_OK;'),
    dict(name='digestfinal-reset-on-too-small', rule='C12.R1d', file='src/lib/SoftHSM.cpp', after='CK_RV SoftHSM::C_DigestFinal(',
         old='\t\t*pulDigestLen = size;\n\t\treturn CKR_BUFFER_TOO_SMALL;', new='\t\t*pulDigestLen = size;\n\t\tsession->resetOp();\n\t\treturn CKR_BUFFER_TOO_SMALL;'),
    dict(name='macsignfinal-no-size-test', rule='C12.R2', file='src/lib/SoftHSM.cpp', after='static CK_RV MacSignFinal(',
         old='\tif (*pulSignatureLen < size)\n\t{\n\t\t*pulSignatureLen = size;\n\t\treturn CKR_BUFFER_TOO_SMALL;\n\t}\n', new=''),
    dict(name='symencrypt-compares-with-input-length', rule='C12.R2', file='src/lib/SoftHSM.cpp', after='static CK_RV SymEncrypt(',
         old='\tif (*pulEncryptedDataLen < maxSize)', new='\tif (*pulEncryptedDataLen < ulDataLen)'),
]
