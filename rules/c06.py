"""C06 — private objects are encrypted at rest under a key only a PIN unlocks (DESIGN.md §3 C06)."""
import re
from engine.rulelib import *
from engine import tables, callgraph
from rules.c03 import outcomes, ev_calls

EXPLANATION = (
    "Static decision of the structural clauses of C06. R1 (encrypt-or-plain diamond, all abstract paths): every setAttribute that stores a byte string on an object (SoftHSM.cpp, P11Attributes.cpp, P11Objects.cpp — recognised by the "
    "converting constructor OSAttribute(const ByteString&) the type checker selected) stores a value whose reaching definition is the output of Token::encrypt exactly on the paths where the object's privacy flag is true, and a plain "
    "value exactly where it is false. R2: C_CopyObject evaluated for the public-to-private upgrade stores only re-encrypted byte strings, and every saveTemplate call passes the privacy flag that haveWrite checked for that object "
    "(so storing and flagging cannot diverge). R3: the master key leaves SecureDataManager only wrapped: unmask is called only by encrypt/decrypt/pbeEncryptKey, the PIN blobs are written only by pbeEncryptKey and the constructor. "
    "R4: SecureDataManager::encrypt and pbeEncryptKey evaluated with a failing RNG never reach encryptInit, and the IV handed to encryptInit is the buffer generateRandom filled. R5: every file-system creation in the library "
    "(open with a mode, mkdir) masks its mode with '& ~umask', the umask argument of every such call chain is a parameter/field fed only from the configured objectstore.umask, and that option is parsed as octal. "
    "Not decided: the bytes actually on disk for a given history.")
ASSUMPTIONS = ['Token::encrypt/decrypt are the only attribute-encryption entry points (C01.R4 decides their gate)', 'objects are identified by the local variable that names them', 'libc open/mkdir honour their mode argument']
TECHNIQUE = 'custom static analysis over the clang AST: reaching-definition (provenance) dataflow of every stored byte string against the privacy flag on all abstract paths, finite-domain evaluation of the copy upgrade and IV generation, who-may-call/who-may-write sets, argument-flow of the umask'
LEVEL_TEXT = ('All ~90 byte-string store sites are decided on every abstract path for the encrypt-or-plain pairing; the copy upgrade, the IV generation and the umask chain are decided structurally. '
              'This is the code-shape part of "no plaintext at rest"; scanning a token directory is a runtime technique and is not done.')
LEVEL_NOTE = 'trusted: clang front end (constructor selection), normaliser, abstract interpreter; Token::encrypt as the encryption primitive'


def is_bs_store(e):
    if e.get('k') != 'Call' or short(e.get('callee')) != 'setAttribute' or len(e.get('args', [])) < 2:
        return False
    a = e['args'][1]
    return a is not None and a.get('k') == 'Ctor' and 'OSAttribute' in a.get('type', '') and a.get('sig', '').startswith('const ByteString')


class Diamond(Interp):
    TRACK = ('rv', 'bOK')
    CAP = 48
    QUIET = True

    def __init__(self, fn, prog, flags):
        super().__init__(fn, prog)
        self.hits = []
        self.flags = flags
        self.track_facts = re.compile(r'^(%s)$' % '|'.join(re.escape(x) for x in flags)) if flags else None

    def interesting_call(self, e):
        return is_bs_store(e) or short(e.get('callee')) == 'encrypt'

    def set_prov(self, st, n, rhs):
        if rhs is not None and rhs.get('k') == 'Var' and st.env.get('prov(%s)' % rhs['name']):
            st.env['prov(%s)' % n] = st.env['prov(%s)' % rhs['name']]
        elif rhs is None:
            st.env['prov(%s)' % n] = 'empty'
        else:
            st.env['prov(%s)' % n] = 'plain'

    def on_call(self, e, st):
        if e.get('k') != 'Call':
            return
        c = short(e.get('callee'))
        q = e.get('callee') or ''
        if c == 'encrypt' and q.startswith('Token::') and len(e['args']) == 2 and e['args'][1].get('k') == 'Var':
            st.env['prov(%s)' % e['args'][1]['name']] = 'enc'
            return
        if e.get('opcall') and c == 'operator=' and (e.get('recv') or {}).get('k') == 'Var' and q.startswith('ByteString'):
            self.set_prov(st, e['recv']['name'], e['args'][0])
            return
        if is_bs_store(e):
            inner = e['args'][1]['args'][0]
            if inner.get('k') == 'Var':
                prov = st.env.get('prov(%s)' % inner['name'], 'plain')
                what = inner['name']
            elif inner.get('k') == 'Ctor' and not inner.get('args') or inner.get('k') == 'Str':
                prov, what = 'empty', 'empty value'
            else:
                prov, what = 'plain', canon(inner, st.env)[:60]
                if inner.get('k') == 'Ctor' and len(inner.get('args', [])) == 1 and inner['args'][0].get('k') == 'Str' and inner['args'][0].get('s', 'x') == '':
                    prov = 'empty'
            self.hits.append(dict(line=e['l'], attr=canon(e['args'][0]), what=what, prov=prov, facts=frozenset(st.facts), path=st.show_path(), obj=canon(e['recv']) if e.get('recv') is not None else '?'))

    def on_assign(self, lhs, rhs, st):
        if lhs.get('k') == 'Var' and self.types.get(lhs['name'], '').replace('const ', '').rstrip('& ') == 'ByteString':
            self.set_prov(st, lhs['name'], rhs)


def privacy_flags(f):
    """Variables that hold the privacy flag of the object this function stores to (name-independent derivation)."""
    flags = set()
    q = f['qname']
    if q.endswith('::updateAttr') or q.endswith('::saveTemplate') or q.endswith('::update'):
        flags.add(param_name(f, 1))
    for n in walk(f['body']):
        if n.get('k') == 'Init' and len(n.get('args', [])) >= 2 and tables.lit_name(n['args'][0]) == 'CKA_PRIVATE':
            a = n['args'][1]
            if a.get('k') == 'Un' and a['op'] == '&' and a['e'].get('k') == 'Var':
                flags.add(a['e']['name'])
    for c in calls(f['body'], short='extractObjectInformation'):
        if len(c['args']) >= 7 and c['args'][6].get('k') == 'Var':
            flags.add(c['args'][6]['name'])
    # helpers that receive the flag from such a function as a bool parameter (set*PrivateKey(osobject, ..., isPrivate))
    for p in f['params']:
        if p['type'] in ('bool', 'CK_BBOOL') and 'rivate' in p['var']['name']:
            flags.add(p['var']['name'])
    return flags


def r1_diamond(ctx, prog):
    r = ctx.rule('C06.R1', 'every stored byte string is the output of Token::encrypt exactly where the object is private, plain exactly where it is public', floor=60, engine='E2 provenance')
    for f in sorted(prog.functions.values(), key=lambda f: (f['file'], f['line'])):
        if not (f['file'].endswith('SoftHSM.cpp') or f['file'].endswith('P11Attributes.cpp') or f['file'].endswith('P11Objects.cpp')):
            continue
        if not any(is_bs_store(c) for c in calls(f['body'])):
            continue
        if f['qname'] == 'SoftHSM::C_CopyObject':
            continue       # decided by R2 (the flag there is the compound upgrade condition)
        ctx.analysed(f)
        if not check_analysable(r, f):
            continue
        flags = privacy_flags(f)
        d = Diamond(f, prog, flags).go()
        r.paths += d.paths_returned
        per = {}
        for h in d.hits:
            per.setdefault((h['attr'], h['what'], h['line']), []).append(h)
        if not flags:
            r.undecided(f['qname'], 'privacy flag', 'function stores byte strings but no privacy flag of the target object was identified', file=f['file'], line=f['line'])
            continue
        for (attr, what, line), hits in sorted(per.items()):
            site = 'store of %s (%s)' % (attr, what)
            bad = None
            for h in hits:
                if h['prov'] == 'empty':
                    continue
                pos = any((fl, True) in h['facts'] for fl in flags)
                neg = any((fl, False) in h['facts'] for fl in flags)
                if h['prov'] == 'enc' and not pos:
                    bad = ('an encrypted value is stored on a path where the object is not known to be private (readers will not decrypt it)', h)
                elif h['prov'] != 'enc' and not neg:
                    bad = ('a plaintext value is stored on a path where the object is not known to be public: a private object\'s %s reaches the token directory unencrypted' % attr, h)
                if bad:
                    break
            if bad:
                r.violation(f['qname'], site, bad[0], file=f['file'], line=line, path=bad[1]['path'])
            else:
                r.ok(f['qname'], site, '%d abstract states' % len(hits), file=f['file'], line=line)


def r2_copy(ctx, prog):
    r = ctx.rule('C06.R2', 'privacy upgrade on copy re-encrypts; saveTemplate always gets the privacy flag haveWrite checked', floor=4, engine='E1+E2')
    f = prog.fn('SoftHSM::C_CopyObject')
    ctx.analysed(f)
    obj = handle_objects(f)[param_name(f, 1)][0][0]
    cenv = {'isInitialised': 1, re.compile(r'getBooleanValue\(%s,CKA_PRIVATE,\w+\)' % obj): 0, re.compile(r'getBooleanValue\(%s,CKA_COPYABLE,\w+\)' % obj): 1,
            re.compile(r'isByteStringAttribute\(.*\)'): 1, re.compile(r'size\(getByteStringValue\(.*\)\)'): 16,
            re.compile(r'%s\[\w+\]\.type' % param_name(f, 2)): macro(prog, 'CKA_PRIVATE'), re.compile(r'%s\[\w+\]\.ulValueLen' % param_name(f, 2)): 1, re.compile(r'\*%s\[\w+\]\.pValue' % param_name(f, 2)): 1, param_name(f, 3): 1}
    from rules.c16 import FactOutcomes
    o = FactOutcomes(f, prog, cenv=cenv, record_calls={'encrypt', 'setAttribute', 'createObject'})
    o.FACT_RX = re.compile(r'^is\w*Private$')
    o.CAP = 32
    o.LOOP_ROUNDS = 2
    o.go()
    r.paths += len(o.outcomes)
    stored = [(oc, e) for oc in o.outcomes for e in ev_calls(oc, 'setAttribute') if ':L' in oc['path']]
    bad = None
    for oc, e in stored:
        evs = oc['events']
        i = evs.index(e)
        val = e[2][2] if len(e[2]) > 2 else '?'
        enc_before = [x for x in evs[:i] if x[0] == 'call' and x[1] == 'encrypt' and len(x[2]) >= 3 and x[2][2] in val]
        # the new object's privacy flag may have been read from the template by a helper: then the path says whether this is an upgrade (flag true) or not (false)
        flag = [x[2] for x in evs[:i] if x[0] == 'fact']
        no_upgrade = bool(flag) and flag[-1] is False
        if not enc_before and not no_upgrade:
            bad = (oc, e)
            break
    site = 'public-to-private upgrade'
    if not stored:
        r.undecided(f['qname'], site, 'no attribute store reached under the upgrade assignment', file=f['file'], line=f['line'])
    elif bad:
        r.violation(f['qname'], site, 'while copying a public object into a private one, %s is stored (line %s) without passing Token::encrypt: plaintext lands in the private copy' % (bad[1][2][1:], bad[1][3]), file=f['file'], line=bad[1][3], path=bad[0]['path'])
    else:
        r.ok(f['qname'], site, '%d stores, all re-encrypted' % len(stored), file=f['file'], line=f['line'])
    # saveTemplate flag
    for g in sorted(prog.functions.values(), key=lambda g: (g['file'], g['line'])):
        if g.get('class') != 'SoftHSM' or not list(calls(g['body'], short='saveTemplate')):
            continue
        ctx.analysed(g)

        def trig(e, st):
            if e.get('k') == 'Call' and short(e.get('callee')) == 'saveTemplate' and len(e['args']) >= 2:
                return ('saveTemplate', canon(e['args'][1], st.env))
            return None
        sf = SiteFacts(g, prog, trigger=trig, track_facts=r'^EQ\(haveWrite')
        sf.CAP = 48
        sf.go()
        r.paths += sf.paths_returned
        bad = None
        n = 0
        for (_, flag), hits in sf.sites.items():
            core = re.sub(r'^\((.*)!=CK_FALSE\)$', r'\1', flag)
            for h in hits:
                n += 1
                ok = False
                for a, t in h['facts']:
                    pc = parse_call(a) if t and a.startswith('EQ(haveWrite(') else None
                    if pc and pc[1][1] == 'CKR_OK':
                        hw = parse_call(pc[1][0])
                        if hw and len(hw[1]) == 3 and hw[1][2] == core:
                            ok = True
                if not ok:
                    bad = (flag, h)
        site = 'privacy flag passed to saveTemplate'
        if bad:
            r.violation(g['qname'], site, 'saveTemplate is told the object is private=%s, which is not the flag haveWrite checked for the object being written: byte strings of the template are stored under the wrong privacy' % bad[0], file=g['file'], line=bad[1]['line'], path=bad[1]['path'])
        elif n == 0:
            r.undecided(g['qname'], site, 'saveTemplate call not reached', file=g['file'], line=g['line'])
        else:
            r.ok(g['qname'], site, '%d abstract states' % n, file=g['file'], line=g['line'])


def r3_masterkey(ctx, prog):
    r = ctx.rule('C06.R3', 'the master key is only ever unmasked inside SecureDataManager for encrypt/decrypt/re-wrap; PIN blobs are written only by pbeEncryptKey', floor=5, engine='E5')
    allowed = {'SecureDataManager::encrypt', 'SecureDataManager::decrypt', 'SecureDataManager::pbeEncryptKey'}
    for g in prog.functions.values():
        for c in calls(g['body'], callee='SecureDataManager::unmask'):
            site = 'unmask in ' + g['qname'].split('::')[-1]
            if g['qname'] in allowed:
                r.ok(g['qname'], site, 'owner', file=g['file'], line=c['l'])
            else:
                r.violation(g['qname'], site, 'the master key is unmasked outside encrypt/decrypt/pbeEncryptKey', file=g['file'], line=c['l'])
    wallowed = {'SecureDataManager::SecureDataManager', 'SecureDataManager::initObject', 'SecureDataManager::~SecureDataManager'}
    for g in prog.functions.values():
        for n in walk(g['body']):
            fq = None
            if n.get('k') == 'Assign' and n['a'].get('k') == 'Member' and n['a'].get('fq') in ('SecureDataManager::soEncryptedKey', 'SecureDataManager::userEncryptedKey'):
                fq = n['a']['fq']
            if n.get('k') == 'Call':
                for i, a in enumerate(n.get('args', [])):
                    if a is not None and a.get('k') == 'Member' and a.get('fq') in ('SecureDataManager::soEncryptedKey', 'SecureDataManager::userEncryptedKey') and (n.get('pm', '') + 'v' * 9)[i] == 'm':
                        if short(n.get('callee')) != 'pbeEncryptKey':
                            fq = a['fq']
                        else:
                            r.ok(g['qname'], 'blob %s filled by pbeEncryptKey' % a['field'], 'wrapped key', file=g['file'], line=n['l'])
                rcv = n.get('recv')
                if rcv is not None and rcv.get('k') == 'Member' and rcv.get('fq') in ('SecureDataManager::soEncryptedKey', 'SecureDataManager::userEncryptedKey') and not n.get('const') and not is_pure_name(short(n.get('callee'))) \
                        and g['qname'] not in wallowed | {'SecureDataManager::pbeEncryptKey'}:
                    fq = rcv['fq']
            if fq:
                site = 'write of %s in %s' % (fq.split('::')[1], g['qname'].split('::')[-1])
                if g['qname'] in wallowed:
                    r.ok(g['qname'], site, 'loaded from the stored blob', file=g['file'], line=n['l'])
                else:
                    r.violation(g['qname'], site, 'a PIN blob is written outside the constructor / pbeEncryptKey: something other than the wrapped master key could be persisted', file=g['file'], line=n['l'])


def r4_iv(ctx, prog):
    r = ctx.rule('C06.R4', 'every attribute/key encryption uses a freshly generated IV; a failing RNG stops the encryption', floor=4, engine='E1+E3 finite-domain')
    for name in ('SecureDataManager::encrypt', 'SecureDataManager::pbeEncryptKey'):
        f = prog.fn(name)
        ctx.analysed(f)
        base = {'userLoggedIn': 1, 'soLoggedIn': 0, re.compile(r'size\(maskedKey\)'): 32, re.compile(r'PBEDeriveKey@\d+\(.*\)'): 1}
        # (a) RNG fails for the IV
        ivvar = None
        for c in calls(f['body'], short='encryptInit'):
            if len(c['args']) >= 3 and c['args'][2].get('k') == 'Var':
                ivvar = c['args'][2]['name']
        if ivvar is None:
            r.undecided(name, 'IV variable', 'encryptInit call with an IV variable not found', file=f['file'], line=f['line'])
            continue
        cenv = dict(base)
        cenv[re.compile(r'generateRandom@\d+\(\w+,%s,.*\)' % ivvar)] = 0
        cenv[re.compile(r'generateRandom@\d+\(.*\)')] = 1
        o = outcomes(f, prog, cenv, record={'generateRandom', 'encryptInit'})
        r.paths += len(o.outcomes)
        bad = [oc for oc in o.outcomes if ev_calls(oc, 'encryptInit') or oc['retv'] != 0]
        site = 'RNG failure for the IV'
        if bad:
            r.violation(name, site, 'the IV could not be generated but the function goes on (returns %s%s)' % (bad[0]['ret'], ', reaches encryptInit' if ev_calls(bad[0], 'encryptInit') else ''), file=f['file'], line=bad[0]['line'], path=bad[0]['path'])
        else:
            r.ok(name, site, '%d paths' % len(o.outcomes), file=f['file'], line=f['line'])
        # (b) on the normal path the IV passed to encryptInit was filled by generateRandom just before, and nothing else wrote it
        cenv = dict(base)
        cenv[re.compile(r'generateRandom@\d+\(.*\)')] = 1
        o = outcomes(f, prog, cenv, record={'generateRandom', 'encryptInit', 'operator=', 'operator+=', 'wipe', 'resize'})
        r.paths += len(o.outcomes)
        bad = None
        for oc in o.outcomes:
            evs = oc['events']
            for i, e in enumerate(evs):
                if e[1] == 'encryptInit':
                    gen = [j for j, x in enumerate(evs[:i]) if x[1] == 'generateRandom' and len(x[2]) >= 2 and x[2][1] == ivvar]
                    later = [x for x in evs[(gen[-1] + 1 if gen else 0):i] if x[1] in ('operator=', 'wipe', 'resize') and x[2] and x[2][0] == ivvar]
                    if not gen or later or (len(e[2]) >= 4 and e[2][3] != ivvar):
                        bad = oc
        site = 'IV provenance'
        if bad:
            r.violation(name, site, 'encryptInit is reached with an IV that was not freshly filled by the RNG (fixed, reused or overwritten IV)', file=f['file'], line=bad['line'], path=bad['path'])
        else:
            r.ok(name, site, '%d paths' % len(o.outcomes), file=f['file'], line=f['line'])


def r5_umask(ctx, prog):
    r = ctx.rule('C06.R5', 'every created file/directory mode is masked with the configured umask; the umask reaches every creation call from the configuration, parsed as octal', floor=8, engine='E5 argument flow')
    # (a) creation calls
    for g in sorted(prog.functions.values(), key=lambda g: (g['file'], g['line'])):
        for c in calls(g['body']):
            q = c.get('callee') or ''
            if q in ('open', 'mkdir', 'creat', 'openat', 'mkdirat') and not c.get('recv'):
                args = c['args']
                if q == 'open' and len(args) < 3:
                    flags = canon(args[1]) if len(args) > 1 else ''
                    if 'O_CREAT' in flags:
                        r.violation(g['qname'], '%s without mode' % q, 'open() with O_CREAT but without a mode argument', file=g['file'], line=c['l'])
                    continue
                mode = args[-1]
                s = canon(mode)
                site = '%s mode in %s' % (q, g['qname'].split('::')[-1])
                um = [p['var']['name'] for p in g['params'] if 'mask' in p['var']['name'].lower()]
                ok = False
                for n in walk(mode):
                    if n.get('k') == 'Bin' and n['op'] == '&' and n['b'].get('k') == 'Un' and n['b']['op'] == '~':
                        v = n['b']['e']
                        if v.get('k') in ('Var', 'Member'):
                            ok = canon(v)
                if ok:
                    r.ok(g['qname'], site, 'mode %s' % s[:80], file=g['file'], line=c['l'])
                    r.info('%s masks with ~%s' % (site, ok))
                else:
                    r.violation(g['qname'], site, 'the mode %s is not masked with the configured umask: the created file/directory can carry group/other permission bits' % s[:80], file=g['file'], line=c['l'])
            if q == 'fopen' and len(c['args']) >= 2 and c['args'][1].get('k') == 'Str' and any(ch in c['args'][1].get('s', '') for ch in 'wa+'):
                r.violation(g['qname'], 'fopen for writing in ' + g['qname'].split('::')[-1], 'a file is created with fopen(), whose mode cannot be masked with the configured umask', file=g['file'], line=c['l'])
    # (b) argument flow: the umask parameter chain
    sinks = {}      # (qname, sig) -> param index carrying the umask
    for (q, sig), g in prog.functions.items():
        for i, p in enumerate(g['params']):
            if p['type'] == 'int' and 'umask' in p['var']['name'].lower():
                sinks[(q, sig)] = i
    if len(sinks) < 5:
        raise AnalysisBroken('umask parameter chain not found (%d functions)' % len(sinks))
    root_ok = False
    for g in sorted(prog.functions.values(), key=lambda g: (g['file'], g['line'])):
        locals_um = {p['var']['name'] for p in g['params'] if 'umask' in p['var']['name'].lower()}
        for n in walk(g['body']):
            node = n if n.get('k') in ('Call', 'Ctor', 'New') else None
            if node is None:
                continue
            callee = node.get('callee') if node.get('k') == 'Call' else '%s::%s' % (node.get('type', '').replace('const ', ''), node.get('type', '').replace('const ', '').split('::')[-1])
            for (q, sig), idx in sinks.items():
                if callee == q and node.get('sig') == sig and idx < len(node.get('args', [])):
                    a = node['args'][idx]
                    s = canon(a)
                    site = 'umask argument of %s in %s' % (q.split('::')[-1], g['qname'].split('::')[-1])
                    if a.get('k') == 'Var' and a['name'] in locals_um:
                        r.ok(g['qname'], site, 'parameter %s' % s, file=g['file'], line=node['l'])
                    elif a.get('k') == 'Member' and 'umask' in a['field'].lower():
                        r.ok(g['qname'], site, 'field %s' % s, file=g['file'], line=node['l'])
                    elif a.get('k') == 'Call' and short(a.get('callee')) == 'getInt' and '"objectstore.umask"' in s:
                        root_ok = True
                        r.ok(g['qname'], site, 'configuration root %s' % s[:80], file=g['file'], line=node['l'])
                    elif (g['qname'], q) in UMASK_EXCEPTIONS and UMASK_EXCEPTIONS[(g['qname'], q)][0](prog, node):
                        r.excepted(g['qname'], site, UMASK_EXCEPTIONS[(g['qname'], q)][1], file=g['file'], line=node['l'])
                    else:
                        r.violation(g['qname'], site, 'the umask handed down is %s, which is neither the caller\'s umask parameter/field nor the configured objectstore.umask' % s[:60], file=g['file'], line=node['l'])
    # fields named umask are assigned only from a umask parameter
    for g in prog.functions.values():
        for n in walk(g['body']):
            if n.get('k') == 'Assign' and n['a'].get('k') == 'Member' and n['a']['field'].lower() in ('umask', '_umask'):
                v = n['b']
                site = 'assignment of field %s' % n['a']['fq']
                if v.get('k') == 'Var' and 'umask' in v['name'].lower():
                    r.ok(g['qname'], site, canon(v), file=g['file'], line=n['l'])
                else:
                    r.violation(g['qname'], site, 'the stored umask is set from %s' % canon(v)[:60], file=g['file'], line=n['l'])
    if not root_ok:
        r.violation('SoftHSM::C_Initialize', 'configuration root', 'no call hands Configuration::getInt("objectstore.umask", ...) to the object store', file=None, line=None)
    # (c) octal parsing of the option
    f = prog.fn('SimpleConfigLoader::loadConfiguration')
    ctx.analysed(f)
    # representation-independent: evaluate the loader with the option type fixed to CONFIG_TYPE_INT_OCTAL and look at the conversion call that feeds setInt
    octal = macro(prog, 'CONFIG_TYPE_INT_OCTAL')
    o = Outcomes(f, prog, cenv={re.compile(r'getType(@\d+)?\(.*\)'): octal, 'configType': octal}, record_calls={'strtol', 'strtoul', 'atoi', 'setInt', 'stoi'})
    o.CAP = 64
    o.LOOP_ROUNDS = 1
    o.go()
    convs = {(e[1], e[2][-1] if e[1].startswith('strto') and len(e[2]) >= 3 else None, e[3]) for oc in o.outcomes for e in oc['events'] if e[0] == 'call' and e[1] in ('strtol', 'strtoul', 'atoi', 'stoi')
             and any(x[0] == 'call' and x[1] == 'setInt' for x in oc['events'])}
    found = bool(convs)
    for name, base, line in sorted(convs, key=str):
        if name.startswith('strto') and base == '8':
            r.ok(f['qname'], 'octal option parsing', '%s(..., 8)' % name, file=f['file'], line=line)
        else:
            r.violation(f['qname'], 'octal option parsing', 'CONFIG_TYPE_INT_OCTAL values are parsed with %s%s: "objectstore.umask = 27" is no longer read as octal 027' % (name, ' base %s' % base if base is not None else ''), file=f['file'], line=line)
    if not found:
        r.undecided(f['qname'], 'octal option parsing', 'no conversion call reaches setInt for CONFIG_TYPE_INT_OCTAL', file=f['file'], line=f['line'])
    cfg = prog.globals.get('valid_config') or next((g for q, g in prog.globals.items() if 'valid_config' in q), None)
    if cfg is not None:
        rows = [(x['args'][0].get('s'), canon(x['args'][1])) for x in walk(cfg['init']) if x.get('k') == 'Init' and len(x.get('args', [])) == 2 and x['args'][0].get('k') == 'Str']
        um = [t for n, t in rows if n == 'objectstore.umask']
        if um and 'OCTAL' not in um[0]:
            r.violation('Configuration', 'objectstore.umask type', 'objectstore.umask is declared %s, not CONFIG_TYPE_INT_OCTAL' % um[0], file=cfg['file'], line=cfg['line'])
        elif um:
            r.ok('Configuration', 'objectstore.umask type', um[0], file=cfg['file'], line=cfg['line'])


def generation_never_creates_without_token_flag(prog, call=None):
    """OSToken's constructor calls Generation::create(path, true): `true` binds to the umask parameter and isToken stays false.
    With isToken==false a Generation object never opens its file for writing, so the bogus umask creates nothing.
    The reason holds only for a call that leaves isToken at its default (or passes a constant false)."""
    if call is not None:
        extra = call.get('args', [])[2:]
        if any(tables.const_eval(a) != 0 for a in extra if a is not None and a.get('k') != 'DefaultArg'):
            return False
    for name in ('Generation::commit', 'Generation::update', 'Generation::Generation', 'Generation::sync'):
        for f in prog.fns(name):
            o = Outcomes(f, prog, cenv={'isToken': 0}, record_calls={'ctor File', 'new File'})
            o.go()
            for oc in o.outcomes:
                for e in oc['events']:
                    if e[1] in ('ctor File', 'new File') and len(e[2]) >= 5 and e[2][4] in ('true', '1'):
                        return False
    return True


UMASK_EXCEPTIONS = {('OSToken::OSToken', 'Generation::create'): (generation_never_creates_without_token_flag,
                    'Generation::create(path, true) binds `true` to the umask parameter, but with isToken==false this Generation never creates its file (validated: no File(..., create=true) is reachable in Generation with isToken==0)')}


# --------------------------------------------------------------------------------------- R6: the read side of the privacy diamond
def r6_read_diamond(ctx, prog, rule_id='C06.R6'):
    """Every read of a secret value attribute that feeds key material goes through Token::decrypt exactly when the object it is read from is private:
    at a decrypting read the object's CKA_PRIVATE is known true on the path, at a plain read it is known false — and it is that object's flag, not another condition."""
    from rules import c02
    r = ctx.rule(rule_id, 'a stored secret value is decrypted exactly when the object it is read from is private (the flag of that object decides, nothing else)', floor=25, engine='E2')
    secret_vals = {macro(prog, n): n for n in c02.SECRET}
    for f in sorted(prog.functions.values(), key=lambda f: (f['file'], f['line'])):
        if not f['file'].endswith('/SoftHSM.cpp') and not f['file'].endswith('SoftHSM.cpp'):
            continue
        srcs = [c for c in calls(f['body']) if c02._secret_source(c, secret_vals) and c.get('recv') is not None and c['recv'].get('k') == 'Var']
        if not srcs or unanalysable(f):
            continue
        ctx.analysed(f)
        # which reads are the first argument of a decrypt call
        dec_args = {id(a) for c in calls(f['body'], short='decrypt') for a in c.get('args', [])[:1] for x in walk(a) if True for a in [a]}
        decrypting = set()
        for c in calls(f['body'], short='decrypt'):
            if c.get('args'):
                for x in walk(c['args'][0]):
                    decrypting.add(id(x))
        ids = {id(c): c for c in srcs}

        def trig(e, st):
            return ('read', e['l'], id(e)) if id(e) in ids else None
        sf = SiteFacts(f, prog, trigger=trig).go()
        r.paths += sf.paths_returned
        for (_, line, cid), hits in sorted(sf.sites.items()):
            c = ids[cid]
            obj = canon(c['recv'])
            name = secret_vals[tables.const_eval(c['args'][0])]
            isdec = cid in decrypting
            site = '%s read of %s.%s@%d' % ('decrypting' if isdec else 'plain', obj, name, sorted(ids).index(cid))
            rx = re.compile(r'getBooleanValue(@\d+)?\(%s,CKA_PRIVATE,\w+\)' % re.escape(obj))
            bad = None
            for h in hits:
                truths = {t for a, t in h['facts'] if rx.fullmatch(a)}
                # the flag may also be a parameter (isPrivate handed in by the caller): then the fact is on that parameter
                if not truths:
                    truths = {t for a, t in h['facts'] if re.fullmatch(r'is\w*Private', a)}
                if isdec and True not in truths:
                    bad = (h, 'decrypted on a path where the object is not known to be private')
                elif not isdec and False not in truths:
                    bad = (h, 'used as stored (no decryption) on a path where the object is not known to be public — a private object\'s value is an encrypted blob there')
            if bad:
                r.violation(f['qname'], site, '%s of %s is %s: the operation works on ciphertext (or garbage) instead of the key value' % (name, obj, bad[1]), file=f['file'], line=line, path=bad[0]['path'])
            else:
                r.ok(f['qname'], site, '%d abstract states' % len(hits), file=f['file'], line=line)


# attribute types whose stored kind is not a byte string, with the reason (a read of such an attribute is no byte read)
NOT_BYTE_STRINGS = {
    'CKA_WRAP_TEMPLATE': 'attribute map (P11AttrWrapTemplate stores a std::map; its entries are kept in clear)',
    'CKA_UNWRAP_TEMPLATE': 'attribute map (P11AttrUnwrapTemplate)',
    'CKA_ALLOWED_MECHANISMS': 'mechanism-type set (P11AttrAllowedMechanisms)',
}
PRIV_ATOM = re.compile(r'(is|was)\w*Private\w*|getBooleanValue(@\d+)?\(.+,CKA_PRIVATE,\w+\)')


def r6b_attribute_reads(ctx, prog, rule_id='C06.R6b'):
    """The generic twin of R6: code that fetches an attribute of *any* type with OSObject::getAttribute(type) (search, C_GetAttributeValue, C_CopyObject, the wrap-template
    comparison) gets ciphertext when the attribute is a byte string of a private object.  Its bytes are read plain only where the object is known public, the attribute known
    not to be a byte string, or empty; they are handed to Token::decrypt only where the object is known private."""
    r = ctx.rule(rule_id, 'the bytes of an attribute fetched by type are decrypted exactly when its object is private', floor=6, engine='E2 (diamond over the privacy flag, the attribute kind and emptiness)')
    consts = {macro(prog, n): n for n in NOT_BYTE_STRINGS}
    for f in sorted(prog.functions.values(), key=lambda f: (f['file'], f['line'])):
        if not f['file'].endswith(('SoftHSM.cpp', 'P11Attributes.cpp', 'P11Objects.cpp')) or unanalysable(f):
            continue
        holders = {}
        for n in walk(f['body']):
            if n.get('k') == 'Decl':
                for d in n['decls']:
                    i = d.get('init')
                    while i is not None and i.get('k') in ('Cast', 'Paren', 'Ctor') and (i.get('e') is not None or (i.get('k') == 'Ctor' and len(i.get('args', [])) == 1)):
                        i = i.get('e') if i.get('e') is not None else i['args'][0]
                    if i is not None and i.get('k') == 'Call' and short(i.get('callee') or '') == 'getAttribute' and i.get('recv') is not None and i.get('args'):
                        if tables.const_eval(i['args'][0]) in consts:
                            continue
                        holders[d['var']['name']] = i
        if not holders:
            continue
        ctx.analysed(f)
        parent = {}
        for n in walk(f['body']):
            for v in n.values():
                for c in (v if isinstance(v, list) else [v]):
                    if isinstance(c, dict):
                        parent[id(c)] = n
        reads = {}
        for c in calls(f['body']):
            if short(c.get('callee') or '') in ('getByteStringValue', 'peekValue') and c.get('recv') is not None and c['recv'].get('k') == 'Var' and c['recv']['name'] in holders:
                p1 = parent.get(id(c))
                kind = 'plain'
                if p1 is not None and p1.get('k') == 'Call' and short(p1.get('callee') or '') == 'size' and p1.get('recv') is c:
                    p2 = parent.get(id(p1))
                    if p2 is not None and p2.get('k') == 'Bin' and p2.get('op') in ('!=', '==', '>') and any(tables.const_eval(x) == 0 for x in (p2.get('a'), p2.get('b')) if x is not None and x is not p1):
                        continue          # emptiness test, not a read of the bytes
                if p1 is not None and p1.get('k') == 'Call' and short(p1.get('callee') or '') == 'decrypt' and p1.get('args') and p1['args'][0] is c:
                    kind = 'decrypting'
                reads[id(c)] = (c, kind)

        def trig(e, st):
            return ('read', e['l'], id(e)) if id(e) in reads else None
        sf = SiteFacts(f, prog, trigger=trig, track_facts=r'^(is|was)\w*Private\w*$|^getBooleanValue(@\d+)?\(.+,CKA_PRIVATE,\w+\)$|^isByteStringAttribute\(.*|^size\(getByteStringValue\(.*').go()
        r.paths += sf.paths_returned
        for (_, line, cid), hits in sorted(sf.sites.items()):
            c, kind = reads[cid]
            a = c['recv']['name']
            obj = canon(holders[a]['recv'])
            site = '%s read of %s (attribute of %s)@%d' % (kind, a, obj, line)
            bad = None
            for h in hits:
                priv = {t for at, t in h['facts'] if PRIV_ATOM.fullmatch(at)}
                notbytes = any(t is False and at.startswith('isByteStringAttribute(') for at, t in h['facts'])
                empty = any(t is False and at.startswith('size(getByteStringValue(') for at, t in h['facts'])
                if kind == 'decrypting' and True not in priv:
                    bad = (h, 'handed to Token::decrypt on a path where the object is not known to be private')
                elif kind == 'plain' and not (False in priv or notbytes or empty):
                    bad = (h, 'read as stored on a path where the object is not known to be public (nor the attribute known not to be a byte string, or empty): for a private object these bytes are ciphertext')
                if bad:
                    break
            if bad:
                r.violation(f['qname'], site, 'the value of %s is %s - a comparison or copy then works on the encrypted blob instead of the attribute value' % (a, bad[1]), file=f['file'], line=line, path=bad[0]['path'])
            else:
                r.ok(f['qname'], site, '%d abstract states' % len(hits), file=f['file'], line=line)


def r2b_flag_arguments(ctx, prog):
    """Helpers that store key material take the privacy flag of the object they fill as a parameter: at every call site the argument must be the flag that the same
    function checked with haveWrite / handed to CreateObject for the new object (not the flag of another object, e.g. the unwrapping key)."""
    r = ctx.rule('C06.R2b', 'store helpers receive the privacy flag of the object they fill', floor=5, engine='E7 sibling agreement + E2')
    helpers = {f['qname']: [i for i, pp in enumerate(f['params']) if pp.get('var') and re.fullmatch(r'is\w*Private', pp['var']['name'])] for f in prog.functions.values()
               if f.get('class') == 'SoftHSM' and re.fullmatch(r'SoftHSM::set\w+(PrivateKey|PublicKey|Key)', f['qname'])}
    helpers = {q: ix for q, ix in helpers.items() if ix}
    for g in sorted(prog.functions.values(), key=lambda g: (g['file'], g['line'])):
        cs = [c for c in calls(g['body']) if c.get('callee') in helpers]
        if not cs:
            continue
        ctx.analysed(g)
        # the flag of the new object in this function: the privacy argument of haveWrite / CreateObject-style calls
        own = set()
        for c in calls(g['body']):
            if short(c.get('callee')) == 'haveWrite' and len(c.get('args', [])) >= 3:
                own |= {x['name'] for x in walk(c['args'][2]) if x.get('k') == 'Var'}
        for c in cs:
            i = helpers[c['callee']][0]
            a = c['args'][i] if i < len(c.get('args', [])) else None
            names = {x['name'] for x in walk(a) if x.get('k') == 'Var'} if a is not None else set()
            site = '%s flag argument@%d' % (short(c['callee']), cs.index(c))
            sib = [canon(x['args'][helpers[x['callee']][0]]) for x in cs if x is not c and helpers[x['callee']][0] < len(x.get('args', []))]
            if own and not (names & own):
                r.violation(g['qname'], site, 'the helper is given %s, but the privacy of the object being filled is %s (the flag this function checked with haveWrite): key material of a private object is stored in clear when the two differ'
                            % (canon(a), '/'.join(sorted(own))), file=g['file'], line=c['l'])
            elif sib and canon(a) not in sib and len(set(sib)) == 1:
                r.violation(g['qname'], site, 'the helper is given %s while its %d sibling calls in this function pass %s' % (canon(a), len(sib), sib[0]), file=g['file'], line=c['l'])
            else:
                r.ok(g['qname'], site, canon(a), file=g['file'], line=c['l'])


def r7_default_privacy(ctx, prog, rule_id='C06.R7'):
    """When the template has no CKA_PRIVATE, two places decide the privacy of the new object on their own: extractObjectInformation (the flag the access check and the encryption of the
    attribute values use) and the P11 object classes (the CKA_PRIVATE that is stored).  They must give the same default for every object class."""
    r = ctx.rule(rule_id, 'the privacy default used for checking/encrypting equals the privacy default that is stored, per object class', floor=6, engine='E2 finite-domain evaluation + E7 sibling agreement')
    # stored default: P11AttrPrivate::setDefault, overridden by the init() functions that set CKA_PRIVATE themselves when it is absent
    sd = prog.fn('P11AttrPrivate::setDefault')
    ctx.analysed(sd)
    lits = [x for n in walk(sd['body']) if n.get('k') == 'Ctor' and 'OSAttribute' in n.get('type', '') for x in walk(n) if x.get('k') == 'Lit']
    if len(lits) != 1:
        r.undecided(sd['qname'], 'stored default', 'cannot read the default value', file=sd['file'], line=sd['line'])
        return
    base_default = bool(lits[0]['v'])
    override = {}
    for g in prog.functions.values():
        if not (g.get('class') or '').startswith('P11') or short(g['qname']) != 'init':
            continue
        decls = {d['var']['name']: d['init'] for n in walk(g['body']) if n.get('k') == 'Decl' for d in n['decls'] if d.get('init')}
        sets = [c for c in calls(g['body'], short='setAttribute') if len(c.get('args', [])) >= 2 and canon(c['args'][0]) == 'CKA_PRIVATE']
        if not sets:
            continue
        ctx.analysed(g)
        cls = [x['m'] for c in calls(g['body'], short='setAttribute') if canon(c['args'][0]) == 'CKA_CLASS' for a in [c['args'][1]]
               for i in [decls.get(canon(a)) if a.get('k') == 'Var' else a] if i for x in walk(i) if x.get('k') == 'Lit' and str(x.get('m', '')).startswith('CKO_')]
        vals = [x['v'] for c in sets for a in [c['args'][1]] for i in [decls.get(canon(a)) if a.get('k') == 'Var' else a] if i for x in walk(i) if x.get('k') == 'Lit']
        if len(set(cls)) != 1 or len(set(vals)) != 1:
            r.undecided(g['qname'], 'stored default', 'sets CKA_PRIVATE but class/value not readable (%s / %s)' % (cls, vals), file=g['file'], line=g['line'])
            continue
        override[cls[0]] = bool(vals[0])
    f = prog.fn('extractObjectInformation')
    ctx.analysed(f)
    pt, pc = param_name(f, 0), param_name(f, 1)
    flag = param_name(f, 6)
    classes = sorted(k for k in macros(prog) if re.fullmatch(r'CKO_(DATA|CERTIFICATE|PUBLIC_KEY|PRIVATE_KEY|SECRET_KEY|DOMAIN_PARAMETERS)', k))
    if len(classes) < 6:
        r.undecided(f['qname'], 'classes', 'object class constants not all found: %s' % classes, file=f['file'], line=f['line'])
    for c in classes:
        second = 'CKA_CERTIFICATE_TYPE' if c == 'CKO_CERTIFICATE' else 'CKA_KEY_TYPE'
        cenv = {pc: 2, '#concrete-loops': 1, param_name(f, 7): 0,
                re.compile(r'%s\[0\]\.type' % pt): macro(prog, 'CKA_CLASS'), re.compile(r'%s\[0\]\.ulValueLen' % pt): 8, re.compile(r'\*%s\[0\]\.pValue' % pt): macro(prog, c),
                re.compile(r'%s\[1\]\.type' % pt): macro(prog, second), re.compile(r'%s\[1\]\.ulValueLen' % pt): 8, re.compile(r'\*%s\[1\]\.pValue' % pt): 0}
        o = Outcomes(f, prog, cenv=cenv, record_calls=set())
        o.CAP = 64
        o.LOOP_ROUNDS = 3
        o.go()
        r.paths += len(o.outcomes)
        okp = [oc for oc in o.outcomes if may_succeed(oc)]
        site = 'class %s, no CKA_PRIVATE in the template' % c
        want = override.get(c, base_default)
        if not okp:
            r.undecided(f['qname'], site, 'no accepting path', file=f['file'], line=f['line'])
            continue
        bad = None
        for oc in okp:
            w = [e for e in oc['events'] if e[0] == 'write' and e[1] == flag]
            if w and not re.fullmatch(r'\d+|CK_TRUE|CK_FALSE', str(w[-1][2])):
                bad = ('undecided', oc, w[-1])
                break
            got = True if not w else (str(w[-1][2]) not in ('0', 'CK_FALSE'))      # every caller initialises the flag to CK_TRUE before the call
            if got != want:
                bad = ('violated', oc, w[-1] if w else None)
                break
        if bad and bad[0] == 'undecided':
            r.undecided(f['qname'], site, 'value written to %s is not concrete: %s' % (flag, bad[2][2]), file=f['file'], line=bad[2][3])
        elif bad:
            r.violation(f['qname'], site, 'the object is checked and its attribute values are %s as a %s object, but the CKA_PRIVATE stored for this class defaults to %s: %s'
                        % ('stored in clear' if want else 'encrypted', 'public' if want else 'private', 'true' if want else 'false',
                           'a public session can create it and its byte strings are not encrypted although it is private' if want else 'values are encrypted under a key the reader will not use'),
                        file=f['file'], line=(bad[2][3] if bad[2] else f['line']), path=bad[1]['path'])
        else:
            r.ok(f['qname'], site, 'both default to %s' % ('private' if want else 'public'), file=f['file'], line=f['line'])
    # callers hand in CK_TRUE
    for g in sorted(prog.functions.values(), key=lambda g: (g['file'], g['line'])):
        for c in calls(g['body']):
            if short(c.get('callee')) != 'extractObjectInformation' or len(c.get('args', [])) < 7:
                continue
            def init_of(a):
                v = a.get('name') if a.get('k') == 'Var' else None
                i = [d['init'] for n in walk(g['body']) if n.get('k') == 'Decl' for d in n['decls'] if d['var']['name'] == v and d.get('init')]
                return canon(i[0]) if i else (canon(a) if a.get('k') == 'Lit' else None)
            flag0, impl = init_of(c['args'][6]), init_of(c['args'][7]) if len(c['args']) > 7 else None
            cv = c['args'][2].get('name') if c['args'][2].get('k') == 'Var' else None
            cls0 = sorted({x['m'] for n in walk(g['body']) for (a_, b_) in ([(n['a'], n['b'])] if n.get('k') == 'Assign' else [(d['var'], d['init']) for d in n['decls'] if d.get('init')] if n.get('k') == 'Decl' else [])
                           if a_.get('k') == 'Var' and a_.get('name') == cv for x in walk(b_) if x.get('k') == 'Lit' and str(x.get('m', '')).startswith('CKO_')})
            site = 'initial value of %s@%d' % (canon(c['args'][6]), c['l'])
            if impl in ('true', '1'):
                # the class is fixed by the caller and the template is not required to name it: the initial value is the default
                wants = {override.get(k, base_default) for k in cls0}
                if not cls0 or flag0 not in ('CK_TRUE', 'CK_FALSE', '0', '1'):
                    r.undecided(g['qname'], site, 'implicit class %s / initial flag %s not readable' % (cls0, flag0), file=g['file'], line=c['l'])
                elif wants != {flag0 in ('CK_TRUE', '1')}:
                    r.violation(g['qname'], site, 'objects of class %s are created here with the privacy flag defaulting to %s, while the stored CKA_PRIVATE defaults to %s' % ('/'.join(cls0), flag0, '/'.join('true' if w else 'false' for w in sorted(wants))), file=g['file'], line=c['l'])
                else:
                    r.ok(g['qname'], site, '%s for %s (implicit class)' % (flag0, '/'.join(cls0)), file=g['file'], line=c['l'])
            elif flag0 in ('CK_TRUE', '1'):
                r.ok(g['qname'], site, 'CK_TRUE', file=g['file'], line=c['l'])
            elif flag0 in ('CK_FALSE', '0'):
                # the evaluation above took CK_TRUE as what the callers hand in: with CK_FALSE every class that extractObjectInformation leaves alone is checked/encrypted as public
                r.violation(g['qname'], site, 'the privacy flag starts as CK_FALSE here: for every class whose default extractObjectInformation does not set itself (data, private and secret keys, domain parameters) '
                            'the object is checked and stored in clear as public while its stored CKA_PRIVATE defaults to %s' % ('true' if base_default else 'false'), file=g['file'], line=c['l'])
            else:
                r.undecided(g['qname'], site, 'the flag handed to extractObjectInformation is not initialised to a constant at its declaration', file=g['file'], line=c['l'])


def r8_reload(ctx, prog):
    """objectstore.umask (and every other option) is whatever the configuration file read at C_Initialize says; an option the file does not set takes the built-in default (umask 0077).
    That holds across C_Finalize / C_Initialize only if a reload forgets every value of the previous file: each table the setters fill is emptied before the loader runs."""
    r = ctx.rule('C06.R8', 'a configuration reload forgets every value of the previous configuration before loading', floor=3, engine='E3 must-pass-through')
    tables_ = {}
    for g in prog.functions.values():
        if g.get('class') == 'Configuration' and re.fullmatch(r'set[A-Z]\w*', short(g['qname'])):
            ctx.analysed(g)
            for n in walk(g['body']):
                if n.get('k') == 'Call' and (n.get('callee') or '').endswith('operator[]') and (n.get('recv') or {}).get('k') == 'Member' and n['recv']['base'].get('k') == 'This':
                    tables_.setdefault(n['recv']['field'], g['qname'])
    f = [g for g in prog.functions.values() if g['qname'] == 'Configuration::reload' and not g['params']]
    if not f or not tables_:
        r.undecided('Configuration::reload', 'tables', 'anchor not found (reload(): %d, setter tables: %d)' % (len(f), len(tables_)), file='', line=0)
        return
    f = f[0]
    ctx.analysed(f)
    o = Outcomes(f, prog, cenv={}, record_calls={'clear', 'loadConfiguration'}).go()
    r.paths += len(o.outcomes)
    loading = [oc for oc in o.outcomes if any(e[1] == 'loadConfiguration' for e in oc['events'])]
    if not loading:
        r.undecided(f['qname'], 'tables', 'no path reaches the loader', file=f['file'], line=f['line'])
    for t, setter in sorted(tables_.items()):
        bad = None
        for oc in loading:
            i = [k for k, e in enumerate(oc['events']) if e[1] == 'loadConfiguration'][0]
            if not any(e[1] == 'clear' and e[2] and e[2][0] == t for e in oc['events'][:i]):
                bad = oc
                break
        if bad:
            r.violation(f['qname'], t, 'the table %s (filled by %s) is not emptied before the configuration is loaded again: an option of the previous file that the new file does not set - objectstore.umask, for one - stays in force instead of its default'
                        % (t, setter), file=f['file'], line=bad['line'], path=bad['path'])
        else:
            r.ok(f['qname'], t, 'cleared before loadConfiguration', file=f['file'], line=f['line'])


def run(ctx):
    prog = ctx.prog('ossl-file')
    r1_diamond(ctx, prog)
    r2_copy(ctx, prog)
    r3_masterkey(ctx, prog)
    r4_iv(ctx, prog)
    r5_umask(ctx, prog)
    r6_read_diamond(ctx, prog)
    r6b_attribute_reads(ctx, prog)
    r2b_flag_arguments(ctx, prog)
    from rules import c05
    c05.r7_placement_flags(ctx, prog, rule_id='C06.R2c')
    r7_default_privacy(ctx, prog)
    r8_reload(ctx, prog)
    from rules import c08
    c08.r1_engine(ctx, prog, rule_id='C06.R9')


MUTANTS = [
    dict(name='wrap-template-compares-stored-bytes', rule='C06.R6b', file='src/lib/SoftHSM.cpp', after='// Verify the wrap template attribute',
         old='\t\t\t\tif (isKeyPrivate &&\n\t\t\t\t    keyAttr.isByteStringAttribute() &&', new='\t\t\t\tif (false &&\n\t\t\t\t    keyAttr.isByteStringAttribute() &&'),
    dict(name='find-compares-stored-bytes-of-session-objects', rule='C06.R6b', file='src/lib/SoftHSM.cpp', after='CK_RV SoftHSM::C_FindObjectsInit(',
         old='if (isPrivateObject && attr.getByteStringValue().size() != 0)', new='if (isPrivateObject && (*it)->getBooleanValue(CKA_TOKEN, false) && attr.getByteStringValue().size() != 0)'),
    dict(name='generated-public-key-flag-defaults-private', rule='C06.R7', file='src/lib/SoftHSM.cpp', after='CK_RV SoftHSM::C_GenerateKeyPair',
         old='CK_BBOOL ispublicKeyPrivate = CK_FALSE;', new='CK_BBOOL ispublicKeyPrivate = CK_TRUE;'),
    dict(name='unwrap-ec-key-stored-with-unwrapping-keys-flag', rule='C06.R2b', file='src/lib/SoftHSM.cpp', after='CK_RV SoftHSM::C_UnwrapKey',
         old='setECPrivateKey(osobject, keydata, token, isPrivate != CK_FALSE);', new='setECPrivateKey(osobject, keydata, token, isUnwrapKeyPrivate != CK_FALSE);'),
    dict(name='digestkey-session-private-not-decrypted', rule='C06.R6', file='src/lib/SoftHSM.cpp', after='CK_RV SoftHSM::C_DigestKey',
         old='\tif (isPrivate)\n', new='\tif (isOnToken && isPrivate)\n'),
    dict(name='generateaes-stores-plain-key', rule='C06.R1', function='generateAES', file='src/lib/SoftHSM.cpp', after='CK_RV SoftHSM::generateAES',
         old='\t\t\t\ttoken->encrypt(key->getKeyBits(), value);\n', new='\t\t\t\tvalue = key->getKeyBits();\n'),
    dict(name='attrvalue-stores-plaintext', rule='C06.R1', function='P11AttrValue', file='src/lib/P11Attributes.cpp', after='CK_RV P11AttrValue::updateAttr(',
         old='\tosobject->setAttribute(type, value);', new='\tosobject->setAttribute(type, plaintext);'),
    dict(name='copy-upgrade-stores-attr', rule='C06.R2', file='src/lib/SoftHSM.cpp', after='CK_RV SoftHSM::C_CopyObject(',
         old='!newobject->setAttribute(attrType, value))', new='!newobject->setAttribute(attrType, attr))'),
    dict(name='copy-savetemplate-old-privacy', rule='C06.R2', file='src/lib/SoftHSM.cpp', after='CK_RV SoftHSM::C_CopyObject(',
         old='rv = newp11object->saveTemplate(token, isPrivate != CK_FALSE, pTemplate, ulCount, OBJECT_OP_COPY);', new='rv = newp11object->saveTemplate(token, wasPrivate != CK_FALSE, pTemplate, ulCount, OBJECT_OP_COPY);'),
    dict(name='encrypt-ignores-rng-failure', rule='C06.R4', file='src/lib/data_mgr/SecureDataManager.cpp', after='bool SecureDataManager::encrypt(',
         old='\tif (!rng->generateRandom(IV, aes->getBlockSize())) return false;', new='\trng->generateRandom(IV, aes->getBlockSize());'),
    dict(name='open-mode-0666', rule='C06.R5', file='src/lib/object_store/File.cpp',
         old='(S_IRUSR | S_IWUSR | S_IRGRP | S_IWGRP | S_IROTH | S_IWOTH) & ~umask);', new='(S_IRUSR | S_IWUSR | S_IRGRP | S_IWGRP | S_IROTH | S_IWOTH));'),
    dict(name='objectfile-lockfile-default-umask', rule='C06.R5', file='src/lib/object_store/ObjectFile.cpp',
         old='transactionLockFile = new File(lockpath, umask, false, true, true);', new='transactionLockFile = new File(lockpath, 0, false, true, true);'),
    dict(name='umask-parsed-base0', rule='C06.R5', file='src/lib/common/SimpleConfigLoader.cpp',
         old='strtol(stringValue.c_str(), NULL, 8)', new='strtol(stringValue.c_str(), NULL, 0)'),
]
