"""C18 — thread safety with locking enabled (DESIGN.md §3 C18; narrow)."""
import re
from engine.rulelib import *
from engine import locks, callgraph, tables

EXPLANATION = (
    "Linearizability over schedules is NOT decidable by this family and is not claimed. Decided are necessary structural conditions. R1 (lock discipline): for every field of the frozen table field -> mutex (discovered with the "
    "'held n-1 of n times' statistic, confirmed by reading) each read and write outside constructors/destructors happens while the mutex is held — lexically through the RAII MutexLocker (including the `isLocked ? NULL : m` idiom) or, computed, "
    "by every caller of the accessing method. R2: the mutex-class acquisition order graph (which mutex classes are acquired, transitively through calls with class-hierarchy resolution, while another is held) has no cycle. R3: no method "
    "acquires, directly or through a call on the same object, a mutex it already holds (the mutexes are not recursive); acquisitions guarded by a literal boolean argument are specialised on that argument. R4: the mutex callbacks of "
    "MutexFactory are written only by C_Initialize / the factory itself. R5 (atomicity shape): no method splits one logical update over two critical sections of the same mutex with data flowing from a read of a shared field in the first "
    "section to a write of the same field in the second (lost-update shape), and no check-then-act on a listed field straddles the lock acquisition.")
ASSUMPTIONS = ['MutexLocker is the only way mutexes are taken (checked: no direct Mutex::lock calls outside it)', 'virtual calls resolved by class-hierarchy analysis', 'word-sized validity flags are read unlocked by design and are not in the table']
TECHNIQUE = 'custom static analysis over the clang AST: RAII lock-scope analysis with caller-holds propagation, lock-order graph over the call graph, re-acquisition and split-critical-section rules'
LEVEL_TEXT = ('Every access to every listed shared field and every acquisition chain is checked on the whole program. These are necessary conditions of thread safety (a violated one is a data race, a deadlock or a lost update waiting for a schedule); '
              'their satisfaction does not prove linearizability.')
LEVEL_NOTE = 'trusted: clang front end, normaliser, lexical lock-scope model, CHA call graph; the frozen field->mutex table in rules/c18.py'

TABLE = {
    'HandleManager': (['handles', 'objects', 'handleCounter'], 'handlesMutex'),
    'SessionManager': (['sessions'], 'sessionsMutex'),
    'SessionObjectStore': (['objects', 'allObjects'], 'storeMutex'),
    'SessionObject': (['attributes', 'savedAttributes', 'inTransaction'], 'objectMutex'),
    'ObjectFile': (['attributes', 'transactionLockFile'], 'objectMutex'),
    'OSToken': (['objects', 'allObjects', 'currentFiles', 'gen'], 'tokenMutex'),
    'Token': (['sdm'], 'tokenMutex'),
    'Directory': (['files', 'subDirs'], 'dirMutex'),
    'ObjectStore': (['tokens', 'allTokens'], 'storeMutex'),
    'SecureMemoryRegistry': (['registry'], 'SecMemRegistryMutex'),
}
R1_EXCEPTIONS = {
    ('SessionObjectStore::getObjectCount', 'SessionObjectStore::objects'): 'test-only accessor (used by objstoretest, not reachable from the PKCS#11 API)',
}


def r1_discipline(ctx, prog):
    r = ctx.rule('C18.R1', 'every access to a shared field happens under its mutex (locally or by every caller)', floor=80, engine='E4')
    L = locks.analyse(prog)
    for (q, sig), fl in sorted(L.items()):
        f = fl.fn
        cls = f.get('class')
        if cls not in TABLE or f.get('mkind') in ('ctor', 'dtor'):
            continue
        fields, mutex = TABLE[cls]
        ctx.analysed(f)
        unlocked = {}
        n = 0
        for fq, rw, line, held in fl.accesses:
            c2, fld = fq.rsplit('::', 1)
            if c2 != cls or fld not in fields:
                continue
            n += 1
            if mutex not in held:
                unlocked.setdefault(fq, []).append((rw, line))
        # calls through a local copy of a protected pointer field (T* p = field; ... p->m()) are uses of the field as well
        alias = {}
        for n in walk(f['body']):
            if n.get('k') == 'Decl':
                for d in n['decls']:
                    i = d.get('init')
                    if i is not None and i.get('k') == 'Member' and i.get('base', {}).get('k') == 'This' and i['field'] in fields and '*' in d.get('type', ''):
                        alias[d['var']['name']] = i['field']
            elif n.get('k') == 'Assign' and n['a'].get('k') == 'Var' and n['a'].get('kind') == 'local' and n['b'].get('k') == 'Member' and n['b'].get('base', {}).get('k') == 'This' and n['b']['field'] in fields:
                alias[n['a']['name']] = n['b']['field']
        for c, held in fl.calls:
            rc = c.get('recv') if c.get('k') == 'Call' else None
            if rc is not None and rc.get('k') == 'Var' and rc['name'] in alias and mutex not in held:
                ok2, why2 = locks.callers_hold(prog, q, mutex, cls)
                if not ok2:
                    r.violation(q, 'use of %s through %s' % (alias[rc['name']], rc['name']), '%s is copied from %s under the lock but %s is called through it at line %s without %s held: the object behind the pointer (its cipher context, its login state) is used by two threads at once'
                                % (rc['name'], alias[rc['name']], short(c.get('callee')), c['l'], mutex), file=f['file'], line=c['l'])
        for fld in fields:
            fq = cls + '::' + fld
            acc = [a for a in fl.accesses if a[0] == fq]
            if not acc:
                continue
            site = 'accesses of %s' % fld
            if fq not in unlocked:
                r.ok(q, site, '%d accesses under %s' % (len(acc), mutex), file=f['file'], line=acc[0][2])
                continue
            if (q, fq) in R1_EXCEPTIONS:
                r.excepted(q, site, R1_EXCEPTIONS[(q, fq)], file=f['file'], line=unlocked[fq][0][1])
                continue
            ok, why = locks.callers_hold(prog, q, mutex, cls)
            if ok:
                r.ok(q, site, '%d accesses; %s is held by every caller' % (len(acc), mutex), file=f['file'], line=acc[0][2])
            else:
                rw, line = unlocked[fq][0]
                r.violation(q, site, '%s of %s at line %d without %s held (%s): a data race with every method that takes the lock' % ('write' if rw == 'w' else 'read', fq, line, mutex, '; '.join(why)[:200]), file=f['file'], line=line)


def mutex_class(fn, m):
    return '%s.%s' % (fn.get('class') or fn['qname'], m)


def acquisitions(prog):
    """{qname: set(mutex classes acquired directly)} and per call the mutexes held."""
    L = locks.analyse(prog)
    direct = {}
    for (q, sig), fl in L.items():
        direct.setdefault(q, set()).update(mutex_class(fl.fn, m) for m, a, b, kind, _g in fl.scopes)
    return direct


def r23_order(ctx, prog):
    r2 = ctx.rule('C18.R2', 'the lock-order graph over mutex classes is acyclic', floor=5, engine='E4')
    r3 = ctx.rule('C18.R3', 'no mutex is acquired again while it is held on the same object (non-recursive mutexes)', floor=20, engine='E4')
    L = locks.analyse(prog)
    direct = acquisitions(prog)
    cg = callgraph.build(prog)
    # transitive acquisition sets (what a call to q may acquire), specialised: an acquisition under `if (!flag)` / `flag ? NULL : m` with flag a parameter is dropped for callers passing literal true
    memo = {}

    def acq(q, depth=0, stack=()):
        if q in memo:
            return memo[q]
        if q in stack or depth > 6:
            return set()
        res = set(direct.get(q, ()))
        for c in cg.get(q, ()):
            if c in direct or c in cg:
                res |= acq(c, depth + 1, stack + (q,))
        memo[q] = res
        return res

    def reacq(t, call, h, depth=4, seen=()):
        """Witness (callee chain) when t, called on the same object with the literal arguments of `call`, acquires mutex h."""
        if depth < 0 or t in seen:
            return None
        for tf in prog.fns(t):
            tfl = L.get((tf['qname'], tf['sig']))
            if tfl is None:
                continue
            for m, a, b, kind, g in tfl.scopes:
                if m == h and locks.consistent(call, tf, g):
                    return [t]
            for c2, held2 in tfl.calls:
                if c2.get('k') != 'Call' or not c2.get('callee') or h in held2:
                    continue
                if not (c2.get('recv') is None or c2['recv'].get('k') == 'This'):
                    continue
                if not locks.consistent(call, tf, tfl.guards.get(id(c2), frozenset())):
                    continue
                w = reacq(c2['callee'], c2, h, depth - 1, seen + (t,))
                if w:
                    return [t] + w
        return None
    edges = {}
    for (q, sig), fl in sorted(L.items()):
        f = fl.fn
        if not fl.scopes:
            continue
        ctx.analysed(f)
        bad = None
        for c, held in fl.calls:
            if not held or c.get('k') != 'Call' or not c.get('callee'):
                continue
            callee = c['callee']
            targets = {callee}
            if c.get('virtual') and '::' in callee:
                cls0, m0 = callee.rsplit('::', 1)
                targets |= {'%s::%s' % (s, m0) for s in prog.subclasses(cls0)}
            same_obj = c.get('recv') is None or c['recv'].get('k') == 'This'
            for t in sorted(targets):
                if same_obj:
                    for h in held:
                        w = reacq(t, c, h)
                        if w:
                            bad = (c, h, w)
                for h in held:
                    hc = mutex_class(f, h)
                    for g in acq(t):
                        if g != hc:
                            edges.setdefault(hc, {}).setdefault(g, (q, c['l'], t))
        site = 'acquisitions while holding a lock'
        if bad:
            c, h, w = bad
            r3.violation(q, site, 'calls %s at line %s while holding %s, and %s acquires %s again on the same object: the non-recursive mutex deadlocks' % (w[0], c['l'], h, ' -> '.join(w), h), file=f['file'], line=c['l'])
        else:
            r3.ok(q, site, '%d calls under a lock' % sum(1 for c, held in fl.calls if held), file=f['file'], line=f['line'])
    # cycles
    nodes = sorted(set(edges) | {g for v in edges.values() for g in v})
    color = {}
    cyc = []

    def dfs(n, path):
        color[n] = 1
        for m in edges.get(n, {}):
            if color.get(m) == 1:
                cyc.append(path + [n, m])
            elif color.get(m) is None:
                dfs(m, path + [n])
        color[n] = 2
    for n in nodes:
        if color.get(n) is None:
            dfs(n, [])
    for a in sorted(edges):
        for b, (q, line, t) in sorted(edges[a].items()):
            incyc = any(a in c and b in c for c in cyc)
            site = '%s -> %s' % (a, b)
            if incyc:
                c = [c for c in cyc if a in c and b in c][0]
                r2.violation(q, site, 'lock order cycle %s: %s acquires %s (via %s, line %s) while holding %s, and the reverse order exists too: two threads can deadlock' % (' -> '.join(c), q, b, t, line, a), file=prog.fns(q)[0]['file'] if prog.fns(q) else None, line=line)
            else:
                r2.ok(q, site, 'via %s' % t, file=prog.fns(q)[0]['file'] if prog.fns(q) else None, line=line)
    r2.info('%d mutex classes, %d order edges' % (len(nodes), sum(len(v) for v in edges.values())))


def r4_callbacks(ctx, prog):
    r = ctx.rule('C18.R4', 'mutex callbacks are installed only by C_Initialize / MutexFactory; mutexes are taken only through MutexLocker', floor=3, engine='E5')
    allowed = {'MutexFactory::MutexFactory', 'MutexFactory::setCreateMutex', 'MutexFactory::setDestroyMutex', 'MutexFactory::setLockMutex', 'MutexFactory::setUnlockMutex', 'MutexFactory::enable', 'MutexFactory::disable'}
    for g in sorted(prog.functions.values(), key=lambda g: (g['file'], g['line'])):
        for n in walk(g['body']):
            if n.get('k') == 'Assign' and n['a'].get('k') == 'Member' and n['a'].get('fq', '').startswith('MutexFactory::') and n['a']['field'] in ('createMutex', 'destroyMutex', 'lockMutex', 'unlockMutex', 'enabled'):
                site = 'write of %s in %s' % (n['a']['field'], g['qname'].split('::')[-1])
                if g['qname'] in allowed:
                    r.ok(g['qname'], site, 'factory', file=g['file'], line=n['l'])
                else:
                    r.violation(g['qname'], site, 'a mutex callback is replaced outside the factory', file=g['file'], line=n['l'])
        for c in calls(g['body']):
            if c.get('callee') in ('Mutex::lock', 'Mutex::unlock') and g.get('class') not in ('MutexLocker', 'Mutex', 'MutexFactory') and g['qname'] != 'lock_callback':   # lock_callback: OpenSSL<1.1 CRYPTO locking callback, lock/unlock are its contract
                r.violation(g['qname'], 'direct %s' % c['callee'], 'a mutex is taken without the RAII locker: an early return leaves it locked', file=g['file'], line=c['l'])
        for c in calls(g['body']):
            if short(c.get('callee')) in ('setCreateMutex', 'setDestroyMutex', 'setLockMutex', 'setUnlockMutex') and g['qname'] not in ('SoftHSM::C_Initialize', 'SoftHSM::C_Finalize', 'resetMutexFactoryCallbacks') and g.get('class') != 'MutexFactory':
                r.violation(g['qname'], 'callback setter', 'mutex callbacks are changed outside C_Initialize', file=g['file'], line=c['l'])
            elif short(c.get('callee')) in ('setCreateMutex', 'setDestroyMutex', 'setLockMutex', 'setUnlockMutex'):
                r.ok(g['qname'], '%s@%s' % (short(c['callee']), c['l']), 'initialisation', file=g['file'], line=c['l'])


def reset_only_from_inittoken(prog):
    """OSToken::resetToken is reached only through Token::createToken <- Slot::initToken <- C_InitToken, which refuses a slot with open sessions."""
    chain = [('OSToken::resetToken', {'Token::createToken'}), ('ObjectStoreToken::resetToken', {'Token::createToken'}), ('Token::createToken', {'Slot::initToken'}), ('Slot::initToken', {'SoftHSM::C_InitToken'})]
    return all(set(callgraph.callers(prog, q)) <= allowed for q, allowed in chain)


R5_EXCEPTIONS = {
    'OSToken::resetToken': (reset_only_from_inittoken, 'the work list is taken by getObjects() before the lock, but the function runs only inside C_InitToken on a slot without sessions (C03.R6 / C14.R1): '
                            'no other thread has a session through which it could add or remove objects of this token (validated: the only call chain is C_InitToken -> Slot::initToken -> Token::createToken)'),
}


def r5_split_sections(ctx, prog):
    r = ctx.rule('C18.R5', 'no lost-update / check-then-act shape: a critical section does not act on what an earlier section of the same mutex (or a self-locking method called before it) read', floor=10, engine='E4')
    L = locks.analyse(prog)
    for (q, sig), fl in sorted(L.items()):
        f = fl.fn
        cls = f.get('class')
        if cls not in TABLE:
            continue
        fields, mutex = TABLE[cls]
        sc = [s for s in fl.scopes if s[0] == mutex]
        if not sc:
            continue
        site = 'critical sections of %s' % mutex
        # locals filled from a shared field inside an earlier section, and whole-field writes in a later one
        bad = None
        for i, (m1, a1, b1, k1, _g1) in enumerate(sc):
            tainted = {}

            def shared(e):
                return [x['field'] for x in walk(e) if x.get('k') == 'Member' and x.get('base', {}).get('k') == 'This' and x['field'] in fields]
            for n in walk(f['body']):
                if not (a1 <= n.get('l', -1) <= b1):
                    continue
                if n.get('k') == 'Decl':
                    for d in n['decls']:
                        if d.get('init') is not None and shared(d['init']):
                            tainted[d['var']['name']] = shared(d['init'])[0]
                elif n.get('k') == 'Assign' and n['a'].get('k') == 'Var' and shared(n['b']):
                    tainted[n['a']['name']] = shared(n['b'])[0]
                elif n.get('k') == 'Call' and short(n.get('callee')) in ('operator=', 'swap', 'assign') and n.get('recv') is not None and n['recv'].get('k') == 'Var' and any(shared(a) for a in n.get('args', [])):
                    tainted[n['recv']['name']] = [shared(a) for a in n['args'] if shared(a)][0][0]
            # propagate through plain copies (to a fixpoint)
            for _ in range(4):
                for n in walk(f['body']):
                    if n.get('k') == 'Decl':
                        for d in n['decls']:
                            init = d.get('init')
                            if init is None:
                                continue
                            src = [x['name'] for x in walk(init) if x.get('k') == 'Var' and x['name'] in tainted]
                            if src and (init.get('k') == 'Var' or (init.get('k') == 'Ctor' and len(init.get('args', [])) == 1)):
                                tainted.setdefault(d['var']['name'], tainted[src[0]])
                    elif n.get('k') == 'Assign' and n['a'].get('k') == 'Var' and n['b'].get('k') == 'Var' and n['b']['name'] in tainted:
                        tainted.setdefault(n['a']['name'], tainted[n['b']['name']])
            for (m2, a2, b2, k2, _g2) in sc[i + 1:]:
                if a2 <= a1:
                    continue
                for n in walk(f['body']):
                    if n.get('k') == 'Assign' and a2 <= n['l'] <= b2 and n['a'].get('k') == 'Member' and n['a'].get('base', {}).get('k') == 'This' and n['a']['field'] in fields:
                        src = [x['name'] for x in walk(n['b']) if x.get('k') == 'Var' and x['name'] in tainted and tainted[x['name']] == n['a']['field']]
                        if src:
                            bad = (n, src[0], a1, a2)
                    if n.get('k') == 'Call' and a2 <= n['l'] <= b2 and short(n.get('callee')) in ('swap', 'operator=') and n.get('recv') is not None and n['recv'].get('k') == 'Member' and n['recv'].get('field') in fields:
                        src = [x['name'] for a in n.get('args', []) for x in walk(a) if x.get('k') == 'Var' and x['name'] in tainted and tainted[x['name']] == n['recv']['field']]
                        if src:
                            bad = (n, src[0], a1, a2)
        # check-then-act: a local computed by a method of this class that takes the same mutex by itself (outside any section here) steers a later section
        if not bad:
            lockers = {g.fn['qname'] for (qq, sg), g in L.items() if g.fn.get('class') == cls and any(sx[0] == mutex for sx in g.scopes)}
            stale = {}
            for n in walk(f['body']):
                if n.get('k') == 'Decl':
                    for d in n['decls']:
                        init = d.get('init')
                        if init is None or any(a <= n['l'] <= b for (_, a, b, _, _) in sc):
                            continue
                        cs = [c for c in walk(init) if c.get('k') == 'Call' and c.get('callee') in lockers and (c.get('recv') is None or c['recv'].get('k') == 'This')]
                        if cs:
                            stale[d['var']['name']] = (cs[0]['callee'], n['l'])
                elif n.get('k') == 'Assign' and n['a'].get('k') == 'Var' and not any(a <= n['l'] <= b for (_, a, b, _, _) in sc):
                    cs = [c for c in walk(n['b']) if c.get('k') == 'Call' and c.get('callee') in lockers and (c.get('recv') is None or c['recv'].get('k') == 'This')]
                    if cs:
                        stale[n['a']['name']] = (cs[0]['callee'], n['l'])
            for (m2, a2, b2, k2, _g2) in sc:
                for n in walk(f['body']):
                    if a2 <= n.get('l', -1) <= b2 and n.get('k') == 'Var' and n['name'] in stale and stale[n['name']][1] < a2:
                        bad2 = (n, n['name'], stale[n['name']], a2)
                        break
                else:
                    continue
                break
            else:
                bad2 = None
            if bad2 and q in R5_EXCEPTIONS and R5_EXCEPTIONS[q][0](prog):
                r.excepted(q, site, R5_EXCEPTIONS[q][1], file=f['file'], line=bad2[0]['l'])
                continue
            if bad2:
                n, v, (callee, l0), a2 = bad2
                r.violation(q, site, '%s is computed at line %s by %s, which takes and releases %s by itself; the critical section that starts at line %s then acts on it (line %s): between the two another thread can change what %s looked at '
                            '(check-then-act is no longer atomic)' % (v, l0, callee, mutex, a2, n['l'], short(callee)), file=f['file'], line=n['l'])
                continue
        if bad:
            n, v, a1, a2 = bad
            r.violation(q, site, 'the field is rewritten at line %s from %s, a snapshot taken in an earlier critical section (line %s): whatever another thread did between the two sections (line %s..%s) is overwritten — a lost update' % (n['l'], v, a1, a1, a2),
                        file=f['file'], line=n['l'])
        else:
            r.ok(q, site, '%d critical section(s), none acts on a stale read' % len(sc), file=f['file'], line=sc[0][1])


def r6_locking_mode(ctx, prog):
    """Every guarantee of this property rests on the mutexes being real.  MutexFactory is a process-wide singleton that survives C_Finalize, so each C_Initialize has to set its
    enabled flag itself: enable() when the application supplied mutex callbacks or allowed OS locking, disable() otherwise - never inherit what an earlier initialisation left."""
    r = ctx.rule('C18.R6', 'C_Initialize switches locking on whenever the application asks for it (callbacks or CKF_OS_LOCKING_OK) and decides the mode on every path itself', floor=4, engine='E1 finite-domain evaluation')
    f = prog.fn('SoftHSM::C_Initialize')
    ctx.analysed(f)
    p0 = param_name(f, 0)
    OSL = macro(prog, 'CKF_OS_LOCKING_OK')
    cases = [('no arguments', {p0: 0}, 'disable'),
             ('no callbacks, CKF_OS_LOCKING_OK', {p0: 1, 'cb': 0, 'flags': OSL}, 'enable'),
             ('no callbacks, no flag', {p0: 1, 'cb': 0, 'flags': 0}, 'disable'),
             ('four callbacks, no flag', {p0: 1, 'cb': 1, 'flags': 0}, 'enable'),
             ('four callbacks, CKF_OS_LOCKING_OK', {p0: 1, 'cb': 1, 'flags': OSL}, 'enable')]
    for name, d, want in cases:
        cenv = {'isInitialised': 0, p0: d[p0], re.compile(r'\w+(->|\.)pReserved'): 0}
        if d[p0]:
            cenv[re.compile(r'\w+(->|\.)(CreateMutex|DestroyMutex|LockMutex|UnlockMutex)')] = d['cb']
            cenv[re.compile(r'\w+(->|\.)flags')] = d['flags']
        cenv = helper_values(prog, f, cenv)      # conditions on the arguments may live in file-local helpers
        o = Outcomes(f, prog, cenv=cenv, record_calls={'enable', 'disable'})
        o.CAP = 96
        o.LOOP_ROUNDS = 1
        o.go()
        r.paths += len(o.outcomes)
        okp = [oc for oc in o.outcomes if oc['ret'] == 'CKR_OK']
        site = 'locking mode: %s' % name
        if not okp:
            r.undecided(f['qname'], site, 'no successful path under this assignment', file=f['file'], line=f['line'])
            continue
        bad = None
        argv = {x['var']['name'] for n in walk(f['body']) if n.get('k') == 'Decl' for x in n['decls'] if 'CK_C_INITIALIZE_ARGS' in (x.get('type') or '')} | {p0}
        open_ = sorted({a for oc in okp for a, _ in oc['facts'] if any(re.search(r'\b%s\b' % re.escape(v), a) for v in argv)})
        if open_:
            r.undecided(f['qname'], site, 'a successful path depends on a condition on the arguments that the assignment does not decide: %s' % open_[0][:120], file=f['file'], line=f['line'])
            continue
        for oc in okp:
            sw = [e[1] for e in oc['events'] if e[0] == 'call' and e[1] in ('enable', 'disable')]
            if not sw:
                bad = ('the library initialises without calling MutexFactory::enable() or disable(): the mode of an earlier C_Initialize in this process stays in force', oc)
            elif sw[-1] != want:
                bad = ('the library initialises with MutexFactory::%s(), but the application %s' % (sw[-1], 'asked for locking' if want == 'enable' else 'declared it does not use threads'), oc)
            if bad:
                break
        if bad and want == 'enable':
            r.violation(f['qname'], site, bad[0] + ': every MutexLocker is a no-op although several threads may call in', file=f['file'], line=bad[1]['line'], path=bad[1]['path'])
        elif bad and 'without calling' in bad[0]:
            r.violation(f['qname'], site, bad[0], file=f['file'], line=bad[1]['line'], path=bad[1]['path'])
        else:
            r.ok(f['qname'], site, '%s on %d successful paths' % (want if not bad else 'enable (stricter than required)', len(okp)), file=f['file'], line=f['line'])


def r7_directory_and_index(ctx, prog):
    """OSToken::index() compares the directory listing with the registered file names *under tokenMutex* and opens every file it does not know.  A file that appears in (or disappears
    from) the token directory outside that mutex, before it is registered, is therefore opened a second time by a search running in another thread (or its live object is invalidated):
    every creation of an object file (an ObjectFile constructed with isNew == true) and every removal of a file of the token directory by an OSToken instance method happens while
    tokenMutex is held - in the same critical section that updates the registration."""
    r = ctx.rule('C18.R7', 'object files are created and removed under the token mutex, in the critical section that registers them (index() in another thread must not see an unregistered file)', floor=5, engine='E4 lock scopes')
    L = locks.analyse(prog)
    for (q, sig), fl in sorted(L.items()):
        f = fl.fn
        if f.get('class') != 'OSToken' or f.get('static') or f.get('mkind') in ('ctor', 'dtor') or short(q) in ('createToken', 'accessToken'):
            continue
        for c, held in fl.calls:
            what = None
            if c.get('k') == 'New' and (c.get('type') or '').replace('class ', '') == 'ObjectFile' and c.get('args') and tables.const_eval(c['args'][-1]) == 1 and len(c['args']) >= 5:
                what = 'creation of an object file'
            elif c.get('k') == 'Call' and (c.get('callee') or '') in ('Directory::remove',):
                what = 'removal of a file of the token directory'
            if not what:
                continue
            ctx.analysed(f)
            site = '%s@%d' % (what, c['l'])
            if 'tokenMutex' in held:
                r.ok(q, site, 'under tokenMutex', file=f['file'], line=c['l'])
            else:
                ok2, why2 = locks.callers_hold(prog, q, 'tokenMutex', 'OSToken')
                if ok2:
                    r.ok(q, site, 'every caller holds tokenMutex', file=f['file'], line=c['l'])
                else:
                    r.violation(q, site, 'the %s happens without tokenMutex held: a re-index by another thread (every C_FindObjectsInit, every isValid()) sees a directory that does not match the registered files and opens the file a second time / invalidates the live object - the object is duplicated or its handle dies' % what,
                                file=f['file'], line=c['l'])


# pairs of managers whose states are linked by an invariant: an entry point that touches both sides must do so in one critical section
LINKED = [
    ('session handles <-> session table',
     {'HandleManager::addSession', 'HandleManager::sessionClosed', 'HandleManager::allSessionsClosed'},
     {'SessionManager::openSession', 'SessionManager::closeSession', 'SessionManager::closeAllSessions'},
     'a C_OpenSession that runs between the purge of the handle table and the deletion of the sessions keeps a handle to a Session that is deleted a moment later (use after free)'),
    ('read-only sessions <-> SO login',
     {'SessionManager::haveROSession'},
     {'Token::loginSO'},
     'a C_OpenSession without CKF_RW_SESSION that runs between the test for read-only sessions and the SO login succeeds: a read-only session exists while the SO is logged in'),
]


def r9_linked_managers(ctx, prog):
    """Every manager protects its own table with its own mutex; the PKCS#11 entry points in SoftHSM.cpp hold none.  Where one entry point updates (or tests and then updates) two
    managers whose states are linked, the two steps are separate critical sections - another thread's entry point fits in between.  The rule lists the entry points that touch both
    sides of a linked pair without a mutex held across both calls."""
    r = ctx.rule('C18.R9', 'an entry point that touches two managers whose states are linked does so under one mutex', floor=3, engine='E4 lock scopes over the linked-state table')
    L = locks.analyse(prog)
    for (q, sig), fl in sorted(L.items()):
        f = fl.fn
        if f.get('class') != 'SoftHSM':
            continue
        for name, left, right, why in LINKED:
            a = [(c, held) for c, held in fl.calls if c.get('callee') in left]
            b = [(c, held) for c, held in fl.calls if c.get('callee') in right]
            if not a or not b:
                continue
            ctx.analysed(f)
            site = name
            common = set.intersection(*[set(h) for _, h in a + b])
            if common:
                r.ok(q, site, 'both sides under %s' % '/'.join(sorted(common)), file=f['file'], line=a[0][0]['l'])
            else:
                r.violation(q, site, '%s (line %s) and %s (line %s) are separate critical sections: %s' % (short(a[0][0]['callee']), a[0][0]['l'], short(b[0][0]['callee']), b[0][0]['l'], why),
                            file=f['file'], line=min(a[0][0]['l'], b[0][0]['l']))


def run(ctx):
    prog = ctx.prog('ossl-file')
    r1_discipline(ctx, prog)
    r23_order(ctx, prog)
    r4_callbacks(ctx, prog)
    r5_split_sections(ctx, prog)
    r6_locking_mode(ctx, prog)
    r7_directory_and_index(ctx, prog)
    r9_linked_managers(ctx, prog)
    from rules import c03
    c03.r1_login(ctx, prog, rule_id='C18.R8')


MUTANTS = [
    dict(name='createobject-writes-file-before-lock', rule='C18.R7', file='src/lib/object_store/OSToken.cpp', after='OSObject* OSToken::createObject()',
         old='\tMutexLocker lock(tokenMutex);\n\n\t// Create the new object file\n\tObjectFile* newObject = new ObjectFile(this, objectPath, umask, lockPath, true);\n', new='\tObjectFile* newObject = new ObjectFile(this, objectPath, umask, lockPath, true);\n\tMutexLocker lock(tokenMutex);\n'),
    dict(name='initialize-callbacks-installed-not-enabled', rule='C18.R6', file='src/lib/SoftHSM.cpp', after='CK_RV SoftHSM::C_Initialize(',
         old='\t\t\tMutexFactory::i()->setUnlockMutex(args->UnlockMutex);\n\t\t\tMutexFactory::i()->enable();\n', new='\t\t\tMutexFactory::i()->setUnlockMutex(args->UnlockMutex);\n'),
    dict(name='token-decrypt-narrowed-lock', rule='C18.R1', file='src/lib/slot_mgr/Token.cpp', after='bool Token::decrypt(const ByteString &encrypted, ByteString &plaintext)',
         old='\t// Lock access to the token\n\tMutexLocker lock(tokenMutex);\n\n\tif (sdm == NULL) return false;\n\n\treturn sdm->decrypt(encrypted,plaintext);',
         new='\tSecureDataManager* mgr = NULL;\n\t{\n\t\tMutexLocker lock(tokenMutex);\n\t\tmgr = sdm;\n\t}\n\tif (mgr == NULL) return false;\n\treturn mgr->decrypt(encrypted,plaintext);'),
    dict(name='addtokenobject-lookup-outside-lock', rule='C18.R5', file='src/lib/handle_mgr/HandleManager.cpp', after='CK_OBJECT_HANDLE HandleManager::addTokenObject(',
         old='\tMutexLocker lock(handlesMutex);\n', new='\tCK_OBJECT_HANDLE hExisting = getObjectHandle(object);\n\tMutexLocker lock(handlesMutex);\n\tif (hExisting != CK_INVALID_HANDLE) return hExisting;\n'),
    dict(name='handlemanager-getobject-no-lock', rule='C18.R1', file='src/lib/handle_mgr/HandleManager.cpp', after='CK_VOID_PTR HandleManager::getObject(',
         old='\tMutexLocker lock(handlesMutex);\n', new=''),
    dict(name='closesession-scan-before-lock', rule='C18.R1', file='src/lib/session_mgr/SessionManager.cpp', after='CK_RV SessionManager::closeSession(',
         old='\t// Lock access to the vector\n\tMutexLocker lock(sessionsMutex);\n', new='',
         ),
    dict(name='ostoken-getobjects-index-under-lock', rule='C18.R3', file='src/lib/object_store/OSToken.cpp', after='std::set<OSObject*> OSToken::getObjects()',
         old='\tindex();\n\n\t// Make sure that no other thread is in the process of changing\n\t// the object list when we return it\n\tMutexLocker lock(tokenMutex);', new='\tMutexLocker lock(tokenMutex);\n\n\tindex();'),
    dict(name='destroyobject-holds-object-lock', rule='C18.R2', file='src/lib/object_store/ObjectFile.cpp', after='bool ObjectFile::destroyObject()',
         old='\treturn token->deleteObject(this);', new='\tMutexLocker lock(objectMutex);\n\treturn token->deleteObject(this);'),
    dict(name='sessionstore-snapshot-writeback', rule='C18.R5', file='src/lib/object_store/SessionObjectStore.cpp', after='void SessionObjectStore::sessionClosed(',
         old='\tMutexLocker lock(storeMutex);\n', new='\tstd::set<SessionObject*> keep;\n\t{\n\t\tMutexLocker lock(storeMutex);\n\t\tkeep = objects;\n\t}\n\tMutexLocker lock(storeMutex);\n\tobjects = keep;\n'),
]
