"""C16 — crash consistency of the file store (DESIGN.md §3 C16; narrow)."""
import os, re
from engine.rulelib import *


class FactOutcomes(Outcomes):
    """Outcomes that also record, in order, the branch decisions taken on call results (the final fact set loses them when an argument is overwritten later)."""
    FACT_RX = re.compile(r'^(EQ\()?\w+@\d+\(|^isEOF\(')

    def on_fact(self, atom, truth, st):
        super().on_fact(atom, truth, st)
        if self.FACT_RX.match(atom):
            self.ev(st, ('fact', atom, truth))


def outcomes(f, prog, cenv, record=None, rounds=2, cap=64):
    o = FactOutcomes(f, prog, cenv=cenv, record_calls=record)
    o.LOOP_ROUNDS = rounds
    o.CAP = cap
    o.go()
    return o

EXPLANATION = (
    "Enumerating crash points and loading every intermediate disk state is fault injection (runtime) and is NOT claimed. Decided are the structural conditions that make the loader safe against half-written files and that describe the write order. "
    "R1 (exact reads): in every File::read* primitive, on every abstract path that reports success each fread delivered exactly the number of bytes requested and each nested read primitive succeeded — a short read is never accepted. "
    "R2 (loader discipline): in ObjectFile::refresh, on every abstract path (loop unrolled over the attribute kinds) a failing read primitive or an unknown attribute kind leads to valid=false and no later valid=true, except the two end-of-file idioms the "
    "trailer-less format needs (EOF while reading the generation number, EOF exactly where the next record would start); valid=true is written only after the loop ran to end-of-file; Generation::sync/wasUpdated treat a failed read as 'changed'/'failure'. "
    "R3 (write order inventory): every destructive operation on a live store file — File::truncate, an O_TRUNC open (File constructed with read+write+create+truncate) — is reported unless its target is a temporary that is renamed afterwards. "
    "The in-place rewrite in ObjectFile::writeAttributes violates this on the pinned tree; it was replayed (process killed after File::truncate: the key file is left empty and the key is lost) and is listed as known finding F10, a design property of the store "
    "that a small patch cannot change (the fcntl locking protocol is tied to the object file's inode). R5: the rewrite has a single durability point (no flush followed by further writes). R6: the token-opening path of C_Initialize has no unguarded unsigned subtraction (shared with C17.R3). R4 (creation order): OSToken::createObject registers the new object only after ObjectFile construction reported valid (shared with C09.R4).")
ASSUMPTIONS = ['a crashed process leaves a prefix of the bytes written since the last truncate (stdio buffering, no reordering within one file)', 'fread/fwrite/ftruncate behave as documented',
               'abstract paths: loops unrolled twice, then summarised']
TECHNIQUE = 'custom static analysis over the clang AST: path enumeration of the file readers and the object loader (failed-read -> invalid typestate), inventory of destructive file operations'
LEVEL_TEXT = ('All abstract paths of the 8 read primitives, of ObjectFile::refresh (per attribute kind) and of the generation readers are enumerated; all constructions of File and all truncate calls in the library are classified. '
              'These are necessary conditions (a loader that accepts a short read returns half-written objects as valid); which disk states a crash can produce is not explored.')
LEVEL_NOTE = 'trusted: clang front end, normaliser, abstract interpreter (engine/interp.py), the accepted EOF idioms named in rules/c16.py'

READERS = ('readULong', 'readByteString', 'readBool', 'readMechanismTypeSet', 'readAttributeMap', 'readString')


def fact_of(oc, name, line, idx=None):
    """Outcome of the call name@line on this path as decided by the branch that tested it: True, False, ('eq', n, truth) for a result compared
    with n, or None (result never tested).  idx = index of the call event (the deciding branch is searched after it, up to the next call of the same site)."""
    evs = oc['events']
    if idx is None:
        idx = max([i for i, e in enumerate(evs) if e[0] == 'call' and e[1] == name and e[3] == line] or [-1])
    for e in evs[idx + 1:]:
        if e[0] == 'call' and e[1] == name and e[3] == line:
            break
        if e[0] == 'call' and name == 'isEOF' and e[1] in READERS:
            break       # a later read moves the file position: the old end-of-file answer is gone
        if e[0] != 'fact':
            continue
        a, t = e[1], e[2]
        m = re.match(r'EQ\(%s@%s\((.*)\),(.*)\)$' % (name, line), a)
        if m:
            return ('eq', m.group(2), t)
        if a.startswith('%s@%s(' % (name, line)) or (name == 'isEOF' and a.startswith('isEOF(')):
            return t
    if name == 'isEOF':
        # not decided again: the answer of the previous test is still in force when no read happened in between
        for e in reversed(evs[:idx]):
            if e[0] == 'call' and e[1] in READERS:
                break
            if e[0] == 'fact' and e[1].startswith('isEOF('):
                return e[2]
    return None


def r1_exact_reads(ctx, prog):
    r = ctx.rule('C16.R1', 'a File read primitive reports success only if every fread delivered exactly the requested bytes and every nested read succeeded', floor=6, engine='E3')
    for f in sorted(prog.methods_of('File'), key=lambda f: f['line']):
        if not f['qname'].split('::')[-1].startswith('read'):
            continue
        if not (calls(f['body'], short='fread') or any(calls(f['body'], short=s) for s in READERS)):
            continue
        ctx.analysed(f)
        o = outcomes(f, prog, {}, record=set(READERS) | {'fread'}, rounds=2, cap=256)
        r.paths += len(o.outcomes)
        bad = None
        nsucc = 0
        for oc in o.outcomes:
            if oc['retv'] in (0, '0', 'false') or oc['ret'] == 'false':
                continue
            nsucc += 1
            for idx, ev in enumerate(oc['events']):
                if ev[0] != 'call':
                    continue
                _, name, args, line = ev
                t = fact_of(oc, name, line, idx)
                if name == 'fread':
                    want = args[2] if args[1] == '1' else None
                    # a length that was checked against what is left of the file cannot be read short from a file that is merely cut off (the crash model): no exactness test needed
                    fits = want is not None and any(e2[0] == 'fact' and e2[2] is True and re.match(r'fitsInFile@\d+\(\w+,%s\)$' % re.escape(want), e2[1]) for e2 in oc['events'][:idx])
                    if fits:
                        continue
                    if not (isinstance(t, tuple) and t[2] is True and want is not None and t[1] == want):
                        bad = (oc, 'fread at line %s requests %s bytes but success is reported without the result being equal to that count (%s)' % (line, args[2], 'tested: %r' % (t,) if t is not None else 'result not compared'))
                else:
                    if t is not True:
                        bad = (oc, '%s at line %s may have failed (result %s) and success is reported all the same' % (name, line, 'ignored' if t is None else 'false'))
        site = 'success paths'
        if nsucc == 0:
            r.undecided(f['qname'], site, 'no success path found', file=f['file'], line=f['line'])
        elif bad:
            r.violation(f['qname'], site, bad[1] + ': a file cut short by a crash is loaded as if it were complete', file=f['file'], line=f['line'], path=bad[0]['path'])
        else:
            r.ok(f['qname'], site, '%d success paths of %d' % (nsucc, len(o.outcomes)), file=f['file'], line=f['line'])


def r2_loader(ctx, prog):
    r = ctx.rule('C16.R2', 'the object loader marks the object invalid on every failed read or unknown kind; valid only after end-of-file', floor=8, engine='E3')
    f = prog.fn('ObjectFile::refresh')
    ctx.analysed(f)
    kinds = [k for k in ('BOOLEAN_ATTR', 'ULONG_ATTR', 'BYTESTR_ATTR', 'MECHSET_ATTR', 'ATTRMAP_ATTR') if macro(prog, k) is not None]
    if len(kinds) < 5:
        raise AnalysisBroken('attribute kind macros of ObjectFile.cpp not found')
    rec = set(READERS) | {'isEOF', 'isEmpty', 'isValid'}
    for kind in kinds + ['unknown']:
        kv = macro(prog, kind) if kind != 'unknown' else 0x77
        cenv = {'isFirstTime': 1, 'inTransaction': 0, 'osAttrType': kv, re.compile(r'isValid(@\d+)?\(objectFile\)'): 1, re.compile(r'isEmpty(@\d+)?\(objectFile\)'): 0}
        o = outcomes(f, prog, cenv, record=rec, rounds=2, cap=512)
        r.paths += len(o.outcomes)
        bad = None
        nvalid = 0
        for oc in o.outcomes:
            evs = list(oc['events'])
            vwrites = [(i, e) for i, e in enumerate(evs) if e[0] == 'write' and re.fullmatch(r'(this->)?valid', e[1])]
            failed = []
            for i, e in enumerate(evs):
                if e[0] == 'call' and e[1] in READERS:
                    t = fact_of(oc, e[1], e[3], i)
                    if t is not True:
                        failed.append((i, e, t))
            accepted = True
            for i, e, t in failed:
                # EOF idiom: the failing read starts a record (previous event is not a read primitive) and isEOF() is tested true right after it
                cev = [(j, x) for j, x in enumerate(evs) if x[0] == 'call']
                pos = [k for k, (j, x) in enumerate(cev) if j == i][0]
                prev = cev[pos - 1][1] if pos > 0 else None
                nxt = cev[pos + 1] if pos + 1 < len(cev) else None
                starts_record = prev is None or prev[1] not in READERS
                eof_true = nxt is not None and nxt[1][1] == 'isEOF' and fact_of(oc, 'isEOF', nxt[1][3], nxt[0]) is True
                if t is False and starts_record and eof_true:
                    continue
                accepted = False
                later_true = [w for j, w in vwrites if j > i and w[2] in ('true', '1')]
                inval = [w for j, w in vwrites if j > i and w[2] in ('false', '0')]
                if not inval or later_true:
                    bad = (oc, '%s at line %s failed (%s) and the object is not marked invalid' % (e[1], e[3], 'mid-record' if not starts_record else 'not at end-of-file'))
            if kind == 'unknown' and any(e[0] == 'call' and e[1] == 'readULong' and 'osAttrType' in e[2] for e in evs) and not failed:
                if any(fact_of(oc, e[1], e[3], j) is True for j, e in enumerate(evs) if e[0] == 'call' and e[1] == 'readULong' and 'osAttrType' in e[2]) and not any(w[2] in ('false', '0') for j, w in vwrites):
                    bad = (oc, 'an attribute kind outside the five known kinds is not rejected')
            if any(w[2] in ('true', '1') for j, w in vwrites):
                nvalid += 1
                eofs = [(j, e) for j, e in enumerate(evs) if e[0] == 'call' and e[1] == 'isEOF']
                if not accepted:
                    bad = (oc, 'valid=true after a failed read')
                elif not eofs or fact_of(oc, 'isEOF', eofs[-1][1][3], eofs[-1][0]) is not True:
                    bad = (oc, 'valid=true is written without the loop having reached end-of-file')
        site = 'record kind %s' % kind
        if bad:
            r.violation(f['qname'], site, bad[1] + ': a half-written object file is returned as a valid object', file=f['file'], line=bad[0]['line'], path=bad[0]['path'])
        elif kind != 'unknown' and nvalid == 0:
            r.undecided(f['qname'], site, 'no path on which the object becomes valid was found', file=f['file'], line=f['line'])
        else:
            r.ok(f['qname'], site, '%d paths, %d ending valid' % (len(o.outcomes), nvalid), file=f['file'], line=f['line'])
    # the emptied file (what a crash right after the in-place truncate leaves behind)
    cenv = {'isFirstTime': 1, 'inTransaction': 0, re.compile(r'isValid(@\d+)?\(objectFile\)'): 1, re.compile(r'isEmpty(@\d+)?\(objectFile\)'): 1}
    o = outcomes(f, prog, cenv, record=rec, rounds=1, cap=64)
    r.paths += len(o.outcomes)
    keeps = [oc for oc in o.outcomes if not any(e[0] == 'write' and re.fullmatch(r'(this->)?valid', e[1]) and e[2] in ('false', '0') for e in oc['events'])]
    if not o.outcomes:
        r.undecided(f['qname'], 'empty file', 'no path', file=f['file'], line=f['line'])
    elif keeps:
        r.violation(f['qname'], 'empty file', 'an object file of length zero is loaded without the object being marked invalid: it stays a valid object without any attribute', file=f['file'], line=keeps[0]['line'], path=keeps[0]['path'])
    else:
        r.ok(f['qname'], 'empty file', 'marked invalid', file=f['file'], line=f['line'])
    # generation readers: a failed read is "changed" (wasUpdated) / failure unless EOF (sync)
    g = prog.fn('Generation::wasUpdated')
    ctx.analysed(g)
    for tok in (0, 1):
        o = outcomes(g, prog, {'isToken': tok, re.compile(r'isValid(@\d+)?\(\w+\)'): 1}, record={'readULong'}, rounds=1)
        bad = [oc for oc in o.outcomes for j, e in enumerate(oc['events']) if e[0] == 'call' and e[1] == 'readULong' and fact_of(oc, 'readULong', e[3], j) is not True and oc['retv'] in (0, '0', 'false')]
        site = 'failed read, isToken=%d' % tok
        if bad:
            r.violation(g['qname'], site, 'an unreadable generation is reported as "not updated": the stale in-memory copy stays in use', file=g['file'], line=bad[0]['line'], path=bad[0]['path'])
        elif not any(e[1] == 'readULong' for oc in o.outcomes for e in oc['events'] if e[0] == 'call'):
            r.undecided(g['qname'], site, 'no read found', file=g['file'], line=g['line'])
        else:
            r.ok(g['qname'], site, 'reported as updated', file=g['file'], line=g['line'])
    s = prog.fn('Generation::sync')
    ctx.analysed(s)
    o = outcomes(s, prog, {'isToken': 0}, record={'readULong', 'isEOF', 'seek'}, rounds=1)
    bad = None
    for oc in o.outcomes:
        for i, e in enumerate(oc['events']):
            if e[0] == 'call' and e[1] == 'readULong' and fact_of(oc, 'readULong', e[3], i) is not True:
                eof = [(j, x) for j, x in enumerate(oc['events']) if j > i and x[0] == 'call' and x[1] == 'isEOF']
                if not (eof and fact_of(oc, 'isEOF', eof[0][1][3], eof[0][0]) is True) and oc['retv'] not in (0, '0', 'false'):
                    bad = oc
    if bad:
        r.violation(s['qname'], 'failed read', 'a failed read that is not end-of-file is accepted', file=s['file'], line=bad['line'], path=bad['path'])
    else:
        r.ok(s['qname'], 'failed read', 'failure unless end-of-file (empty new object)', file=s['file'], line=s['line'])


def r3_write_order(ctx, prog):
    r = ctx.rule('C16.R3', 'no destructive operation on a live store file before the new content is durable (temporary + rename)', floor=6, engine='E6')
    scope = {os.path.basename(t) for t in prog.tus if any(d in t for d in ('/object_store/', '/slot_mgr/', '/data_mgr/'))}       # by base name: mutated copies live in scratch directories
    renames = [c for g in prog.functions.values() for c in calls(g['body']) if short(c.get('callee')) in ('rename', 'renameat', 'link')]
    for g in sorted(prog.functions.values(), key=lambda g: (g['file'], g['line'])):
        if os.path.basename(g['file']) not in scope:
            continue
        for n in walk(g['body']):
            if n.get('k') == 'Call' and n.get('callee') == 'File::truncate':
                site = 'truncate of %s' % canon(n['recv'])
                r.violation(g['qname'], site, 'the file is cut to zero length in place and rewritten afterwards (no temporary + rename%s): a process that dies between the truncate and the final flush leaves an empty or partial file where a complete object was' % ('' if not renames else '; renames exist elsewhere'),
                            file=g['file'], line=n['l'])
            elif n.get('k') in ('Ctor', 'New') and n.get('type', '').replace('class ', '') == 'File' and len(n.get('args', [])) >= 2:
                a = n['args']
                flags = []
                for i, dflt in ((2, 1), (3, 0), (4, 0), (5, 1)):
                    if i < len(a):
                        flags.append(a[i].get('v') if a[i].get('k') == 'Lit' else None)
                    else:
                        flags.append(dflt)
                site = 'File(%s) at %s' % (', '.join('?' if x is None else str(int(bool(x))) for x in flags), canon(a[0]))
                if None in flags:
                    r.undecided(g['qname'], site, 'open mode is not a literal', file=g['file'], line=n['l'])
                elif all(flags):
                    r.violation(g['qname'], site, 'read+write+create+truncate opens the live file with O_TRUNC: its previous content is gone before anything new is written', file=g['file'], line=n['l'])
                elif not flags[0] and flags[1]:
                    # write-only opens truncate too: accepted only for files that never carry data (lock files): no write* call on any File in this class other than parameters
                    pth = canon(a[0])
                    writers = [c for m in prog.methods_of(g.get('class') or '') for c in calls(m['body']) if short(c.get('callee', '')).startswith('write') and c.get('callee', '').startswith('File::')
                               and c.get('recv') is not None and re.search(r'lock', canon(c['recv']), re.I)]
                    if re.search(r'lock', pth, re.I) and not writers:
                        r.ok(g['qname'], site, 'write-only open of a lock file: truncation of a file that never holds data', file=g['file'], line=n['l'])
                    else:
                        r.violation(g['qname'], site, 'write-only open (O_WRONLY|O_CREAT|O_TRUNC) of %s, which is not a data-less lock file: the previous content is destroyed at open time' % pth, file=g['file'], line=n['l'])
                else:
                    r.ok(g['qname'], site, 'no O_TRUNC (needs read+write+create+truncate, or write-only)', file=g['file'], line=n['l'])
    # the File constructor is the only place that decides O_TRUNC, and only for the all-true combination
    fc = [f for f in prog.fns('File::File')]
    if not fc:
        raise AnalysisBroken('File::File not found')
    for f in fc:
        tr = [n for n in walk(f['body']) if n.get('k') == 'Assign' and n.get('op') in ('|=',) and 'O_TRUNC' in canon(n['b'])]
        for n in tr:
            ctx.analysed(f)
        conds = [n for n in walk(f['body']) if n.get('k') == 'If' and any(x.get('k') == 'Assign' and 'O_TRUNC' in canon(x.get('b', {})) for x in walk(n['t']))
                 and not any(x is not n['t'] and x.get('k') == 'If' for x in walk(n['t']))]
        if not conds:
            r.undecided(f['qname'], 'O_TRUNC condition', 'the place where O_TRUNC is decided was not found', file=f['file'], line=f['line'])
        for c in conds:
            cc = canon(c['c'])
            if cc in ('(((forRead&&forWrite)&&create)&&truncate)', '(!forRead&&forWrite)', '((!forRead)&&forWrite)'):
                r.ok(f['qname'], 'O_TRUNC condition@%d' % conds.index(c), cc, file=f['file'], line=c['l'])
            else:
                r.violation(f['qname'], 'O_TRUNC condition@%d' % conds.index(c), 'O_TRUNC is applied under a condition (%s) other than the two the call-site classification knows (all four flags; write-only)' % cc, file=f['file'], line=c['l'])


def r4_creation_order(ctx, prog):
    r = ctx.rule('C16.R4', 'a new object is registered only after its file was created and found valid', floor=1, engine='E3')
    f = prog.fn('OSToken::createObject')
    ctx.analysed(f)
    o = outcomes(f, prog, {'valid': 1}, record={'insert', 'isValid', 'new ObjectFile'}, rounds=1)
    bad = None
    n = 0
    for oc in o.outcomes:
        ins = [e for e in oc['events'] if e[0] == 'call' and e[1] == 'insert']
        if not ins:
            continue
        n += 1
        iv = [(j, e) for j, e in enumerate(oc['events']) if e[0] == 'call' and e[1] == 'isValid' and e[3] < ins[0][3]]
        if not ((iv and fact_of(oc, 'isValid', iv[-1][1][3], iv[-1][0]) is True) or has_fact(oc['facts'], r'newObject(\.|->)valid')):
            bad = oc
    if bad:
        r.violation(f['qname'], 'registration', 'the object is inserted into the token\'s sets without ObjectFile::isValid() having succeeded', file=f['file'], line=bad['line'], path=bad['path'])
    elif n == 0:
        r.undecided(f['qname'], 'registration', 'no registering path found', file=f['file'], line=f['line'])
    else:
        r.ok(f['qname'], 'registration', '%d registering paths, all after isValid()' % n, file=f['file'], line=f['line'])


def r5_single_durability_point(ctx, prog):
    r = ctx.rule('C16.R5', 'a rewrite has one durability point: no flush of the object file is followed by a further write of the same rewrite', floor=1, engine='E3')
    f = prog.fn('ObjectFile::writeAttributes')
    ctx.analysed(f)
    W = {'writeULong', 'writeByteString', 'writeBool', 'writeMechanismTypeSet', 'writeAttributeMap', 'writeString'}
    o = outcomes(f, prog, {}, record=W | {'flush', 'truncate', 'unlock'}, rounds=2, cap=512)
    r.paths += len(o.outcomes)
    bad = None
    n = 0
    for oc in o.outcomes:
        evs = [e for e in oc['events'] if e[0] == 'call']
        tr = [i for i, e in enumerate(evs) if e[1] == 'truncate']
        if not tr:
            continue
        n += 1
        fl = [i for i, e in enumerate(evs) if e[1] in ('flush', 'unlock') and i > tr[0]]
        wr = [i for i, e in enumerate(evs) if e[1] in W and i > tr[0]]
        if fl and wr and min(fl) < max(wr):
            bad = (oc, evs[min(fl)])
    # the rewrite starts from an empty file: the truncate precedes the first write (a crash then leaves a prefix of the new content, never new head + old tail)
    torn = None
    for oc in o.outcomes:
        evs = [e for e in oc['events'] if e[0] == 'call']
        wr = [i for i, e in enumerate(evs) if e[1] in W]
        tr = [i for i, e in enumerate(evs) if e[1] == 'truncate']
        if wr and (not tr or min(tr) > min(wr)):
            torn = (oc, evs[min(wr)])
    # paths that write but never truncate are not in `n`: look at them too
    o_all = [oc for oc in o.outcomes if any(e[0] == 'call' and e[1] in W for e in oc['events'])]
    if torn:
        r.violation(f['qname'], 'truncate before the first write', 'the first write (%s, line %s) happens before the file was cut to zero length: the old content is overwritten in place, and a crash leaves the head of the new version followed by the tail of the old one — '
                    'an object that is neither its old nor its new state, or one that no longer parses although nothing was being truncated' % (torn[1][1], torn[1][3]), file=f['file'], line=torn[1][3], path=torn[0]['path'])
    elif o_all:
        r.ok(f['qname'], 'truncate before the first write', '%d writing paths' % len(o_all), file=f['file'], line=f['line'])
    if bad:
        r.violation(f['qname'], 'flush placement', '%s at line %s is followed by further writes of the same rewrite: the file on disk grows record by record, and the loader takes every such prefix (it ends at a record boundary) for a complete object — '
                    'a crash hands out the key with attributes missing or stale' % (bad[1][1], bad[1][3]), file=f['file'], line=bad[1][3], path=bad[0]['path'])
    elif n == 0:
        r.undecided(f['qname'], 'flush placement', 'no rewriting path found', file=f['file'], line=f['line'])
    else:
        r.ok(f['qname'], 'flush placement', '%d rewriting paths, flush/unlock only after the last write' % n, file=f['file'], line=f['line'])


def r6_loader_no_throw(ctx, prog):
    """The functions C_Initialize runs to open a token directory contain no unguarded unsigned subtraction feeding substr/resize/index (the exception barrier turns a throw into exit())."""
    from rules import c17
    from engine import callgraph
    reach = callgraph.reach(prog, 'SoftHSM::C_Initialize') | {'SoftHSM::C_Initialize'}
    files = {os.path.basename(g['file']) for g in prog.functions.values() if g.get('class') in ('SlotManager', 'Slot', 'Token', 'ObjectStore', 'OSToken', 'ObjectFile', 'File', 'Directory', 'Generation', 'ObjectStoreToken', 'SecureDataManager')}
    # by file, so that file-local helpers of these classes (free functions) are covered too
    keep = {g['qname'] for g in prog.functions.values() if os.path.basename(g['file']) in files and g['file'].endswith('.cpp') and (g['qname'] in reach or '::' not in g['qname'])}
    c17.r3_underflow(ctx, prog, rule_id='C16.R6', text='opening a token directory cannot throw on an unsigned wrap: sizes read from token files are guarded before they are subtracted from', floor=1, only=keep)


def r7_enumeration(ctx, prog):
    """A crash inside C_InitToken can leave a token directory that cannot be opened (created, token.object not yet written).  Such a directory must cost only itself: the
    enumerations that open the store go on with the next entry after an entry that failed."""
    r = ctx.rule('C16.R7', 'an unusable token directory / object file is skipped: the enumeration goes on with the next entry', floor=2, engine='E3 path enumeration')
    jobs = [('ObjectStore::ObjectStore', 'accessToken', r'isValid(@\d+)?\((token|accessToken.*)\)', {re.compile(r'isValid(@\d+)?\(storeDir\)'): 1}),
            ('OSToken::index', 'new ObjectFile', None, None)]
    f = [g for g in prog.functions.values() if g['qname'] == 'ObjectStore::ObjectStore']
    if len(f) != 1:
        r.undecided('ObjectStore::ObjectStore', 'enumeration', 'constructor not found', file='', line=0)
        return
    f = f[0]
    ctx.analysed(f)
    for fails, label in ((1, 'every entry fails to open'), (0, 'every entry opens')):
        cenv = {re.compile(r'isValid(@\d+)?\(storeDir\)'): 1, re.compile(r'isValid(@\d+)?\((token|accessToken.*)\)'): 1 - fails}
        o = Outcomes(f, prog, cenv=cenv, record_calls={'accessToken', 'push_back'})
        o.LOOP_ROUNDS = 2
        o.CAP = 64
        o.go()
        r.paths += len(o.outcomes)
        most = max([sum(1 for e in oc['events'] if e[0] == 'call' and e[1] == 'accessToken') for oc in o.outcomes] or [0])
        kept = max([sum(1 for e in oc['events'] if e[0] == 'call' and e[1] == 'push_back' and e[2][0] == 'tokens') for oc in o.outcomes] or [0])
        site = 'token enumeration, %s' % label
        if most == 0:
            r.undecided(f['qname'], site, 'no directory entry is opened on any path', file=f['file'], line=f['line'])
        elif most < 2:
            r.violation(f['qname'], site, 'after the first directory entry no further entry is opened on any path: %s' % (
                'one token directory that cannot be opened (left by an interrupted C_InitToken) hides every token that comes after it in directory order' if fails else 'only one token is ever loaded'), file=f['file'], line=f['line'])
        elif fails and kept:
            r.violation(f['qname'], site, 'a token that failed to open is kept', file=f['file'], line=f['line'])
        else:
            r.ok(f['qname'], site, 'up to %d entries opened in %d unrolled rounds' % (most, 2), file=f['file'], line=f['line'])
    # the same for the object files of a token: a file that cannot be parsed (left half-written by a crash) costs only itself
    g = prog.fn('OSToken::index')
    ctx.analysed(g)
    for fails, label in ((1, 'every new object file is unreadable'), (0, 'every new object file is readable')):
        cenv = {param_name(g, 0): 1, 'valid': 1, re.compile(r'refresh(@\d+)?\(tokenDir\)'): 1, re.compile(r'tokenObject\.valid|valid\(tokenObject\)'): 1,
                re.compile(r'\w+\.valid$'): 1 - fails, re.compile(r'isValid(@\d+)?\(\w*[oO]bject\w*\)'): 1 - fails, re.compile(r'wasUpdated(@\d+)?\(gen\)'): 1}
        o = Outcomes(g, prog, cenv=cenv, record_calls={'new ObjectFile'})
        o.LOOP_ROUNDS = 2
        o.CAP = 128
        o.go()
        r.paths += len(o.outcomes)
        most = max([sum(1 for e in oc['events'] if e[0] == 'call' and e[1] == 'new ObjectFile') for oc in o.outcomes] or [0])
        site = 'object file enumeration, %s' % label
        if most == 0:
            r.undecided(g['qname'], site, 'no object file is opened on any path', file=g['file'], line=g['line'])
        elif most < 2:
            r.violation(g['qname'], site, 'after the first new object file no further file is opened on any path: %s' % (
                'one object file that cannot be parsed (cut short by a crash during a rewrite) hides every object whose file name sorts after it - keys the interrupted call never touched disappear' if fails else 'only one object is ever loaded'),
                file=g['file'], line=g['line'])
        else:
            r.ok(g['qname'], site, 'up to %d files opened in 2 unrolled rounds' % most, file=g['file'], line=g['line'])


def r8_one_rewrite_per_update(ctx, prog):
    """Outside a transaction every mutator of an object file rewrites the file once: old image -> new image.  A mutator that reaches store() twice (directly, or by calling another
    mutator first) puts an intermediate image on disk - the attribute being replaced is *absent* there - and a crash between the two rewrites leaves exactly that: a token without its
    PIN blob or flags, a key without the attribute that was being changed."""
    r = ctx.rule('C16.R8', 'an attribute update rewrites the object file at most once (no intermediate image between two stores)', floor=2, engine='E3 call-event counting over enumerated paths, own-method calls followed')
    memo = {}

    def stores(f, depth=0):
        if f['qname'] in memo:
            return memo[f['qname']]
        memo[f['qname']] = (0, None)
        own = {short(g['qname']): g for g in prog.methods_of(f['class'])} if f.get('class') else {}
        o = outcomes(f, prog, {'inTransaction': 0}, record=set(own) | {'store'}, rounds=1, cap=256)
        best = (0, None)
        for oc in o.outcomes:
            n, trail = 0, []
            for e in oc['events']:
                if e[0] != 'call':
                    continue
                if e[1] == 'store':
                    n += 1
                    trail.append('store@%s' % e[3])
                elif e[1] in own and own[e[1]] is not f and depth < 3 and own[e[1]].get('body') is not None:
                    k, _ = stores(own[e[1]], depth + 1)
                    if k:
                        n += k
                        trail.append('%s@%s (%d)' % (e[1], e[3], k))
            if n > best[0]:
                best = (n, (trail, oc['path']))
        memo[f['qname']] = best
        return best
    for cls in ('ObjectFile',):
        for f in sorted(prog.methods_of(cls), key=lambda f: f['line']):
            if short(f['qname']) not in ('setAttribute', 'deleteAttribute') or f.get('body') is None:
                continue
            ctx.analysed(f)
            n, info = stores(f)
            site = 'rewrites per call of %s' % short(f['qname'])
            if n > 1:
                r.violation(f['qname'], site, 'a path outside a transaction rewrites the object file %d times (%s): the image between the rewrites lacks the attribute being replaced, and a crash there leaves a token or key without it' % (n, ', '.join(info[0])),
                            file=f['file'], line=f['line'], path=info[1])
            elif n == 0:
                r.undecided(f['qname'], site, 'no path reaches store()', file=f['file'], line=f['line'])
            else:
                r.ok(f['qname'], site, 'one store on the longest path', file=f['file'], line=f['line'])


def run(ctx):
    prog = ctx.prog('ossl-file')
    r1_exact_reads(ctx, prog)
    r2_loader(ctx, prog)
    r3_write_order(ctx, prog)
    r4_creation_order(ctx, prog)
    r5_single_durability_point(ctx, prog)
    r6_loader_no_throw(ctx, prog)
    r7_enumeration(ctx, prog)
    r8_one_rewrite_per_update(ctx, prog)
    from rules import c09
    c09.r6_commit_last(ctx, prog, rule_id='C16.R9')
    from rules import c05
    c05.r3_commit(ctx, prog, rule_id='C16.R10')


MUTANTS = [
    dict(name='flush-after-every-attribute', rule='C16.R5', file='src/lib/object_store/ObjectFile.cpp', after='bool ObjectFile::writeAttributes(File &objectFile)',
         old='\t\tunsigned long p11AttrType = i->first;\n', new='\t\tunsigned long p11AttrType = i->first;\n\t\tif (!objectFile.flush()) { objectFile.unlock(); return false; }\n'),
    dict(name='readulong-short-read-accepted', rule='C16.R1', file='src/lib/object_store/File.cpp', after='bool File::readULong(',
         old='\tif (fread(&ulongVal[0], 1, 8, stream) != 8)\n', new='\tif (fread(&ulongVal[0], 1, 8, stream) == 0)\n'),
    dict(name='readbytestring-unbounded-and-short', rule='C16.R1', file='src/lib/object_store/File.cpp', after='bool File::readByteString(',
         old='\tif (!fitsInFile(stream, len))\n\t{\n\t\treturn false;\n\t}\n\n\tvalue.resize(len);\n\n\tif (len == 0)\n\t{\n\t\treturn true;\n\t}\n\n\tif (fread(&value[0], 1, len, stream) != len)',
         new='\tvalue.resize(len);\n\n\tif (len == 0)\n\t{\n\t\treturn true;\n\t}\n\n\tif (fread(&value[0], 1, len, stream) == 0)'),
    dict(name='readulong-result-ignored-in-mechset', rule='C16.R1', file='src/lib/object_store/File.cpp', after='bool File::readMechanismTypeSet(',
         old='\t\tif (!readULong(mechType))\n\t\t{\n\t\t\treturn false;\n\t\t}\n', new='\t\t(void) readULong(mechType);\n'),
    dict(name='loader-ignores-failed-bool', rule='C16.R2', file='src/lib/object_store/ObjectFile.cpp', after='if (osAttrType == BOOLEAN_ATTR)',
         old='\t\t\tif (!objectFile.readBool(value))\n\t\t\t{\n\t\t\t\tDEBUG_MSG("Corrupt object file %s", path.c_str());\n\n\t\t\t\tvalid = false;\n', new='\t\t\tif (!objectFile.readBool(value))\n\t\t\t{\n\t\t\t\tDEBUG_MSG("Corrupt object file %s", path.c_str());\n\n'),
    dict(name='loader-eof-accepted-mid-record', rule='C16.R2', file='src/lib/object_store/ObjectFile.cpp', after='if (!objectFile.readULong(osAttrType))',
         old='\t\t{\n\t\t\tDEBUG_MSG("Corrupt object file %s", path.c_str());\n', new='\t\t{\n\t\t\tif (objectFile.isEOF()) break;\n\t\t\tDEBUG_MSG("Corrupt object file %s", path.c_str());\n'),
    dict(name='lockfile-opened-with-otrunc', rule='C16.R3', file='src/lib/object_store/ObjectFile.cpp', after='void ObjectFile::store(bool isCommit',
         old='\tFile objectFile(path, umask, true, true, true, false);', new='\tFile objectFile(path, umask, true, true, true, true);'),
]
