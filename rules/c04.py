"""C04 — only the current PIN authenticates; PIN changes are exact and lossless (DESIGN.md §3 C04)."""
import re
from engine.rulelib import *
from rules.c03 import outcomes, ev_calls

EXPLANATION = (
    "Static decision of the guards and ordering around every PIN write, by finite-domain path enumeration. R1: C_InitPIN over {session state} x {PIN length around the advertised range}: the user PIN is initialised only in "
    "CKS_RW_SO_FUNCTIONS with MIN_PIN_LEN<=len<=MAX_PIN_LEN; C_SetPIN over {state} x {new length}: RW public/user sessions change the user PIN, the RW SO session the SO PIN, everything else is refused; C_InitToken over {length}; "
    "the advertised range in the token info uses the same two constants. R2: Token::setUserPIN/setSOPIN over {old PIN check result}: the old PIN is verified on a scratch SecureDataManager (never on the live one), every PIN-changing "
    "call comes after a successful verification, a failed verification changes no PIN, and each function persists only its own PIN blob. R3: SecureDataManager::login/reAuthenticate accept only after every decryption step and the magic "
    "comparison succeeded (each check failed in turn => the function returns false and installs no key). R4: changing a PIN re-wraps the same master key: no PIN setter regenerates or replaces the masked key while one exists, "
    "setUserPIN writes only the user blob and setSOPIN only the SO blob, pbeEncryptKey re-masks exactly the key it unmasked. The cryptographic iff over all byte strings is a runtime/value statement and is not decided.")
ASSUMPTIONS = ['callees outside /repo/src are uninterpreted', 'RFC4880::PBEDeriveKey and the AES primitives are trusted (C10)', 'the token store setters persist exactly the blob they are given (C05)']
TECHNIQUE = 'custom static analysis over the clang AST: finite-domain path enumeration of the PIN entry points and of the SecureDataManager check/set functions, event-order and who-may-write rules'
LEVEL_TEXT = ('Every PIN-writing function is evaluated on all abstract paths for every combination of its guard predicates and compared with the rule the property states; this decides that no path changes a PIN without role, length and old-PIN checks. '
              'Equality of PINs as byte strings is value-level and not claimed.')
LEVEL_NOTE = 'trusted: clang front end, normaliser, abstract interpreter; the PKCS#11 role table encoded in rules/c04.py'


def states(prog):
    st = {n: macro(prog, n) for n in ('CKS_RO_PUBLIC_SESSION', 'CKS_RO_USER_FUNCTIONS', 'CKS_RW_PUBLIC_SESSION', 'CKS_RW_USER_FUNCTIONS', 'CKS_RW_SO_FUNCTIONS')}
    st['<invalid state>'] = max(st.values()) + 1
    return st


def r1_roles(ctx, prog):
    r = ctx.rule('C04.R1', 'role and length guards dominate every PIN write', floor=40, engine='E1+E3 finite-domain')
    MIN, MAX = macro(prog, 'MIN_PIN_LEN'), macro(prog, 'MAX_PIN_LEN')
    lens = [MIN - 1, MIN, MAX, MAX + 1]
    st = states(prog)
    gs = re.compile(r'getState\(\w+\)')
    # C_InitPIN
    f = prog.fn('SoftHSM::C_InitPIN')
    ctx.analysed(f)
    for sname, sval in st.items():
        for ln in lens:
            o = outcomes(f, prog, {'isInitialised': 1, gs: sval, param_name(f, 2): ln, param_name(f, 1): 1}, record={'initUserPIN', 'setUserPIN', 'setSOPIN'})
            r.paths += len(o.outcomes)
            allowed = sname == 'CKS_RW_SO_FUNCTIONS' and MIN <= ln <= MAX
            site = 'C_InitPIN state=%s len=%d' % (sname, ln)
            bad = None
            for oc in o.outcomes:
                if not allowed and (oc['events'] or may_succeed(oc)):
                    bad = oc
            if bad:
                r.violation(f['qname'], site, 'the user PIN is initialised (or the call succeeds) in state %s with length %d; allowed only in CKS_RW_SO_FUNCTIONS with %d..%d' % (sname, ln, MIN, MAX), file=f['file'], line=bad['line'], path=bad['path'])
            else:
                r.ok(f['qname'], site, '%d paths' % len(o.outcomes), file=f['file'], line=f['line'])
    # C_SetPIN
    f = prog.fn('SoftHSM::C_SetPIN')
    ctx.analysed(f)
    for sname, sval in st.items():
        for ln in lens:
            o = outcomes(f, prog, {'isInitialised': 1, gs: sval, param_name(f, 4): ln, param_name(f, 1): 1, param_name(f, 3): 1}, record={'initUserPIN', 'setUserPIN', 'setSOPIN'})
            r.paths += len(o.outcomes)
            inrange = MIN <= ln <= MAX
            want = None
            if inrange and sname in ('CKS_RW_PUBLIC_SESSION', 'CKS_RW_USER_FUNCTIONS'):
                want = 'setUserPIN'
            elif inrange and sname == 'CKS_RW_SO_FUNCTIONS':
                want = 'setSOPIN'
            site = 'C_SetPIN state=%s newlen=%d' % (sname, ln)
            bad = None
            for oc in o.outcomes:
                names = {e[1] for e in oc['events']}
                if want is None and (names or may_succeed(oc)):
                    bad = ('a PIN is changed (or the call succeeds) although the state/length forbids it', oc)
                elif want is not None and names - {want}:
                    bad = ('the wrong PIN is changed: %s instead of %s' % (sorted(names - {want}), want), oc)
            if bad:
                r.violation(f['qname'], site, bad[0], file=f['file'], line=bad[1]['line'], path=bad[1]['path'])
            else:
                r.ok(f['qname'], site, '%d paths' % len(o.outcomes), file=f['file'], line=f['line'])
    # C_InitToken length
    f = prog.fn('SoftHSM::C_InitToken')
    ctx.analysed(f)
    for ln in lens:
        o = outcomes(f, prog, {'isInitialised': 1, re.compile(r'haveSession\(.*\)'): 0, re.compile(r'getSlot\(slotManager,\w+\)'): 1, param_name(f, 1): 1, param_name(f, 2): ln}, record={'initToken'})
        r.paths += len(o.outcomes)
        site = 'C_InitToken solen=%d' % ln
        bad = [oc for oc in o.outcomes if not (MIN <= ln <= MAX) and (oc['events'] or may_succeed(oc))]
        if bad:
            r.violation(f['qname'], site, 'the token is initialised with an SO PIN of length %d outside %d..%d' % (ln, MIN, MAX), file=f['file'], line=bad[0]['line'], path=bad[0]['path'])
        else:
            r.ok(f['qname'], site, '%d paths' % len(o.outcomes), file=f['file'], line=f['line'])
    # advertised range
    f = prog.fn('Token::getTokenInfo')
    adv = {}
    for n in walk(f['body']):
        if n.get('k') == 'Assign' and n['a'].get('k') == 'Member' and n['a']['field'] in ('ulMinPinLen', 'ulMaxPinLen'):
            adv[n['a']['field']] = (canon(n['b']), n['l'])
    for fld, mac in (('ulMinPinLen', 'MIN_PIN_LEN'), ('ulMaxPinLen', 'MAX_PIN_LEN')):
        if fld not in adv:
            r.undecided(f['qname'], 'advertised ' + fld, 'assignment not found', file=f['file'], line=f['line'])
        elif adv[fld][0] != mac and adv[fld][0] != str(macro(prog, mac)):
            r.violation(f['qname'], 'advertised ' + fld, 'the token info advertises %s but the entry points enforce %s=%d' % (adv[fld][0], mac, macro(prog, mac)), file=f['file'], line=adv[fld][1])
        else:
            r.ok(f['qname'], 'advertised ' + fld, adv[fld][0], file=f['file'], line=adv[fld][1])
    r.exhaustive = True


def scratch_vars(f):
    out = []
    for n in walk(f['body']):
        if n.get('k') == 'Decl':
            for d in n['decls']:
                i = d.get('init')
                if i and i.get('k') == 'New' and i.get('type', '').endswith('SecureDataManager'):
                    out.append(d['var']['name'])
    return out


def r2_oldpin(ctx, prog, rule_id='C04.R2'):
    r = ctx.rule(rule_id, 'the old PIN is verified on a scratch SecureDataManager before any PIN change; a failed verification changes nothing', floor=5, engine='E1+E3 finite-domain')
    for fname, login, own, foreign in (('Token::setUserPIN', 'loginUser', 'setUserPIN', 'setSOPIN'), ('Token::setSOPIN', 'loginSO', 'setSOPIN', 'setUserPIN')):
        f = prog.fn(fname)
        ctx.analysed(f)
        sv = scratch_vars(f)
        if not sv:
            r.violation(fname, 'scratch verifier', 'no scratch SecureDataManager is created: the old PIN can only be verified on the live login state', file=f['file'], line=f['line'])
            continue
        for ok in (0, 1):
            cenv = {'sdm': 1, re.compile(r'%s@\d+\((%s),\w+\)' % (login, '|'.join(sv))): ok, re.compile(r'getTokenFlags@\d+\(.*\)'): 1}
            o = outcomes(f, prog, cenv, record={'loginUser', 'loginSO', 'setUserPIN', 'setSOPIN', 'logout'})
            r.paths += len(o.outcomes)
            site = '%s old-pin-check=%d' % (fname.split('::')[1], ok)
            bad = None
            for oc in o.outcomes:
                evs = oc['events']
                logins = [i for i, e in enumerate(evs) if e[1] in ('loginUser', 'loginSO')]
                sets = [i for i, e in enumerate(evs) if e[1] in ('setUserPIN', 'setSOPIN')]
                live = [e for e in evs if e[1] in ('loginUser', 'loginSO') and e[2] and e[2][0] == 'sdm']
                wr = [e for e in evs if e[0] == 'write' and e[1] == 'sdm']
                if live:
                    bad = ('the old PIN is checked on the live SecureDataManager (line %s): a wrong old PIN disturbs the login state' % live[0][3], oc)
                elif any(evs[i][1] != login for i in logins):
                    bad = ('the old PIN is checked as the wrong user type', oc)
                elif any(evs[i][1] == foreign for i in sets):
                    bad = ('%s changes the other user\'s PIN (%s)' % (fname, foreign), oc)
                elif sets and (not logins or min(sets) < min(logins)):
                    bad = ('a PIN is changed before the old PIN was verified', oc)
                elif not ok and (sets or wr or may_succeed(oc)):
                    bad = ('the old PIN check failed but a PIN is changed / the call succeeds', oc)
                elif ok and may_succeed(oc) and len([i for i in sets if evs[i][2] and evs[i][2][0] == 'token']) != 1:
                    bad = ('a successful change does not persist exactly one PIN blob to the token store', oc)
                elif ok and may_succeed(oc):
                    # the manager whose blob was persisted must be (or become) the live one, else memory and disk disagree about the PIN
                    pe = [evs[i] for i in sets if evs[i][2] and evs[i][2][0] == 'token'][0]
                    m = re.fullmatch(r'get\w+PINBlob\((\w+)\)', pe[2][1]) if len(pe[2]) > 1 else None
                    src = m.group(1) if m else None
                    became = [e for e in evs if e[0] == 'write' and e[1] == 'sdm' and e[2] == src]
                    setters = [evs[i] for i in sets if evs[i][2] and evs[i][2][0] != 'token']
                    if src is None:
                        bad = ('the persisted blob %s is not taken from a SecureDataManager' % (pe[2][1:],), oc)
                    elif setters and setters[-1][2][0] != src:
                        bad = ('the new PIN is set on %s but the blob written to the token store is taken from %s, which still holds the old PIN: after the next C_Initialize the old PIN authenticates again and the new one is refused' % (setters[-1][2][0], src), oc)
                    elif src != 'sdm' and not became:
                        bad = ('the new PIN is persisted from %s but the live SecureDataManager keeps the old one: until the next restart the old PIN still authenticates' % src, oc)
                if bad:
                    break
            if bad:
                r.violation(fname, site, bad[0], file=f['file'], line=bad[1]['line'], path=bad[1]['path'])
            else:
                r.ok(fname, site, '%d paths' % len(o.outcomes), file=f['file'], line=f['line'])
    # initUserPIN persists what the SDM produced
    f = prog.fn('Token::initUserPIN')
    o = outcomes(f, prog, {'sdm': 1}, record={'setUserPIN', 'setSOPIN'})
    bad = [oc for oc in o.outcomes if may_succeed(oc) and [e[2][0] for e in oc['events'] if e[0] == 'call'] != ['sdm', 'token']]
    if bad:
        r.violation(f['qname'], 'init order', 'a successful path does not set the PIN in the SecureDataManager and then persist it (events %s)' % ([e[1:3] for e in bad[0]['events']],), file=f['file'], line=bad[0]['line'], path=bad[0]['path'])
    else:
        r.ok(f['qname'], 'init order', '%d paths' % len(o.outcomes), file=f['file'], line=f['line'])


CHECKS = [('PBEDeriveKey', r'PBEDeriveKey@\d+\(.*\)', 0), ('decryptInit', r'decryptInit@\d+\(.*\)', 0), ('decryptUpdate', r'decryptUpdate@\d+\(.*\)', 0),
          ('decryptFinal', r'decryptFinal@\d+\(.*\)', 0), ('magic comparison', r'operator!=\(substr\(\w+,0,3\),magic\)', 1)]


def r3_accept(ctx, prog):
    r = ctx.rule('C04.R3', 'a PIN is accepted only after every decryption step and the magic comparison succeeded', floor=10, engine='E1+E3 finite-domain')
    for fname in ('SecureDataManager::login', 'SecureDataManager::reAuthenticate'):
        f = prog.fn(fname)
        ctx.analysed(f)
        for name, rx, failval in CHECKS:
            cenv = {}
            for n2, rx2, fv2 in CHECKS:
                cenv[re.compile(rx2)] = failval if n2 == name else 1 - fv2
            o = outcomes(f, prog, cenv, record={'remask', 'PBEDeriveKey', 'decryptInit', 'decryptUpdate', 'decryptFinal', 'operator!='})
            r.paths += len(o.outcomes)
            site = '%s with failing %s' % (fname.split('::')[1], name)
            bad = [oc for oc in o.outcomes if oc['retv'] != 0 or ev_calls(oc, 'remask')]
            if bad:
                r.violation(fname, site, 'the PIN is accepted (returns %s%s) although the %s fails / is not consulted' % (bad[0]['ret'], ', installs the key' if ev_calls(bad[0], 'remask') else '', name),
                            file=f['file'], line=bad[0]['line'], path=bad[0]['path'])
            else:
                r.ok(fname, site, '%d paths' % len(o.outcomes), file=f['file'], line=f['line'])
    # the public wrappers compare against their own blob
    for fname, blob in (('SecureDataManager::loginSO', 'soEncryptedKey'), ('SecureDataManager::loginUser', 'userEncryptedKey'),
                        ('SecureDataManager::reAuthenticateSO', 'soEncryptedKey'), ('SecureDataManager::reAuthenticateUser', 'userEncryptedKey')):
        f = prog.fn(fname)
        cs = [c for c in calls(f['body']) if short(c.get('callee')) in ('login', 'reAuthenticate')]
        if len(cs) != 1 or canon(cs[0]['args'][1]) != blob:
            r.violation(fname, 'blob', '%s does not check the PIN against %s' % (fname, blob), file=f['file'], line=f['line'])
        else:
            r.ok(fname, 'blob', blob, file=f['file'], line=f['line'])


def r4_masterkey(ctx, prog):
    r = ctx.rule('C04.R4', 'changing a PIN re-wraps the same master key and touches only its own blob', floor=5, engine='E1+E3+E5')
    for fname, blob, other in (('SecureDataManager::setUserPIN', 'userEncryptedKey', 'soEncryptedKey'), ('SecureDataManager::setSOPIN', 'soEncryptedKey', 'userEncryptedKey')):
        f = prog.fn(fname)
        ctx.analysed(f)
        cenv = {re.compile(r'size\(%s\)' % 'soEncryptedKey'): 40, 'soLoggedIn': 1, 'userLoggedIn': 0, re.compile(r'size\(\w+PIN\)'): 6}
        o = outcomes(f, prog, cenv, record={'remask', 'generateRandom', 'pbeEncryptKey', 'unmask', 'logout'})
        r.paths += len(o.outcomes)
        site = '%s with an existing master key' % fname.split('::')[1]
        bad = None
        for oc in o.outcomes:
            if ev_calls(oc, 'remask') or ev_calls(oc, 'generateRandom') or ev_calls(oc, 'logout'):
                bad = ('the master key is regenerated / replaced while a wrapped key exists: existing private objects become unreadable', oc)
            for e in ev_calls(oc, 'pbeEncryptKey'):
                if e[2][-1] != blob:
                    bad = ('the key is re-wrapped into %s instead of %s' % (e[2][-1], blob), oc)
            if oc['retv'] == 1 and not ev_calls(oc, 'pbeEncryptKey'):
                bad = ('success without re-wrapping', oc)
        if bad:
            r.violation(fname, site, bad[0], file=f['file'], line=bad[1]['line'], path=bad[1]['path'])
        else:
            r.ok(fname, site, '%d paths' % len(o.outcomes), file=f['file'], line=f['line'])
    # setSOPIN without any key yet: allowed to generate one, but only then
    f = prog.fn('SecureDataManager::setSOPIN')
    o = outcomes(f, prog, {re.compile(r'size\(soEncryptedKey\)'): 0, re.compile(r'size\(\w+PIN\)'): 6}, record={'remask', 'generateRandom', 'pbeEncryptKey'})
    bad = [oc for oc in o.outcomes if oc['retv'] == 1 and not ev_calls(oc, 'remask')]
    if bad:
        r.violation(f['qname'], 'first SO PIN', 'the first SO PIN is set without installing a master key', file=f['file'], line=bad[0]['line'], path=bad[0]['path'])
    else:
        r.ok(f['qname'], 'first SO PIN', '%d paths' % len(o.outcomes), file=f['file'], line=f['line'])
    # pbeEncryptKey: re-masks exactly what it unmasked, random bytes go to salt/IV only
    f = prog.fn('SecureDataManager::pbeEncryptKey')
    ctx.analysed(f)
    o = outcomes(f, prog, {}, record={'remask', 'unmask', 'generateRandom', 'wipe'})
    r.paths += len(o.outcomes)
    bad = None
    for oc in o.outcomes:
        um = [e[2][1] for e in ev_calls(oc, 'unmask')]
        rm = [e[2][1] for e in ev_calls(oc, 'remask')]
        if um != rm:
            bad = ('unmask(%s) is not paired with remask of the same buffer (%s)' % (um, rm), oc)
        for e in ev_calls(oc, 'generateRandom'):
            if e[2][1] in um:
                bad = ('random bytes are written into the unmasked key buffer', oc)
    if bad:
        r.violation(f['qname'], 'unmask/remask pairing', bad[0], file=f['file'], line=bad[1]['line'], path=bad[1]['path'])
    else:
        r.ok(f['qname'], 'unmask/remask pairing', '%d paths' % len(o.outcomes), file=f['file'], line=f['line'])
    # who may write maskedKey
    allowed = {'SecureDataManager::remask', 'SecureDataManager::logout', 'SecureDataManager::initObject', 'SecureDataManager::SecureDataManager', 'SecureDataManager::~SecureDataManager', 'SecureDataManager::unmask'}
    for g in prog.functions.values():
        for n in walk(g['body']):
            tgt = None
            if n.get('k') == 'Assign' and n['a'].get('k') == 'Member' and n['a'].get('fq') == 'SecureDataManager::maskedKey':
                tgt = n
            if n.get('k') == 'Call' and n.get('recv') is not None and n['recv'].get('k') == 'Member' and n['recv'].get('fq') == 'SecureDataManager::maskedKey' and not n.get('const') and not is_pure_name(short(n.get('callee'))):
                tgt = n
            if tgt is not None:
                site = 'write of maskedKey in %s' % g['qname'].split('::')[-1]
                if g['qname'] in allowed:
                    r.ok(g['qname'], site, 'owner', file=g['file'], line=tgt['l'])
                else:
                    r.violation(g['qname'], site, 'the masked master key is written outside remask/logout', file=g['file'], line=tgt['l'])


def r6_pin_bytes(ctx, prog):
    """The PIN the token layer authenticates / installs is the caller's buffer, all of it: every ByteString built from a PIN pointer parameter takes exactly the length parameter that
    accompanies it (a clamped, rounded or swapped length makes different PINs equivalent)."""
    r = ctx.rule('C04.R6', 'the PIN handed on is the caller\'s buffer in full', floor=5, engine='E2 value following')
    for fname in ('SoftHSM::C_Login', 'SoftHSM::C_InitPIN', 'SoftHSM::C_SetPIN', 'SoftHSM::C_InitToken'):
        f = prog.fn(fname)
        ctx.analysed(f)
        pairs = {}
        ps = f['params']
        for i, pp in enumerate(ps[:-1]):
            if 'CK_UTF8CHAR_PTR' in (pp.get('type') or '') and 'CK_ULONG' in (ps[i + 1].get('type') or ''):
                pairs[pp['var']['name']] = ps[i + 1]['var']['name']
        o = Outcomes(f, prog, cenv={'isInitialised': 1}, record_calls={'ctor ByteString'})
        o.CAP = 64
        o.go()
        r.paths += len(o.outcomes)
        evs = sorted({e for oc in o.outcomes for e in oc['events'] if e[0] == 'call' and len(e[2]) == 2}, key=lambda e: e[3])
        for ptr, ln in sorted(pairs.items()):
            site = 'ByteString(%s, %s)' % (ptr, ln)
            mine = [e for e in evs if ptr in re.findall(r'\w+', e[2][0])]
            bad = [e for e in mine if e[2][1] != ln or e[2][0] != ptr]
            if not mine:
                r.undecided(fname, site, 'no byte string is built from this PIN parameter', file=f['file'], line=f['line'])
            elif bad:
                r.violation(fname, site, 'the PIN is copied as ByteString(%s, %s) (line %s) instead of the caller\'s %s bytes at %s: PINs that differ outside that range are treated as equal' % (bad[0][2][0], bad[0][2][1], bad[0][3], ln, ptr),
                            file=f['file'], line=bad[0][3])
            else:
                r.ok(fname, site, 'line %s' % mine[0][3], file=f['file'], line=mine[0][3])


def r7_every_settable_pin_logs_in(ctx, prog):
    """"A PIN logs a user in iff it equals the PIN most recently set": every length C_InitToken / C_InitPIN / C_SetPIN accept (MIN_PIN_LEN .. MAX_PIN_LEN, both ends) must be able to
    log in.  The functions on the login path are evaluated with the PIN length fixed to the boundary values: a path that reports success must remain - a length test on the login side
    that is stricter than the one on the setting side locks out a PIN the token accepted."""
    r = ctx.rule('C04.R7', 'every PIN length the setters accept can log in (the login path rejects no length inside MIN_PIN_LEN..MAX_PIN_LEN)', floor=12, engine='E1 finite-domain evaluation at the boundary lengths')
    lo, hi = macro(prog, 'MIN_PIN_LEN'), macro(prog, 'MAX_PIN_LEN')
    targets = [('SecureDataManager::login', 0, 'true'), ('SecureDataManager::loginSO', 0, 'true'), ('SecureDataManager::loginUser', 0, 'true'),
               ('SecureDataManager::reAuthenticate', 0, 'true'), ('Token::loginSO', 0, 'CKR_OK'), ('Token::loginUser', 0, 'CKR_OK')]
    for q, pi, okv in targets:
        for f in prog.fns(q):
            if f['body'] is None:
                continue
            ctx.analysed(f)
            pn = param_name(f, pi)
            for ln in (lo, lo + 1, hi - 1, hi):
                o = Outcomes(f, prog, cenv={'size(%s)' % pn: ln})
                o.CAP = 256
                o.go()
                r.paths += len(o.outcomes)
                site = 'PIN of %d bytes' % ln
                good = [oc for oc in o.outcomes if str(oc.get('ret')) in (okv, '1', 'CKR_OK') or (oc.get('ret') not in ('false', '0') and not str(oc.get('ret')).startswith('CKR_') and okv == 'true')]
                if not o.outcomes:
                    r.undecided(f['qname'], site, 'no path', file=f['file'], line=f['line'])
                elif not good:
                    r.violation(f['qname'], site, 'with a PIN of %d bytes (inside the advertised range %d..%d, accepted by C_InitToken / C_InitPIN / C_SetPIN) every path fails: the PIN that was set can never log in again' % (ln, lo, hi),
                                file=f['file'], line=o.outcomes[0]['line'], path=o.outcomes[0]['path'])
                else:
                    r.ok(f['qname'], site, '%d of %d paths can succeed' % (len(good), len(o.outcomes)), file=f['file'], line=f['line'])
    # C_Login: the length the API hands on
    f = prog.fn('SoftHSM::C_Login')
    ctx.analysed(f)
    pl = param_name(f, 3)
    for ln in (lo, hi):
        o = Outcomes(f, prog, cenv={pl: ln, 'isInitialised': 1, param_name(f, 2): 1})
        o.CAP = 256
        o.go()
        r.paths += len(o.outcomes)
        site = 'PIN of %d bytes' % ln
        good = [oc for oc in o.outcomes if may_succeed(oc)]
        if not good:
            r.violation(f['qname'], site, 'C_Login cannot answer CKR_OK for a PIN of %d bytes, a length inside the advertised range' % ln, file=f['file'], line=f['line'])
        else:
            r.ok(f['qname'], site, '%d of %d paths can succeed' % (len(good), len(o.outcomes)), file=f['file'], line=f['line'])


def r9_manager_owns_its_state(ctx, prog):
    """Several SecureDataManager objects live at the same time: one per token, and temporary ones that Token::setSOPIN / setUserPIN build to verify the old PIN.  "Changing a PIN never
    affects the other user's PIN and never makes existing private objects unreadable" needs each of them to own its key material: the buffers a manager's members point to are
    allocated by that instance (no function-local static, no global) and released by its destructor."""
    r = ctx.rule('C04.R9', 'every SecureDataManager owns the buffers its members point to (allocated per instance, freed by its destructor; no static or shared storage)', floor=2, engine='E5 ownership')
    cls = 'SecureDataManager'
    ms = [f for f in prog.methods_of(cls) if f.get('body') is not None]
    ptr_fields = {x['name'] for x in (prog.classes.get(cls, {}).get('fields') or []) if x['type'].rstrip().endswith('*')}
    n = 0
    for f in sorted(ms, key=lambda f: f['line']):
        for x in walk(f['body']):
            if x.get('k') == 'Decl':
                for d in x['decls']:
                    if d.get('static') and not d.get('type', '').startswith('const '):
                        ctx.analysed(f)
                        r.violation(f['qname'], 'static local %s' % d['var']['name'], 'a function-local static (%s %s) is shared by every SecureDataManager of the process: the manager of another token, or the temporary one that verifies an old PIN, overwrites what the live manager relies on (its key mask): private objects become unreadable' % (d.get('type'), d['var']['name']),
                                    file=f['file'], line=x['l'])
            if x.get('k') == 'Assign' and ((x['a'].get('k') == 'Member' and x['a'].get('base', {}).get('k') == 'This' and x['a']['field'] in ptr_fields) or (x['a'].get('k') == 'Var' and x['a'].get('kind') == 'field' and x['a']['name'] in ptr_fields)):
                fld = x['a'].get('field') or x['a'].get('name')
                b = x['b']
                while b.get('k') in ('Cast', 'Paren') and b.get('e') is not None:
                    b = b['e']
                site = 'member %s assigned@%d' % (fld, x['l'])
                n += 1
                ctx.analysed(f)
                if b.get('k') == 'New' or canon(b) in ('NULL', 'NULL_PTR', '0', 'nullptr') or (b.get('k') == 'Call' and '::' in (b.get('callee') or '') and short(b['callee']).startswith('get')):
                    r.ok(f['qname'], site, canon(b)[:50], file=f['file'], line=x['l'])
                else:
                    r.violation(f['qname'], site, 'the member %s is made to point at %s, storage this instance did not allocate: managers that exist side by side (other tokens, the temporary one of a PIN change) then share and overwrite it' % (fld, canon(b)[:50]),
                                file=f['file'], line=x['l'])
    # what initObject allocates the destructor releases (an instance-owned buffer that is never freed is the usual first half of "share it instead")
    d = [f for f in ms if f.get('mkind') == 'dtor' or short(f['qname']).startswith('~')]
    freed = {canon(x['e']) for f in d for x in walk(f['body']) if x.get('k') == 'Delete'} | {canon(a) for f in d for c in calls(f['body']) for a in c.get('args', []) if a is not None and short(c.get('callee') or '').startswith('recycle')}
    for f in ms:
        for x in walk(f['body']):
            if x.get('k') == 'Assign' and x['b'].get('k') == 'New' and (x['a'].get('field') or x['a'].get('name')) in ptr_fields:
                fld = x['a'].get('field') or x['a'].get('name')
                site = 'member %s released by the destructor' % fld
                if fld in freed:
                    r.ok(cls + '::~' + cls, site, 'delete %s' % fld, file=f['file'], line=x['l'])
                else:
                    r.violation(cls + '::~' + cls, site, 'the buffer allocated for %s at line %s is not released by the destructor: either it leaks key material or it is meant to outlive the instance (shared)' % (fld, x['l']), file=f['file'], line=x['l'])
    if n == 0:
        r.undecided(cls, 'pointer members', 'no assignment to a pointer member found', file='', line=0)


def run(ctx):
    prog = ctx.prog('ossl-file')
    r1_roles(ctx, prog)
    r2_oldpin(ctx, prog)
    r3_accept(ctx, prog)
    r4_masterkey(ctx, prog)
    from rules import c14
    c14.r2_createtoken(ctx, prog, rule_id='C04.R5')
    r6_pin_bytes(ctx, prog)
    r7_every_settable_pin_logs_in(ctx, prog)
    from rules import c07
    c07.r6_reauthenticate(ctx, prog, rule_id='C04.R8')
    r9_manager_owns_its_state(ctx, prog)


MUTANTS = [
    dict(name='setpin-old-pin-with-new-length', rule='C04.R6', file='src/lib/SoftHSM.cpp', after='CK_RV SoftHSM::C_SetPIN(',
         old='ByteString oldPIN(pOldPin, ulOldLen);', new='ByteString oldPIN(pOldPin, ulNewLen);'),
    dict(name='setuserpin-persists-old-managers-blob', rule='C04.R2', file='src/lib/slot_mgr/Token.cpp', after='CK_RV Token::setUserPIN(ByteString& oldPIN, ByteString& newPIN)',
         old='\tif (token->setUserPIN(newSdm->getUserPINBlob()) == false)', new='\tif (token->setUserPIN(sdm->getUserPINBlob()) == false)'),
    dict(name='initpin-no-state-test', rule='C04.R1', file='src/lib/SoftHSM.cpp', after='CK_RV SoftHSM::C_InitPIN(',
         old='\tif (session->getState() != CKS_RW_SO_FUNCTIONS) return CKR_USER_NOT_LOGGED_IN;\n', new=''),
    dict(name='setpin-off-by-one-max', rule='C04.R1', file='src/lib/SoftHSM.cpp', after='CK_RV SoftHSM::C_SetPIN(',
         old='if (ulNewLen < MIN_PIN_LEN || ulNewLen > MAX_PIN_LEN) return CKR_PIN_LEN_RANGE;', new='if (ulNewLen < MIN_PIN_LEN || ulNewLen > MAX_PIN_LEN + 1) return CKR_PIN_LEN_RANGE;'),
    dict(name='setpin-so-session-changes-user-pin', rule='C04.R1', file='src/lib/SoftHSM.cpp', after='CK_RV SoftHSM::C_SetPIN(',
         old='\t\tcase CKS_RW_SO_FUNCTIONS:\n\t\t\trv = token->setSOPIN(oldPIN, newPIN);', new='\t\tcase CKS_RW_SO_FUNCTIONS:\n\t\t\trv = token->setUserPIN(oldPIN, newPIN);'),
    dict(name='setsopin-verifies-on-live-sdm', rule='C04.R2', file='src/lib/slot_mgr/Token.cpp', after='CK_RV Token::setSOPIN(',
         old='bool result = verifier->loginSO(oldPIN);', new='bool result = sdm->loginSO(oldPIN);'),
    dict(name='setuserpin-ignores-failed-check', rule='C04.R2', file='src/lib/slot_mgr/Token.cpp', after='CK_RV Token::setUserPIN(',
         old='\t\tdelete newSdm;\n\t\treturn CKR_PIN_INCORRECT;', new='\t\tif (!stayLoggedIn) { delete newSdm; return CKR_PIN_INCORRECT; }'),
    dict(name='login-skips-magic', rule='C04.R3', file='src/lib/data_mgr/SecureDataManager.cpp', after='bool SecureDataManager::login(',
         old='if (decryptedKeyData.substr(0, 3) != magic)', new='if (decryptedKeyData.size() < 3)'),
    dict(name='setuserpin-regenerates-key', rule='C04.R4', file='src/lib/data_mgr/SecureDataManager.cpp', after='bool SecureDataManager::setUserPIN(',
         old='\treturn pbeEncryptKey(userPIN, userEncryptedKey);', new='\tif (userEncryptedKey.size() == 0) { ByteString key; rng->generateRandom(key, 32); remask(key); }\n\treturn pbeEncryptKey(userPIN, userEncryptedKey);'),
]
