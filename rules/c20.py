"""C20 — back-end independence (DESIGN.md §3 C20; narrow: sibling agreement of the two crypto back ends and the two object stores)."""
import re
import os
from engine.rulelib import *
from engine import tables
from rules import c10

EXPLANATION = (
    "Byte-identical outputs and cross-verification between configurations are runtime statements and are NOT decided (not claimed). All four configurations are parsed from real cmake configures (OpenSSL/Botan x file/SQLite) although the test suite "
    "builds one, and sibling implementations of one interface are compared. R1 (crypto families): for every algorithm class pair (OSSLX, BotanX) and operation family (sign*, verify*, encrypt, decrypt, wrap, unwrap, cipher selection) the set of mechanism / "
    "mode / wrap enumerators accepted anywhere in the family (case labels and equality tests that do not lead straight to rejection) is equal. R2 (factories): the four CryptoFactory getters return an algorithm for the same enumerators in both back ends. "
    "R3 (store kinds): DBObject::attributeKind has a case, with the kind the PKCS#11 layer stores, for every attribute type a P11Attr* class registers and every CKA_OS_* token attribute (the SQLite store reads an attribute from the table its kind selects; a "
    "missing case makes a stored attribute unreadable after a restart, the file store has no such table). R4 (integer column): an attribute value (OSAttribute::getUnsignedLongValue) is formatted into SQL only as %lld of a value cast to long long, the "
    "two's-complement form SQLite's signed INTEGER column round-trips and the reader (getULongLong) undoes. R5 (shared secret length): the fixed-length / right-alignment idiom of DH and ECDH derivation holds in both back ends alike (rule body shared with C10.R3). "
    "R6 (token flags): OSToken and DBToken set and clear the same CKF_* bits in createToken, setSOPIN, setUserPIN and resetToken.")
ASSUMPTIONS = ['both crypto configurations are parsed with the same feature switches (ECC, EDDSA on, GOST off)', 'an enumerator counts as accepted when its case / equality branch does not start with `return false`',
               'attribute kinds are taken from the OSAttribute constructor each P11Attr*::setDefault uses']
TECHNIQUE = 'custom static analysis over the clang AST of four build configurations: sibling agreement (accepted enumerator sets, factory tables, token flag sets), table agreement between DBObject::attributeKind and the P11 attribute classes, format/argument rule for SQL text'
LEVEL_TEXT = ('Every method of the sibling families in both back ends and the complete attribute tables are compared. Necessary conditions only: equal accepted sets and tables do not make outputs byte-identical; a difference does make behaviour depend on the back end.')
LEVEL_NOTE = 'trusted: clang front end, normaliser, cmake configure of the Botan and SQLite variants (headers installed, nothing is compiled), the acceptance criterion named under assumptions'

FAMS = {'sign': ('sign', 'signInit', 'signUpdate', 'signFinal'), 'verify': ('verify', 'verifyInit', 'verifyUpdate', 'verifyFinal'), 'encrypt': ('encrypt',), 'decrypt': ('decrypt',),
        'wrap': ('wrapKey', 'getWrapCipher'), 'unwrap': ('unwrapKey', 'getWrapCipher'), 'cipher': ('getCipher',)}


def members(prog, en):
    for k, e in prog.enums.items():
        if e['qname'] == en:
            return {m['name'] for m in e['enumerators']} - {'Unknown'}
    raise AnalysisBroken('enum %s not found' % en)


def rejecting(stmts):
    for s in stmts:
        if s.get('k') == 'Expr' and s['e'].get('k') == 'Call' and short(s['e'].get('callee')) == 'softHSMLog':
            continue
        if s.get('k') == 'Block':
            return rejecting(s['body'])
        return s.get('k') == 'Return' and canon(s.get('e')) in ('false', '0', 'NULL')
    return False


def enums_in(e, mem):
    return {x['name'] for x in walk(e) if x.get('k') == 'Var' and x.get('kind') == 'enum' and x['name'] in mem}


def accepted(prog, cls, meths, mem):
    acc = set()
    nfn = 0
    for m in meths:
        for f in prog.fns('%s::%s' % (cls, m)):
            nfn += 1
            for n in walk(f['body']):
                if n.get('k') == 'Switch':
                    for labels, body in tables.switch_cases(n):
                        labs = {l for l in labels if l in mem}
                        if labs and not rejecting(body):
                            acc |= labs
                elif n.get('k') == 'If':
                    c = n['c']
                    for x in walk(c):
                        if x.get('k') == 'Bin' and x.get('op') in ('==', '!='):
                            es = enums_in(x, mem)
                            if not es:
                                continue
                            if x['op'] == '!=' or not (c is x and rejecting([n['t']])):
                                acc |= es
    return acc, nfn


def r1_families(ctx, po, pb):
    r = ctx.rule('C20.R1', 'the OpenSSL and the Botan implementation of an algorithm accept the same mechanisms / modes in every operation family', floor=20, engine='E7')
    am = members(po, 'AsymMech::Type')
    if am != members(pb, 'AsymMech::Type'):
        raise AnalysisBroken('AsymMech::Type differs between the configurations')
    pairs = []
    for base in ('RSA', 'DSA', 'ECDSA', 'EDDSA', 'DH', 'ECDH'):
        for fam in ('sign', 'verify', 'encrypt', 'decrypt'):
            pairs.append((base, fam, am))
    sw, sm = members(po, 'SymWrap::Type'), members(po, 'SymMode::Type')
    for cls in ('AES', 'DES'):
        pairs += [(cls, 'wrap', sw), (cls, 'unwrap', sw), (cls, 'cipher', sm)]
    total = 0
    for base, fam, mem in pairs:
        a, na = accepted(po, 'OSSL' + base, FAMS[fam], mem)
        b, nb = accepted(pb, 'Botan' + base, FAMS[fam], mem)
        for m in FAMS[fam]:
            for f in po.fns('OSSL%s::%s' % (base, m)) + pb.fns('Botan%s::%s' % (base, m)):
                ctx.analysed(f)
        site = '%s %s' % (base, fam)
        total += len(a)
        anchor = (po.fns('OSSL%s::%s' % (base, FAMS[fam][0])) or pb.fns('Botan%s::%s' % (base, FAMS[fam][0])) or [None])[0]
        kw = dict(file=anchor['file'], line=anchor['line']) if anchor else {}
        if na == 0 and nb == 0:
            r.ok('OSSL%s/Botan%s' % (base, base), site, 'family not implemented in either back end (base-class default)', **kw)
        elif a == b:
            r.ok('OSSL%s/Botan%s' % (base, base), site, '%d enumerators accepted by both' % len(a), **kw)
        else:
            r.violation('OSSL%s/Botan%s' % (base, base), site, 'accepted only by OpenSSL: %s; only by Botan: %s — the same call succeeds under one crypto back end and fails under the other' % (sorted(a - b) or '-', sorted(b - a) or '-'), **kw)
    if total < 50:
        raise AnalysisBroken('only %d accepted enumerators found in all families (expected > 50): the acceptance idioms are no longer recognised' % total)


def r2_factories(ctx, po, pb):
    r = ctx.rule('C20.R2', 'both crypto factories hand out an implementation for the same algorithm enumerators', floor=4, engine='E7')
    for getter, en in (('getSymmetricAlgorithm', 'SymAlgo::Type'), ('getAsymmetricAlgorithm', 'AsymAlgo::Type'), ('getHashAlgorithm', 'HashAlgo::Type'), ('getMacAlgorithm', 'MacAlgo::Type')):
        mem = members(po, en)
        res = []
        for prog, cls in ((po, 'OSSLCryptoFactory'), (pb, 'BotanCryptoFactory')):
            f = prog.fn('%s::%s' % (cls, getter))
            ctx.analysed(f)
            acc = set()
            for n in walk(f['body']):
                if n.get('k') == 'Switch':
                    for labels, body in tables.switch_cases(n):
                        labs = {l for l in labels if l in mem}
                        if labs and any(x.get('k') == 'New' for s in body for x in walk(s)):
                            acc |= labs
            res.append((acc, f))
        (a, fa), (b, fb) = res
        if not a:
            r.undecided(fa['qname'], getter, 'no `case X: return new ...` found', file=fa['file'], line=fa['line'])
        elif a == b:
            r.ok(fa['qname'], getter, '%d algorithms in both factories' % len(a), file=fa['file'], line=fa['line'])
        else:
            r.violation(fa['qname'], getter, 'only OpenSSL: %s; only Botan: %s' % (sorted(a - b) or '-', sorted(b - a) or '-'), file=fa['file'], line=fa['line'])


KIND_OF_SIG = [(r'\bbool\b', 'akBoolean'), (r'unsigned long', 'akInteger'), (r'ByteString', 'akBinary'), (r'std::set<', 'akMechSet'), (r'std::map<', 'akAttrMap')]


def kind_of_sig(sig):
    for rx, k in KIND_OF_SIG:
        if re.search(rx, sig or ''):
            return k
    return None


def r3_store_kinds(ctx, pdb):
    r = ctx.rule('C20.R3', 'DBObject::attributeKind knows every attribute type the PKCS#11 layer stores, with the kind it is stored as', floor=70, engine='E1')
    fs = [g for g in pdb.functions.values() if g['qname'] == 'attributeKind']
    if len(fs) != 1:
        raise AnalysisBroken('attributeKind: %d definitions' % len(fs))
    f = fs[0]
    ctx.analysed(f)
    sw = [n for n in walk(f['body']) if n.get('k') == 'Switch']
    if len(sw) != 1:
        raise AnalysisBroken('attributeKind is not a single switch')
    mv = macros(pdb)
    table = {}
    for labels, body in tables.switch_cases(sw[0]):
        ret = [canon(s['e']) for s in body if s.get('k') == 'Return']
        for l in labels:
            if l is None or l == 'default':
                continue
            v = mv.get(l)
            if v is None:
                raise AnalysisBroken('case label %s of attributeKind has no known value' % l)
            table[v] = (l, ret[0] if ret else None)
    if len(table) < 70:
        raise AnalysisBroken('attributeKind: only %d case labels read' % len(table))
    # what the P11 layer stores
    want = {}
    for cls, a in sorted(tables.attr_classes(pdb).items()):
        kinds = set()
        for m in pdb.methods_of(cls):
            for x in walk(m['body']):
                if x.get('k') == 'Ctor' and x.get('type', '').endswith('OSAttribute') and kind_of_sig(x.get('sig')):
                    kinds.add(kind_of_sig(x['sig']))
        want.setdefault(a.type_value, (a.type_name, set(), a))[1].update(kinds)
    # token attributes (CKA_OS_*) written by DBToken / OSToken
    for g in pdb.functions.values():
        if g.get('class') not in ('DBToken',):
            continue
        local_kind = {}
        for n in walk(g['body']):
            if n.get('k') == 'Decl':
                for d in n['decls']:
                    i = d.get('init')
                    if i is not None and i.get('k') == 'Ctor' and i.get('type', '').endswith('OSAttribute') and kind_of_sig(i.get('sig')):
                        local_kind[d['var']['name']] = kind_of_sig(i['sig'])
        for c in calls(g['body'], short='setAttribute'):
            if len(c.get('args', [])) == 2 and c['args'][1].get('k') == 'Var' and c['args'][1]['name'] in local_kind:
                tn = lit_name(c['args'][0])
                tv = mv.get(tn)
                if tv is not None:
                    want.setdefault(tv, (tn, set(), None))[1].add(local_kind[c['args'][1]['name']])
    if len(want) < 60:
        raise AnalysisBroken('only %d stored attribute types found in the PKCS#11 layer' % len(want))
    for tv, (tn, kinds, a) in sorted(want.items()):
        site = 'attribute %s' % tn
        ent = table.get(tv)
        kw = dict(file=f['file'], line=f['line'])
        if ent is None:
            r.violation('attributeKind', site, '%s (0x%x, stored as %s by %s) has no case: under objectstore.backend=db the attribute is written but reads back as non-existent after a restart, under the file store it persists' % (
                tn, tv, '/'.join(sorted(kinds)) or '?', a.name if a else 'DBToken'), **kw)
        elif kinds and ent[1] not in kinds:
            r.violation('attributeKind', site, '%s is stored as %s by the PKCS#11 layer but attributeKind says %s: the value is looked up in the wrong table' % (tn, '/'.join(sorted(kinds)), ent[1]), **kw)
        else:
            r.ok('attributeKind', site, ent[1], **kw)


def lit_name(e):
    return tables.lit_name(e)


SPEC_RX = re.compile(r'%(?:\d+\$)?[-+ #0]*\d*(?:\.\d+)?(hh|h|ll|l|z|j|t)?([diouxXscp%])')


def r4_sql_values(ctx, pdb):
    r = ctx.rule('C20.R4', 'an unsigned long attribute value enters SQL text only as %lld of a long long (two\'s complement), the form SQLite\'s signed INTEGER column round-trips', floor=2, engine='E2')
    n_prep = 0
    for g in sorted(pdb.functions.values(), key=lambda g: (g['file'], g['line'])):
        if g.get('class') not in ('DBObject', 'DBToken'):
            continue
        for c in calls(g['body'], short='prepare'):
            if not c.get('args'):
                continue
            strs = [x for x in walk(c['args'][0]) if x.get('k') == 'Str']
            if len(strs) != 1:
                continue
            n_prep += 1
            fmt = strs[0]['s']
            specs = [m for m in SPEC_RX.finditer(fmt) if m.group(2) != '%']
            va = c['args'][1:]
            ctx.analysed(g)
            if len(specs) != len(va):
                r.violation(g['qname'], 'prepare@%s' % fmt[:40], '%d conversion specifiers for %d arguments' % (len(specs), len(va)), file=g['file'], line=c['l'])
                continue
            for sp, a in zip(specs, va):
                if not any(short(x.get('callee')) == 'getUnsignedLongValue' for x in calls(a)):
                    continue
                col = 'value'
                site = '%s: attribute value in "%s"' % (g['qname'].split('::')[-1], re.sub(r'\s+', ' ', fmt)[:48])
                signed64 = sp.group(1) == 'll' and sp.group(2) in 'di'
                ct = a.get('cast') or (a.get('type', '') if a.get('k') == 'Cast' else '')
                cast = bool(re.search(r'\blong long\b', ct)) and 'unsigned' not in ct
                if signed64 and cast:
                    r.ok(g['qname'], site, '%%lld of static_cast<long long>', file=g['file'], line=c['l'])
                else:
                    r.violation(g['qname'], site, 'the value is formatted with %%%s%s%s: a value >= 2^63 (CK_UNAVAILABLE_INFORMATION, vendor bits) becomes an over-range literal that SQLite stores as REAL and returns clamped, '
                                'while the file store round-trips all 64 bits' % (sp.group(1) or '', sp.group(2), '' if cast else ' without the cast to long long'), file=g['file'], line=c['l'])
    if n_prep < 15:
        raise AnalysisBroken('only %d prepare() calls with a literal format found in DBObject/DBToken' % n_prep)
    # reader side: the integer column is fetched as a 64-bit integer
    acc = [g for g in pdb.fns('DBObject::accessAttribute')]
    if not acc:
        raise AnalysisBroken('DBObject::accessAttribute not found')
    got = [c for c in calls(acc[0]['body']) if short(c.get('callee')) in ('getULongLong', 'getLongLong')]
    if got:
        r.ok('DBObject::accessAttribute', 'integer column read', '64-bit getter %s' % short(got[0]['callee']), file=acc[0]['file'], line=got[0]['l'])
    else:
        r.violation('DBObject::accessAttribute', 'integer column read', 'the integer attribute table is no longer read with a 64-bit getter', file=acc[0]['file'], line=acc[0]['line'])


def flag_sets(f, mv):
    setb, clr = set(), set()
    for n in walk(f['body']):
        if n.get('k') == 'Un' and n.get('op') == '~':
            clr |= {x for x in re.findall(r'CKF_\w+', canon(n['e']))}
    for n in walk(f['body']):
        if n.get('k') in ('Assign', 'Decl'):
            txt = canon(n['b']) if n.get('k') == 'Assign' else ' '.join(canon(d['init']) for d in n['decls'] if d.get('init') is not None)
            # bits outside a ~(...) are set
            stripped = re.sub(r'~\(?[^)]*\)?', ' ', txt) if '~(' in txt else re.sub(r'~\s*CKF_\w+', ' ', txt)
            setb |= set(re.findall(r'CKF_\w+', stripped))
    return setb - clr, clr


def r6_token_flags(ctx, pdb):
    r = ctx.rule('C20.R6', 'the file token and the SQLite token set and clear the same token flag bits', floor=3, engine='E7')
    mv = macros(pdb)
    for m in ('createToken', 'setSOPIN', 'setUserPIN', 'resetToken'):
        fa, fb = pdb.fns('OSToken::' + m), pdb.fns('DBToken::' + m)
        if m == 'createToken':
            fb = fb + [g for g in pdb.methods_of('DBToken') if g.get('mkind') == 'ctor']
            fa = fa + [g for g in pdb.methods_of('OSToken') if g.get('mkind') == 'ctor']
        if not fa or not fb:
            raise AnalysisBroken('%s missing in one token class' % m)
        sa = [flag_sets(f, mv) for f in fa]
        sb = [flag_sets(f, mv) for f in fb]
        a = (set().union(*[s[0] for s in sa]), set().union(*[s[1] for s in sa]))
        b = (set().union(*[s[0] for s in sb]), set().union(*[s[1] for s in sb]))
        for f in fa + fb:
            ctx.analysed(f)
        if a == b:
            r.ok('OSToken/DBToken', m, 'sets %s, clears %s' % (sorted(a[0]) or '-', sorted(a[1]) or '-'), file=fa[0]['file'], line=fa[0]['line'])
        else:
            r.violation('OSToken/DBToken', m, 'file store sets %s clears %s; SQLite store sets %s clears %s' % (sorted(a[0]), sorted(a[1]), sorted(b[0]), sorted(b[1])), file=fb[0]['file'], line=fb[0]['line'])


def r9_attribute_iteration(ctx, pdb):
    """C_CopyObject walks the source with OSObject::nextAttributeType(); every store must implement the walk: the answer has to depend on the argument and on what is stored."""
    r = ctx.rule('C20.R9', 'every OSObject implementation implements the attribute iteration C_CopyObject relies on (no constant stub); cached NULL entries are never the answer', floor=5, engine='E7 + E2')
    for cls in sorted(c for c in pdb.subclasses('OSObject') if pdb.fns(c + '::nextAttributeType')):
        f = pdb.fn(cls + '::nextAttributeType')
        ctx.analysed(f)
        pv = f['params'][0].get('var')
        uses_arg = pv is not None and any(x.get('k') == 'Var' and x['name'] == pv['name'] for x in walk(f['body']))
        rets = [n.get('e') for n in walk(f['body']) if n.get('k') == 'Return' and n.get('e') is not None]
        nonconst = [e for e in rets if e.get('k') not in ('Lit', 'Null') and not (e.get('k') == 'Var' and e.get('kind') == 'enum')]
        site = '%s::nextAttributeType' % cls
        if not uses_arg or not nonconst:
            r.violation(cls, site, 'the function %s: C_CopyObject copies only the first attribute of a %s, the copy comes back with CKR_OK and without the attributes of its source, while the other stores copy them all'
                        % ('ignores its argument' if not uses_arg else 'returns constants only', cls), file=f['file'], line=f['line'])
        else:
            r.ok(cls, site, 'answer computed from the argument and the stored attributes', file=f['file'], line=f['line'])
        # in-memory attribute caches keep NULL entries for attributes that were probed and do not exist: the walk must never answer with such an entry (C_CopyObject would ask for
        # an attribute the object does not have and fail)
        def rtrig(s_, st):
            c = canon(s_['e'], st.env) if s_.get('e') is not None else ''
            m = re.fullmatch(r'operator->\((.*)\)\.first', c)
            return ('entry', m.group(1)) if m else None
        sf = SiteFacts(f, pdb, return_trigger=rtrig, track_facts=r'second|operator==')
        sf.LOOP_ROUNDS = 2
        sf.go()
        r.paths += sf.paths_returned
        for (_, x), hits in sorted(sf.sites.items()):
            site2 = '%s::nextAttributeType answers only with entries that hold an attribute' % cls
            bad = [h for h in hits if ('operator->(%s).second' % x, True) not in h['facts']]
            if bad:
                r.violation(cls, site2, 'the key of a cache entry is returned (line %s) on a path where nothing says the entry holds an attribute (absent attributes are cached as NULL entries; only one of them, or none, is skipped): C_CopyObject then asks for an attribute the object does not have and fails'
                            % bad[0]['line'], file=f['file'], line=bad[0]['line'], path=bad[0]['path'])
            else:
                r.ok(cls, site2, '%d returning states, each after the entry was seen non-NULL' % len(hits), file=f['file'], line=hits[0]['line'])


def r10_round_up(ctx, configs, rule_id='C20.R10'):
    """A buffer that has to hold a value of n bits needs ceil(n/8) bytes.  Wherever a back end sizes a buffer (resize / wipe) from a bit count divided by 8, the division has to round up:
    with n/8 a 521-bit field element loses its top byte under OpenSSL while Botan returns all 66 bytes."""
    r = ctx.rule(rule_id, 'byte sizes computed from a bit count round up when they size a buffer', floor=1, engine='E2 value following')
    for cname, prog in configs:
        for f in sorted(prog.functions.values(), key=lambda g: (g['file'], g['line'])):
            inits = {}
            for n in walk(f['body']):
                if n.get('k') == 'Decl':
                    for d in n['decls']:
                        if d.get('init'):
                            inits.setdefault(d['var']['name'], []).append(d['init'])
                if n.get('k') == 'Assign' and n['a'].get('k') == 'Var':
                    inits.setdefault(n['a']['name'], []).append(n['b'])
            for c in calls(f['body']):
                if short(c.get('callee')) not in ('resize', 'wipe') or not c.get('args') or c['args'][0] is None:
                    continue
                a = c['args'][0]
                exprs = [a] + [i for x in walk(a) if x.get('k') == 'Var' for i in inits.get(x['name'], [])]
                for e in exprs:
                    for n in walk(e):
                        if n.get('k') == 'Bin' and n['op'] == '/' and n['b'].get('k') == 'Lit' and n['b']['v'] == 8 and any(x.get('k') == 'Call' for x in walk(n['a'])):
                            ctx.analysed(f)
                            up = any(x.get('k') == 'Bin' and x['op'] == '+' and any(y.get('k') == 'Lit' and y['v'] == 7 for y in (x['a'], x['b'])) for x in walk(n['a']))
                            site = '%s: %s@%d' % (cname, short(c['callee']), c['l'])
                            if up:
                                r.ok(f['qname'], site, canon(n), file=f['file'], line=c['l'])
                            else:
                                r.violation(f['qname'], site, 'the buffer is sized with %s, which rounds down: a value whose bit length is not a multiple of 8 (P-521: 521 bits) is cut by one byte, the result differs from the other back end' % canon(n),
                                            file=f['file'], line=c['l'])


OSSL_POS = {  # OpenSSL 1.1 accessor signatures (man RSA_get0_key, DSA_get0_pqg, DH_get0_pqg): component delivered / expected at each argument position after the object
    'RSA_get0_factors': ['p', 'q'], 'RSA_get0_crt_params': ['dmp1', 'dmq1', 'iqmp'], 'RSA_get0_key': ['n', 'e', 'd'],
    'RSA_set0_factors': ['p', 'q'], 'RSA_set0_crt_params': ['dmp1', 'dmq1', 'iqmp'], 'RSA_set0_key': ['n', 'e', 'd'],
    'DSA_get0_pqg': ['p', 'q', 'g'], 'DSA_get0_key': ['pub', 'priv'], 'DSA_set0_pqg': ['p', 'q', 'g'], 'DSA_set0_key': ['pub', 'priv'],
    'DH_get0_pqg': ['p', 'q', 'g'], 'DH_get0_key': ['pub', 'priv'], 'DH_set0_pqg': ['p', 'q', 'g'], 'DH_set0_key': ['pub', 'priv']}
COMP_SETTER = {'RSA': {'p': 'setP', 'q': 'setQ', 'dmp1': 'setDP1', 'dmq1': 'setDQ1', 'iqmp': 'setPQ', 'n': 'setN', 'e': 'setE', 'd': 'setD'},
               'DSA': {'p': 'setP', 'q': 'setQ', 'g': 'setG', 'pub': 'setY', 'priv': 'setX'},
               'DH': {'p': 'setP', 'g': 'setG', 'pub': 'setY', 'priv': 'setX'}}
BOTAN_ACC = {'get_p': 'setP', 'get_q': 'setQ', 'get_d1': 'setDP1', 'get_d2': 'setDQ1', 'get_c': 'setPQ', 'get_n': 'setN', 'get_e': 'setE', 'get_d': 'setD'}


def r11_component_order(ctx, po, pb):
    """The back-end key classes hand key components to / take them from the crypto library by POSITION (OpenSSL get0/set0 functions) or by accessor name (Botan).  Each component must
    reach the setter - and come from the field - of the same component: two swapped positions that cancel inside one back end still store, export and wrap the wrong CKA_EXPONENT_1/2."""
    r = ctx.rule('C20.R11', 'key components keep their meaning across the crypto library boundary (positional get0/set0 arguments, Botan accessors)', floor=30, engine='E2 value following against the library signatures')

    def setter_fields(prog):
        out = {}
        for g in prog.functions.values():
            if re.fullmatch(r'set[A-Z]\w*', short(g['qname'])) and g.get('class') and len(g['params']) == 1:
                for n in walk(g['body']):
                    tgt = n['a'] if n.get('k') == 'Assign' else (n.get('recv') if n.get('k') == 'Call' and short(n.get('callee')) == 'operator=' else None)
                    if tgt is not None and tgt.get('k') == 'Member' and tgt['base'].get('k') == 'This':
                        out.setdefault((g['class'], short(g['qname'])), tgt['field'])
                        break
        return out
    sf_ = setter_fields(po)
    for f in sorted(po.functions.values(), key=lambda g: (g['file'], g['line'])):
        cls = f.get('class') or ''
        if not cls.startswith('OSSL'):
            continue
        inits = {}
        for n in walk(f['body']):
            if n.get('k') == 'Decl':
                for d in n['decls']:
                    if d.get('init'):
                        inits[d['var']['name']] = d['init']
        def vars_of(e, depth=0):
            vs = {x['name'] for x in walk(e) if x.get('k') == 'Var'}
            if depth < 2:
                for v in list(vs):
                    if v in inits:
                        vs |= vars_of(inits[v], depth + 1)
            return vs
        def fields_of(e, depth=0):
            fs = {x['field'] for x in walk(e) if x.get('k') == 'Member' and x['base'].get('k') == 'This'} | {x['name'] for x in walk(e) if x.get('k') == 'Var' and x.get('kind') == 'field'}
            if depth < 2:
                for x in walk(e):
                    if x.get('k') == 'Var' and x['name'] in inits:
                        fs |= fields_of(inits[x['name']], depth + 1)
            return fs
        setters = [c for c in calls(f['body']) if re.fullmatch(r'set[A-Z]\w*', short(c.get('callee')) or '') and c.get('args') and c['args'][0] is not None and (c.get('recv') is None or c['recv'].get('k') == 'This')]
        for c in calls(f['body']):
            name = short(c.get('callee')) or ''
            if name not in OSSL_POS:
                continue
            ctx.analysed(f)
            fam = name.split('_')[0]
            for k, comp in enumerate(OSSL_POS[name]):
                if k + 1 >= len(c.get('args', [])) or c['args'][k + 1] is None or comp not in COMP_SETTER[fam]:
                    continue
                a = c['args'][k + 1]
                want = COMP_SETTER[fam][comp]
                site = '%s argument %d (%s)' % (name, k + 1, comp)
                if '_get0_' in name:
                    v = a['e']['name'] if a.get('k') == 'Un' and a.get('op') == '&' and a['e'].get('k') == 'Var' else None
                    if v is None:
                        continue        # NULL: component not requested
                    got = sorted({short(s_['callee']) for s_ in setters if v in vars_of(s_['args'][0])})
                    if not got:
                        continue
                    if got != [want]:
                        r.violation(f['qname'], site, 'OpenSSL delivers %s in this position; the variable %s it is stored in ends up in %s instead of %s()' % (comp, v, '/'.join(got), want), file=f['file'], line=c['l'])
                    else:
                        r.ok(f['qname'], site, '%s -> %s' % (v, want), file=f['file'], line=c['l'])
                else:
                    fs = fields_of(a)
                    base = [fl for (cl, st_), fl in sf_.items() if st_ == want and cl in po.superclasses(cls) | {cls}] if hasattr(po, 'superclasses') else [fl for (cl, st_), fl in sf_.items() if st_ == want and cl.startswith(fam)]
                    if not fs or not base:
                        continue
                    if not (fs & set(base)):
                        r.violation(f['qname'], site, 'OpenSSL expects %s in this position; it is given a value built from the field %s, while %s() stores that component in %s' % (comp, '/'.join(sorted(fs)), want, '/'.join(sorted(set(base)))), file=f['file'], line=c['l'])
                    else:
                        r.ok(f['qname'], site, '%s <- %s' % (comp, '/'.join(sorted(fs & set(base)))), file=f['file'], line=c['l'])
    for f in sorted(pb.functions.values(), key=lambda g: (g['file'], g['line'])):
        cls = f.get('class') or ''
        if not cls.startswith('BotanRSA'):
            continue
        inits = {d['var']['name']: d['init'] for n in walk(f['body']) if n.get('k') == 'Decl' for d in n['decls'] if d.get('init')}
        for c in calls(f['body']):
            sn = short(c.get('callee')) or ''
            if not re.fullmatch(r'set[A-Z]\w*', sn) or not c.get('args') or c['args'][0] is None or not (c.get('recv') is None or c['recv'].get('k') == 'This'):
                continue
            e = c['args'][0]
            es = [e] + [inits[x['name']] for x in walk(e) if x.get('k') == 'Var' and x['name'] in inits]
            acc = sorted({short(x['callee']) for ee in es for x in walk(ee) if x.get('k') == 'Call' and short(x.get('callee')) in BOTAN_ACC})
            if not acc:
                continue
            ctx.analysed(f)
            site = 'Botan accessor feeding %s' % sn
            if [BOTAN_ACC[a_] for a_ in acc] != [sn]:
                r.violation(f['qname'], site, '%s() is fed from Botan\'s %s(), which is the component of %s()' % (sn, acc[0], BOTAN_ACC[acc[0]]), file=f['file'], line=c['l'])
            else:
                r.ok(f['qname'], site, acc[0], file=f['file'], line=c['l'])


# ------------------------------------------------------------------------------------ R13-R15: the arms of the mechanism switches in the crypto back ends
DIGEST_LEN = {'MD5': 16, 'SHA1': 20, 'SHA224': 28, 'SHA256': 32, 'SHA384': 48, 'SHA512': 64}


def digest_tokens(name):
    """Digest families a resolved name speaks about: AsymMech::RSA_SHA384_PKCS_PSS, HashAlgo::SHA384, AsymRSAMGF::MGF1_SHA384, EVP_sha384, "EMSA4(SHA-384,MGF1,", NID_sha384."""
    n = name.upper().replace('-', '').replace('_', '')
    out = set()
    for t in ('SHA224', 'SHA256', 'SHA384', 'SHA512', 'MD5'):
        if t in n:
            out.add(t)
    if re.search(r'SHA1(?!\d)|SHA160', n):
        out.add('SHA1')
    return out


def crypto_switches(prog):
    for f in sorted(prog.functions.values(), key=lambda f: (f['file'], f['line'])):
        if '/crypto/' not in f['file'].replace('\\', '/') and not re.match(r'(OSSL|Botan)\w+::', f['qname']):
            continue
        if f['body'] is None:
            continue
        for n in walk(f['body']):
            if n.get('k') == 'Switch':
                yield f, n


def arm_names(stmts):
    """(names of enumerators / external callees / string literals, subtracted or assigned digest-length literals) in the statements of one arm"""
    names, lits = [], []
    for st in stmts:
        for x in walk(st):
            k = x.get('k')
            if k == 'Var' and x.get('kind') == 'enum':
                names.append(x.get('qname') or x['name'])
            elif k == 'Call' and x.get('callee') and '::' not in x['callee']:
                names.append(x['callee'])
            elif k == 'Str':
                names.append(x.get('s') or '')
            elif k == 'Bin' and x.get('op') == '-' and x.get('b') is not None and x['b'].get('k') == 'Lit' and x['b'].get('v') in DIGEST_LEN.values():
                lits.append(x['b']['v'])
            elif k == 'Assign' and x['a'].get('k') == 'Var' and re.search(r'(?i)len', x['a']['name']) and x['b'].get('k') == 'Lit' and x['b'].get('v') in DIGEST_LEN.values():
                lits.append(x['b']['v'])
    return names, lits


def r13_arm_digests(ctx, configs, rule_id='C20.R13'):
    """An arm of a mechanism switch that is labelled with a digest (AsymMech::DSA_SHA384, HashAlgo::SHA384 ...) names only that digest: the hash it selects, the MGF it demands, the
    EVP_sha* function or Botan EMSA string it uses, and the digest length it subtracts from the modulus length all belong to the digest of the label."""
    r = ctx.rule(rule_id, 'every arm of a mechanism switch uses the digest its label names (hash, MGF, library function / EMSA string, digest length)', floor=80, engine='E1 table extraction (resolved enumerators and callees) + E7')
    for cfg, prog in configs:
        for f, sw in crypto_switches(prog):
            any_arm = False
            for labels, stmts in tables.switch_cases(sw):
                lt = set()
                for l in labels:
                    lt |= digest_tokens(l)
                if len(lt) != 1:
                    continue
                names, lits = arm_names(stmts)
                bt = set()
                for nm in names:
                    bt |= digest_tokens(nm)
                if not bt and not lits:
                    continue
                any_arm = True
                want = next(iter(lt))
                site = 'arm %s [%s]' % ('/'.join(l.split('::')[-1] for l in labels), cfg)
                line = stmts[0].get('l') if stmts and stmts[0] else f['line']
                wrong = sorted(bt - lt)
                wronglen = sorted(v for v in lits if v != DIGEST_LEN[want])
                if wrong:
                    r.violation(f['qname'], site, 'the arm for %s uses %s: signatures / digests of this mechanism are computed with another hash than the mechanism names (they do not verify under an independent implementation or the other back end)' % (want, ', '.join(wrong)),
                                file=f['file'], line=line)
                elif wronglen:
                    r.violation(f['qname'], site, 'the arm for %s works with a digest length of %s bytes, %s has %d' % (want, wronglen, want, DIGEST_LEN[want]), file=f['file'], line=line)
                else:
                    r.ok(f['qname'], site, 'names only %s' % want, file=f['file'], line=line)
            if any_arm:
                ctx.analysed(f)
        # the per-digest classes (OSSLSHA384, OSSLHMACSHA384, BotanSHA384 ...): what they hand to the library is the digest of their name
        for f in sorted(prog.functions.values(), key=lambda f: (f['file'], f['line'])):
            ct = digest_tokens(f.get('class') or '')
            if len(ct) != 1 or f['body'] is None or not re.match(r'(OSSL|Botan)', f.get('class') or ''):
                continue
            names, lits = arm_names([f['body']])
            bt = set()
            for nm in names:
                bt |= digest_tokens(nm)
            if not bt:
                continue
            ctx.analysed(f)
            want = next(iter(ct))
            site = 'digest of the class [%s]' % cfg
            if bt - ct:
                r.violation(f['qname'], site, 'the %s class uses %s' % (want, ', '.join(sorted(bt - ct))), file=f['file'], line=f['line'])
            else:
                r.ok(f['qname'], site, 'names only %s' % want, file=f['file'], line=f['line'])


def r14_arm_effects(ctx, configs, rule_id='C20.R14'):
    """Arms of one switch that consume the same fields of the mechanism parameter leave the same members of the algorithm object behind (the PSS arms all store the salt length that
    signFinal / verifyFinal use later): an arm that reads the parameter but skips the store makes the final step work with a stale value."""
    r = ctx.rule(rule_id, 'sibling arms of a mechanism switch that read the same parameter fields store the same members', floor=4, engine='E7 sibling agreement over mod-sets')
    for cfg, prog in configs:
        for f, sw in crypto_switches(prog):
            arms = []
            for labels, stmts in tables.switch_cases(sw):
                reads, writes = set(), set()
                for st in stmts:
                    for x in walk(st):
                        if x.get('k') == 'Member' and x.get('base', {}).get('k') != 'This' and (x.get('cast') or x.get('base', {}).get('cast') or '').find('PARAMS') >= 0:
                            reads.add(x['field'])
                        elif x.get('k') == 'Member' and x.get('base', {}).get('k') == 'Var' and x['base'].get('kind') == 'param':
                            reads.add(x['field'])
                        if x.get('k') == 'Assign':
                            a = x['a']
                            if a.get('k') == 'Member' and a.get('base', {}).get('k') == 'This':
                                writes.add(a['field'])
                            elif a.get('k') == 'Var' and a.get('kind') == 'field':
                                writes.add(a['name'])
                if reads:
                    arms.append((labels, frozenset(reads), frozenset(writes), stmts))
            groups = {}
            for a in arms:
                groups.setdefault(a[1], []).append(a)
            for reads, members in groups.items():
                if len(members) < 3:
                    continue
                ctx.analysed(f)
                from collections import Counter
                major = Counter(m[2] for m in members).most_common(1)[0][0]
                for labels, _, writes, stmts in members:
                    site = 'arm %s [%s]' % ('/'.join(l.split('::')[-1] for l in labels), cfg)
                    line = stmts[0].get('l') if stmts and stmts[0] else f['line']
                    missing = sorted(major - writes)
                    if missing:
                        r.violation(f['qname'], site, 'this arm reads the parameter fields %s like its %d siblings but does not store %s: the step that finishes the operation works with the value an earlier operation left in the object' % (
                            '/'.join(sorted(reads)), len(members) - 1, '/'.join(missing)), file=f['file'], line=line)
                    else:
                        r.ok(f['qname'], site, 'stores %s' % ('/'.join(sorted(writes)) or 'nothing, like its siblings'), file=f['file'], line=line)


ORDER_MEASURES = {'EC_GROUP_get_order', 'EC_GROUP_order_bits', 'get_order', 'get_order_bytes'}
FIELD_MEASURES = {'EC_GROUP_get_degree', 'get_p_bytes', 'get_p_bits', 'get_p'}


def r15_order_length(ctx, configs, rule_id='C20.R15'):
    """ECDSA signatures are pairs of residues modulo the group order: the length every EC key class reports through getOrderLength() is measured by the order, not by the field
    (secp160r1, secp224k1: the order is one octet longer), and is measured the same way by the public and the private key class."""
    r = ctx.rule(rule_id, 'getOrderLength() of the EC key classes is measured by the group order', floor=2, engine='E8 value provenance')
    for cfg, prog in configs:
        for f in sorted(prog.functions.values(), key=lambda f: (f['file'], f['line'])):
            if short(f['qname']) != 'getOrderLength' or f['body'] is None:
                continue
            callees = {short(c.get('callee') or '') for c in calls(f['body'])}
            if not (callees & (ORDER_MEASURES | FIELD_MEASURES)):
                continue        # Edwards / Montgomery keys: fixed lengths per curve
            ctx.analysed(f)
            site = 'measure [%s]' % cfg
            if callees & FIELD_MEASURES:
                r.violation(f['qname'], site, 'the length is taken from %s, the size of the field; r and s of an ECDSA signature are residues modulo the group order, which is longer or shorter on some curves (secp160r1, secp224k1, sect233k1): signatures get a length no other implementation accepts' % '/'.join(sorted(callees & FIELD_MEASURES)),
                            file=f['file'], line=f['line'])
            else:
                r.ok(f['qname'], site, 'measured by %s' % '/'.join(sorted(callees & ORDER_MEASURES)), file=f['file'], line=f['line'])


def run(ctx):
    po = ctx.prog('ossl-file')
    pb = ctx.prog('botan-file')
    pdb = ctx.prog('ossl-db')
    r1_families(ctx, po, pb)
    r2_factories(ctx, po, pb)
    r3_store_kinds(ctx, pdb)
    r4_sql_values(ctx, pdb)
    c10.r3_stripped_length(ctx, [('ossl-file', po), ('botan-file', pb)], rule_id='C20.R5')
    from rules import c13, c05
    c13.r3_cipher_tables(ctx, po, pb, rule_id='C20.R7')
    c05.r1d_map_accounting(ctx, po, rule_id='C20.R8')
    c05.r1c_fresh_holders(ctx, po, rule_id='C20.R16')
    r6_token_flags(ctx, pdb)
    r9_attribute_iteration(ctx, pdb)
    r10_round_up(ctx, [('ossl-file', po), ('botan-file', pb)])
    r11_component_order(ctx, po, pb)
    c10.r10_secret_measure(ctx, [('ossl-file', po), ('botan-file', pb)], rule_id='C20.R12')
    r13_arm_digests(ctx, [('ossl-file', po), ('botan-file', pb)])
    r14_arm_effects(ctx, [('ossl-file', po), ('botan-file', pb)])
    r15_order_length(ctx, [('ossl-file', po), ('botan-file', pb)])


MUTANTS = [
    dict(name='dsa-sha384-signs-with-sha512', rule='C20.R13', file='src/lib/crypto/OSSLDSA.cpp', after='bool OSSLDSA::signInit(',
         old='\t\tcase AsymMech::DSA_SHA384:\n\t\t\thash = HashAlgo::SHA384;', new='\t\tcase AsymMech::DSA_SHA384:\n\t\t\thash = HashAlgo::SHA512;'),
    dict(name='hmac-sha384-class-uses-sha512', rule='C20.R13', file='src/lib/crypto/OSSLHMAC.cpp', after='const EVP_MD* OSSLHMACSHA384::getEVPHash() const',
         old='\treturn EVP_sha384();', new='\treturn EVP_sha512();'),
    dict(name='rsa-pss-sha256-digest-length-48', rule='C20.R13', file='src/lib/crypto/OSSLRSA.cpp', after='bool OSSLRSA::signInit(',
         old='(privateKey->getBitLength()+6)/8-2-32))', new='(privateKey->getBitLength()+6)/8-2-48))'),
    dict(name='rsa-pss-verify-arm-skips-salt-length', rule='C20.R14', file='src/lib/crypto/OSSLRSA.cpp', after='bool OSSLRSA::verifyInit(',
         old='\t\t\tsLen = ((RSA_PKCS_PSS_PARAMS*) param)->sLen;\n\t\t\tif (sLen > ((publicKey->getBitLength()+6)/8-2-64))', new='\t\t\tif (((RSA_PKCS_PSS_PARAMS*) param)->sLen > ((publicKey->getBitLength()+6)/8-2-64))'),
    dict(name='ec-public-order-length-from-degree', rule='C20.R15', file='src/lib/crypto/OSSLECPublicKey.cpp', after='unsigned long OSSLECPublicKey::getOrderLength() const',
         old='\t\tunsigned long len = BN_num_bytes(order);', new='\t\tunsigned long len = (EC_GROUP_get_degree(grp) + 7) / 8;'),
    dict(name='botan-rsa-crt-exponents-swapped', rule='C20.R11', config='botan-file', file='src/lib/crypto/BotanRSAPrivateKey.cpp', after='void BotanRSAPrivateKey::setFromBotan(',
         old='ByteString inDP1 = BotanUtil::bigInt2ByteString(inRSA->get_d1());', new='ByteString inDP1 = BotanUtil::bigInt2ByteString(inRSA->get_d2());'),
    dict(name='bn2bytestring-rounds-down', rule='C20.R10', file='src/lib/crypto/OSSLUtil.cpp', after='ByteString OSSL::bn2ByteString(',
         old='rv.resize(BN_num_bytes(bn));', new='rv.resize(BN_num_bits(bn) / 8);'),
    dict(name='dbobject-nextattributetype-stub', rule='C20.R9', config='ossl-db', file='src/lib/object_store/DBObject.cpp', after='CK_ATTRIBUTE_TYPE DBObject::nextAttributeType(',
         old='\treturn result.getULongLong(1);', new='\t(void) type;\n\treturn CKA_CLASS;'),
    dict(name='botan-rsa-drops-sha512-pss', rule='C20.R1', config='botan-file', file='src/lib/crypto/BotanRSA.cpp', after='bool BotanRSA::signInit(',
         old='\t\tcase AsymMech::RSA_SHA512_PKCS_PSS:\n', new='\t\tcase AsymMech::Unknown:\n'),
    dict(name='attributekind-loses-label', rule='C20.R3', config='ossl-db', file='src/lib/object_store/DBObject.cpp', old='\tcase CKA_LABEL: return akBinary;\n', new=''),
    dict(name='attributekind-wrong-kind', rule='C20.R3', config='ossl-db', file='src/lib/object_store/DBObject.cpp', old='\tcase CKA_CERTIFICATE_TYPE: return akInteger;', new='\tcase CKA_CERTIFICATE_TYPE: return akBinary;'),
    dict(name='sql-value-as-unsigned', rule='C20.R4', config='ossl-db', file='src/lib/object_store/DBObject.cpp',
         old='"insert into attribute_integer (value,type,object_id) values (%lld,%lu,%lld)",\n\t\t\t\t\tstatic_cast<long long>(attribute.getUnsignedLongValue()),',
         new='"insert into attribute_integer (value,type,object_id) values (%lu,%lu,%lld)",\n\t\t\t\t\tattribute.getUnsignedLongValue(),'),
    dict(name='dbtoken-resettoken-keeps-locked-flag', rule='C20.R6', config='ossl-db', file='src/lib/object_store/DBToken.cpp',
         old='& ~(CKF_USER_PIN_INITIALIZED | CKF_USER_PIN_COUNT_LOW | CKF_USER_PIN_FINAL_TRY | CKF_USER_PIN_LOCKED | CKF_USER_PIN_TO_BE_CHANGED)',
         new='& ~(CKF_USER_PIN_INITIALIZED | CKF_USER_PIN_COUNT_LOW | CKF_USER_PIN_FINAL_TRY | CKF_USER_PIN_TO_BE_CHANGED)'),
]
